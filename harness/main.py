import argparse
import importlib
import json
import os
import sys

from harness.lib.ctx import Ctx, guarded


def main():
    ap = argparse.ArgumentParser()
    ap.add_argument("pid")
    ap.add_argument("--tier", default=os.environ.get("VERIF_TIER", "quick"))
    ap.add_argument("--seed", type=int, default=None)
    ap.add_argument("--replay", default=None)
    a = ap.parse_args()
    pid = a.pid.upper()
    # one check of a property per tree at a time (they share scratch directories under RUN_ROOT)
    import fcntl
    from harness.lib.coqrun import RUN_ROOT
    os.makedirs(RUN_ROOT, exist_ok=True)
    lock = open(os.path.join(RUN_ROOT, ".lock-" + pid), "w")
    fcntl.flock(lock, fcntl.LOCK_EX)
    mod = importlib.import_module("harness.props." + pid.lower())
    ctx = Ctx(pid, tier=a.tier, seed=a.seed)
    if a.replay:
        data = json.load(open(a.replay))
        ctx.replay = data
        guarded(ctx, "replay", mod.replay, ctx, data)
    else:
        guarded(ctx, "run", mod.run, ctx)
    sys.exit(ctx.finish())


if __name__ == "__main__":
    main()

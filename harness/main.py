import argparse
import importlib
import json
import os
import sys

from harness.lib.ctx import Ctx, guarded


def main():
    ap = argparse.ArgumentParser()
    ap.add_argument("pid")
    ap.add_argument("--tier", default=os.environ.get("VERIF_TIER", "quick"))
    ap.add_argument("--seed", type=int, default=None)
    ap.add_argument("--replay", default=None)
    a = ap.parse_args()
    pid = a.pid.upper()
    mod = importlib.import_module("harness.props." + pid.lower())
    ctx = Ctx(pid, tier=a.tier, seed=a.seed)
    if a.replay:
        data = json.load(open(a.replay))
        ctx.replay = data
        guarded(ctx, "replay", mod.replay, ctx, data)
    else:
        guarded(ctx, "run", mod.run, ctx)
    sys.exit(ctx.finish())


if __name__ == "__main__":
    main()

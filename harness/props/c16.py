"""C16 - images through I/O and metadata edits: proof obligations + correspondence of
pack_attrs/unpack_attrs, update_metadata, load_image, the TIFF quantiser and load_average with the
Coq model (exact on dyadic data) + direct exploration of real hp.save / hp.load / hp.save_image /
load_average in a temporary directory (values, coordinates, name, every attribute, 1-3 cycles,
file orders, input snapshots)."""
import itertools
import math
import os
import shutil
import tempfile
import warnings
from fractions import Fraction

from harness.lib import boot
from harness.lib.coqrun import qlit, zlit, blit, listlit, strlit, run_mismatch_cases
from harness.lib.ctx import guarded

REQ = ("From Coq Require Import Qround.\nFrom HV Require Import Common.Generic Common.Cmp C18.Model C16.Model.\n"
       "Open Scope Q_scope.\nOpen Scope string_scope.\n")
META = ["medium_index", "illum_wavelen", "illum_polarization", "noise_sd"]
RGB = ["red", "green", "blue"]
K_0D = "io:attr-0d-array"        # DataArray attribute without dimensions cannot be reloaded
K_DIMS = "io:attr-dims-order"    # dims of an array attribute come back sorted by name
K_DEPTH = "tiff:depth16"         # save_image(depth=16|32) raises TypeError ('int15')
K_SINGLE = "io:attr-singleton-dim"   # (1, n) array attribute is stored flat by the HDF5 layer and cannot be reloaded


def dy(rng, lo, hi, bits=6):
    s = 1 << bits
    return rng.randint(int(lo * s), int(hi * s)) / s


# ---------------------------------------------------------------------------
# specs (JSON-able) -> real objects ; real objects -> Coq literals

def gen_label_set(rng):
    r = rng.random()
    if r < 0.45:
        return None
    if r < 0.85:
        n = rng.choice([2, 3, 3, 1])         # one labelled channel: a single-element illumination axis
        labs = rng.sample(RGB, n) if rng.random() < 0.3 else RGB[:n]
        return labs
    return list(range(rng.choice([2, 3, 4])))


def gen_yval(rng, depth=2):
    r = rng.random()
    if depth == 0 or r < 0.55:
        return rng.choice([dy(rng, -4, 4), dy(rng, 0, 2, 10), rng.randint(-5, 50), "text", "two words", "hölo",
                           True, False, 1.33, 0.66, 1e-9, 12345.678])
    if r < 0.8:
        return [gen_yval(rng, depth - 1) for _ in range(rng.choice([0, 1, 2, 3]))]
    return {k: gen_yval(rng, depth - 1) for k in rng.sample(["a", "b", "cc", "d_1"], rng.choice([1, 2, 3]))}


def gen_vec(rng):
    while True:
        c = [dy(rng, -2, 2, 3) for _ in range(rng.choice([2, 2, 3]))]
        if any(c):
            return c


def unit(c):
    import numpy as np
    c = np.array(c, dtype=float)
    if c.shape == (2,):
        c = np.append(c, 0)
    return (c / np.sqrt(np.sum(c ** 2))).tolist()


def gen_attr_specs(rng, labels, findings=True):
    """list of [key, aspec]; aspec = None | ['val', v] | ['cplx', re, im] | ['arr', [[dim, labels]...], flat data]"""
    out = []
    for key in META:
        r = rng.random()
        if r < 0.2:
            a = None
        elif key == "illum_polarization":
            if labels is not None and r < 0.6:
                rows = [unit(gen_vec(rng)) for _ in labels]
                if findings and rng.random() < 0.25:      # (vector, illumination): legal, user supplied
                    data = [rows[j][i] for i in range(3) for j in range(len(labels))]
                    a = ["arr", [["vector", ["x", "y", "z"]], ["illumination", list(labels)]], data]
                else:
                    a = ["arr", [["illumination", list(labels)], ["vector", ["x", "y", "z"]]], [x for r_ in rows for x in r_]]
            else:
                a = ["arr", [["vector", ["x", "y", "z"]]], unit(gen_vec(rng))]
        elif key == "medium_index":
            a = rng.choice([["val", 1.33], ["val", dy(rng, 1, 2)], ["val", 2], ["cplx", 1.5, 0.125]])
        else:
            if labels is not None and r < 0.6:
                a = ["arr", [["illumination", list(labels)]], [dy(rng, 0.125, 1, 8) for _ in labels]]
            elif findings and key == "noise_sd" and r < 0.7:
                a = ["arr", [], [dy(rng, 0.01, 1, 10)]]     # what load_average leaves for one channel
            else:
                a = ["val", rng.choice([dy(rng, 0.125, 1, 8), 0.66, 0.1])]
        out.append([key, a])
    for k in rng.sample(["extra", "normals", "Thing_2", "zz", "original_note"], rng.choice([0, 0, 1, 2, 3])):
        r = rng.random()
        if r < 0.15:
            out.append([k, None])
        elif r < 0.3:
            n1, n2 = rng.choice([(2, 1), (3, 2), (1, 3)])
            out.append([k, ["arr", [["p", list(range(n1))], ["q", ["u", "v", "w"][:n2]]],
                            [dy(rng, -1, 1) for _ in range(n1 * n2)]]])
        else:
            out.append([k, ["val", gen_yval(rng)]])
    rng.shuffle(out)
    return out


def build_attr(a):
    import numpy as np
    import xarray as xr
    if a is None:
        return None
    if a[0] == "val":
        return a[1]
    if a[0] == "cplx":
        return complex(a[1], a[2])
    dims = [d for d, _ in a[1]]
    shape = [len(ls) for _, ls in a[1]]
    pairs = list(a[1])
    if len(pairs) >= 2 and int(round(abs(a[2][0]) * 1e6)) % 2 == 0:
        # the coordinate mapping of a DataArray keeps ITS insertion order, which need not be the order of the dimensions
        # (xr.concat / dict_to_array produce (vector, illumination) coordinates on (illumination, vector) data)
        pairs = pairs[::-1]
    return xr.DataArray(np.array(a[2], dtype=float).reshape(shape), dims=dims, coords={d: list(ls) for d, ls in pairs})


def gen_image_spec(rng, dtypes=None, min_side=1, findings=True):
    nx, ny = rng.choice([1, 2, 3, 4, 5, 7]), rng.choice([1, 2, 3, 4, 6])
    nx, ny = max(nx, min_side), max(ny, min_side)
    labels = gen_label_set(rng)
    dtype = rng.choice(dtypes or ["float64", "float64", "float64", "float32", "int64", "int32", "uint8", "uint16",
                                  "complex128", "bool"])
    n = nx * ny * (len(labels) if labels else 1)
    if dtype.startswith("float"):
        vals = [dy(rng, -8, 8, 8) for _ in range(n)]
    elif dtype == "complex128":
        vals = [[dy(rng, -2, 2), dy(rng, -2, 2)] for _ in range(n)]
    elif dtype == "bool":
        vals = [rng.random() < 0.5 for _ in range(n)]
    else:
        vals = [rng.randint(0, 250) for _ in range(n)]
    sp = rng.choice([[0.5, 0.5], [dy(rng, 0.0625, 2, 4), dy(rng, 0.0625, 2, 4)], [0.1, 0.3], [1, 1], [0.0851, 0.0851],
                     # the same pixel sizes with lengths in metres / millimetres, and a coarse one in nanometres
                     [0.0851e-6, 0.0851e-6], [1.151e-7, 2.3e-7], [8.51e-5, 8.51e-5], [115.1, 85.1]])
    return dict(nx=nx, ny=ny, dtype=dtype, vals=vals, spacing=sp, z=rng.choice([0, 0, 0, 2.5, -1]),
                name=rng.choice([None, "foo", "my holo 1", "hölo", "data", "a.b"]), labels=labels,
                attrs=gen_attr_specs(rng, labels, findings))


def build_image(spec):
    import numpy as np
    import xarray as xr
    from holopy.core.metadata import data_grid
    labels = spec["labels"]
    shape = (spec["nx"], spec["ny"]) + ((len(labels),) if labels else ())
    if spec["dtype"] == "complex128":
        arr = np.array([complex(a, b) for a, b in spec["vals"]]).reshape(shape)
    else:
        arr = np.array(spec["vals"]).reshape(shape).astype(spec["dtype"])
    # (data_grid itself refuses a 1 x N x channels array; build the same object directly)
    from holopy.core.metadata import make_coords
    arr = arr.reshape((1,) + shape)
    coords = make_coords(arr.shape, spec["spacing"], spec["z"])
    dims = ["z", "x", "y"]
    if labels:
        coords["illumination"] = list(labels)
        dims.append("illumination")
    im = xr.DataArray(arr, dims=dims, coords=coords, name="tmp")
    im.name = spec["name"]
    im.attrs = {k: build_attr(a) for k, a in spec["attrs"]}
    return im


def plain(v):
    """python value up to scalar / container kind (numpy scalar -> python, tuple / ndarray -> list)"""
    import numpy as np
    if isinstance(v, np.generic):
        return plain(v.item())
    if isinstance(v, np.ndarray):
        if v.ndim == 0:
            return plain(v.item())
        return [plain(x) for x in v.tolist()]
    if isinstance(v, (list, tuple)):
        return [plain(x) for x in v]
    if isinstance(v, dict):
        return {plain(k): plain(x) for k, x in v.items()}
    if isinstance(v, bool) or v is None or isinstance(v, str):
        return v
    if isinstance(v, (int, float, complex)):
        if isinstance(v, float) and v != v:
            return "nan"
        return v
    return repr(v)


def canon(v):
    """deep, comparable snapshot of an image / attribute value"""
    import numpy as np
    import xarray as xr
    if isinstance(v, xr.DataArray):
        return dict(kind="DataArray", name=v.name, dims=[str(d) for d in v.dims], dtype=str(v.dtype),
                    values=plain(v.values), shape=list(v.shape),
                    coords={str(k): plain(c.values) for k, c in v.coords.items()},
                    attrs={str(k): canon_attr(x) for k, x in v.attrs.items()})
    return plain(v)


def canon_attr(x):
    import xarray as xr
    if isinstance(x, xr.DataArray):
        if x.ndim == 0:
            return plain(x.values)        # a dimensionless array is the number it holds
        return dict(kind="arr", dims=[str(d) for d in x.dims], values=plain(x.values),
                    coords={str(d): plain(x[d].values) for d in x.dims})
    return plain(x)


def label_lit(l):
    if isinstance(l, str):
        return "(LS %s)" % strlit(l)
    return "(LN %s)" % qlit(float(l))


def yv_lit(v):
    import numpy as np
    if isinstance(v, np.generic):
        v = v.item()
    if isinstance(v, bool):
        return "(YBool %s)" % blit(v)
    if isinstance(v, int):
        return "(YInt %s)" % zlit(v)
    if isinstance(v, float):
        return "(YNum %s)" % qlit(v)
    if isinstance(v, str):
        return "(YStr %s)" % strlit(v)
    if isinstance(v, (list, tuple, np.ndarray)):
        return "(YSeq %s)" % listlit([yv_lit(x) for x in v])
    if isinstance(v, dict):
        # a Python dict compares without regard to order (yaml.dump sorts the keys): canonical order
        return "(YMap %s)" % listlit(["(%s, %s)" % (strlit(str(k)), yv_lit(x)) for k, x in sorted(v.items(), key=lambda kv: str(kv[0]))])
    raise ValueError("not encodable: %r" % (v,))


def dims_lit(dims):
    return listlit(["(%s, %s)" % (strlit(str(d)), listlit([label_lit(l) for l in ls])) for d, ls in dims])


def aval_lit_spec(a):
    if a is None:
        return "ANone"
    if a[0] == "val":
        return "(AVal %s)" % yv_lit(a[1])
    if a[0] == "arr":
        return "(AArr (mkArr %s %s))" % (dims_lit(a[1]), listlit([qlit(x) for x in a[2]]))
    raise ValueError("complex values are explored, not modelled")


def aval_lit_real(v):
    import numpy as np
    import xarray as xr
    if v is None:
        return "ANone"
    if isinstance(v, xr.DataArray):
        dims = [(str(d), [x.item() if isinstance(x, np.generic) else x for x in v[d].values]) for d in v.dims]
        return "(AArr (mkArr %s %s))" % (dims_lit(dims), listlit([qlit(float(x)) for x in np.asarray(v.values).ravel()]))
    return "(AVal %s)" % yv_lit(v)


def attrs_lit_spec(specs):
    return listlit(["(%s, %s)" % (strlit(k), aval_lit_spec(a)) for k, a in specs])


def attrs_lit_real(d):
    return listlit(["(%s, %s)" % (strlit(str(k)), aval_lit_real(v)) for k, v in d.items()])


def spec_flags(specs):
    """which known input classes an attribute list contains"""
    zero_d = any(a is not None and a[0] == "arr" and len(a[1]) == 0 for _, a in specs)
    unsorted = any(a is not None and a[0] == "arr" and [d for d, _ in a[1]] != sorted(d for d, _ in a[1])
                   for _, a in specs)
    return zero_d, unsorted


def finding_key(specs, tail):
    zero_d, unsorted = spec_flags(specs)
    if zero_d:
        return K_0D + ":" + tail
    if unsorted:
        return K_DIMS + ":" + tail
    if tail == "h5" and any(a is not None and a[0] == "arr" and len(a[1]) > 1 and len(a[1][0][1]) == 1 for _, a in specs):
        return K_SINGLE + ":" + tail
    return None


def report_coq(ctx, tag, exprs, metas, keyfn, what):
    mism, errors, _ = run_mismatch_cases(tag, REQ, exprs)
    ctx.corr_cases += len(exprs)
    for e in errors:
        ctx.violation("corr-eval-error:" + tag, "model evaluation failed: " + e[:300], dict(kind="coq-error", log=e), nofail=True)
    for i in mism:
        ctx.disagree(keyfn(metas[i]), what(metas[i]), metas[i])


# ---------------------------------------------------------------------------
# stage 1: pack_attrs / unpack_attrs against the model (exact)

def stage_pack(ctx):
    import yaml
    from holopy.core.io.io import pack_attrs, unpack_attrs
    from holopy.core.holopy_object import FullLoader
    rng = ctx.subrng("pack")
    exprs, metas = [], []
    for k in range(ctx.n(120, 1500)):
        spec = gen_image_spec(rng, dtypes=["float64"])
        spec["attrs"] = [[key, a] for key, a in spec["attrs"] if a is None or a[0] != "cplx"]
        im = build_image(spec)
        before = canon(im)
        via = rng.choice(["h5", "tiff"])
        a_lit = attrs_lit_spec(spec["attrs"])
        zero_d, unsorted = spec_flags(spec["attrs"])
        ctx.count("pack:via-" + via)
        ctx.count("pack:attrs", len(spec["attrs"]))
        for _, a in spec["attrs"]:
            ctx.count("pack:kind:" + ("none" if a is None else a[0] if a[0] != "arr" else "arr%dd" % len(a[1])))
        if zero_d:
            ctx.count("pack:zero-dim-array")
        if unsorted:
            ctx.count("pack:unsorted-dims")
        ctx.nontriv(("pack", tuple(sorted((kk, "n" if a is None else a[0] + str(len(a[1]) if a[0] == "arr" else ""))
                                          for kk, a in spec["attrs"]))))
        meta = dict(kind="pack", case=k, spec=spec, via=via)
        try:
            packed = pack_attrs(im, do_spacing=(via == "tiff" and spec["nx"] > 1 and spec["ny"] > 1))
            table = yaml.load(packed["_attr_coords"], Loader=FullLoader)
        except Exception as e:  # noqa
            ctx.violation("pack:raises", "pack_attrs raises %s" % type(e).__name__, dict(meta, error=str(e)))
            continue
        tlit = listlit(["(%s, %s)" % (strlit(kk), "None" if not isinstance(v, dict) else
                                      "(Some %s)" % dims_lit([(d, list(ls)) for d, ls in v.items()]))
                        for kk, v in table.items()])
        data = [(kk, v) for kk, v in packed.items() if isinstance(v, list) and kk not in ("spacing",)]
        dlit = listlit(["(%s, %s)" % (strlit(kk), listlit([qlit(float(x)) for x in _flat(v)])) for kk, v in data])
        exprs.append("table_sim %s (model_table %s)" % (tlit, a_lit))
        metas.append(dict(meta, what="table", impl=plain(table)))
        exprs.append("data_sim %s (model_data %s)" % (dlit, a_lit))
        metas.append(dict(meta, what="stored-data"))
        try:
            if via == "tiff":       # the TIFF description tag: one more yaml layer around the packed dict
                packed = yaml.safe_load(yaml.dump(packed, default_flow_style=True))
            got = unpack_attrs(packed)
            glit = "(Some %s)" % attrs_lit_real(got)
            impl = {kk: canon_attr(v) for kk, v in got.items()}
        except Exception as e:  # noqa
            glit, impl = "None", "raises %s" % type(e).__name__
        exprs.append("oattrs_sim 0 %s (model_roundtrip %s)" % (glit, a_lit))
        metas.append(dict(meta, what="unpack(pack)", impl=impl))
        # direct predicate: what comes back is what went in
        ctx.explored += 1
        want = {kk: canon_attr(build_attr(a)) for kk, a in spec["attrs"]}
        if impl != want:
            key = finding_key(spec["attrs"], "pack") or "pack:roundtrip"
            ctx.violation(key, "unpack_attrs(pack_attrs(a)) differs from a.attrs (%s)" % (
                impl if isinstance(impl, str) else sorted(kk for kk in want if impl.get(kk) != want[kk])),
                dict(meta, impl=impl, want=want))
        if canon(im) != before:
            ctx.violation("pack:mutates-input", "pack_attrs changed the image it was given", meta)
        if k < 2:
            ctx.sample(dict(attrs=spec["attrs"], table=plain(table), unpacked=impl))
    report_coq(ctx, "C16p", exprs, metas,
               lambda m: (finding_key(m["spec"]["attrs"], "corr") or "corr:pack:" + m["what"]),
               lambda m: "model and implementation disagree on %s of pack_attrs/unpack_attrs" % m["what"])


def _flat(v):
    import numpy as np
    return np.asarray(v, dtype=float).ravel().tolist()


# ---------------------------------------------------------------------------
# stage 2: real hp.save / hp.load through HDF5 (exploration; values exact)

def expected_after(spec, stem):
    im = build_image(spec)
    c = canon(im)
    if c["name"] is None:
        c["name"] = stem
    return c


def diff_fields(a, b):
    out = [f for f in ("name", "dims", "dtype", "shape", "values", "coords") if a[f] != b[f]]
    out += ["attrs." + k for k in sorted(set(a["attrs"]) | set(b["attrs"])) if a["attrs"].get(k, "<missing>") != b["attrs"].get(k, "<missing>")]
    return out


def stage_h5(ctx, tmp):
    import holopy as hp
    rng = ctx.subrng("h5")
    for k in range(ctx.n(90, 900)):
        spec = gen_image_spec(rng)
        im = build_image(spec)
        before = canon(im)
        stem = "img%d" % k
        path = os.path.join(tmp, stem + rng.choice([".h5", "", ".h5"]))
        ncyc = rng.choice([1, 1, 2, 3])
        ctx.count("h5:cycles-%d" % ncyc)
        ctx.count("h5:dtype-" + spec["dtype"])
        ctx.count("h5:channels-%s" % (0 if not spec["labels"] else len(spec["labels"])))
        ctx.count("h5:shape-%s" % ("1xN" if 1 in (spec["nx"], spec["ny"]) else "NxM"))
        ctx.nontriv(("h5", spec["dtype"], spec["nx"], spec["ny"], str(spec["labels"]), spec["name"]))
        meta = dict(kind="h5", case=k, spec=spec, cycles=ncyc, path=os.path.basename(path))
        want = expected_after(spec, stem)
        cur = im
        ctx.explored += 1
        try:
            for _ in range(ncyc):
                with warnings.catch_warnings():
                    warnings.simplefilter("ignore")
                    hp.save(path, cur)
                    cur = hp.load(path)
            got = canon(cur)
        except Exception as e:  # noqa
            key = finding_key(spec["attrs"], "h5") or "h5:raises:" + type(e).__name__
            ctx.violation(key, "hp.save -> hp.load of an image raises %s: %s" % (type(e).__name__, str(e)[:120]),
                          dict(meta, error=str(e)[:300]))
            continue
        bad = diff_fields(want, got)
        if bad:
            key = finding_key(spec["attrs"], "h5") if all(f.startswith("attrs.") for f in bad) else None
            ctx.violation(key or "h5:" + bad[0].split(".")[0], "after %d HDF5 save/load cycle(s) the image differs in %s" % (ncyc, bad),
                          dict(meta, differs=bad, want={f: _pick(want, f) for f in bad[:3]}, got={f: _pick(got, f) for f in bad[:3]}))
        if canon(im) != before:
            ctx.violation("h5:mutates-input", "hp.save changed the image it was given", meta)
        if k < 1:
            ctx.sample(dict(h5=dict(shape=[spec["nx"], spec["ny"]], dtype=spec["dtype"], name=spec["name"], labels=spec["labels"])))


def _pick(c, f):
    return c["attrs"].get(f[6:], "<missing>") if f.startswith("attrs.") else c[f]


# ---------------------------------------------------------------------------
# stage 3: TIFF export / import

def gen_tiff_spec(rng):
    spec = gen_image_spec(rng, dtypes=["float64"], min_side=2, findings=True)
    labels = rng.choice([None, None, RGB, RGB[:2], ["green", "blue"], ["red", "blue"], ["blue", "red", "green"]])
    spec["labels"] = labels
    spec["z"] = 0
    n = spec["nx"] * spec["ny"] * (len(labels) if labels else 1)
    base, step = rng.choice([(0.0, 1 / 256), (1.0, 1 / 64), (-2.0, 1 / 128), (100.0, 0.5), (0.0, 1 / 1024)])
    ks = [rng.randint(0, 1024) for _ in range(n)]
    ks[rng.randrange(n)] = 0
    ks[(ks.index(0) + 1) % n] = rng.randint(512, 1024)        # never a constant image
    spec["vals"] = [base + kk * step for kk in ks]
    spec["attrs"] = gen_attr_specs(rng, labels, True)
    if spec["name"] == "a.b":
        spec["name"] = "ab"
    return spec


def stage_tiff(ctx, tmp):
    import numpy as np
    import holopy as hp
    from PIL import Image
    rng = ctx.subrng("tiff")
    exprs, metas = [], []
    for k in range(ctx.n(70, 700)):
        spec = gen_tiff_spec(rng)
        im = build_image(spec)
        before = canon(im)
        # PIL builds multi-channel images from 8-bit data only
        depth = 8 if spec["labels"] else rng.choice([8, 8, 16, 16, 32, "float"])
        stem = "t%d" % k
        path = os.path.join(tmp, stem + rng.choice([".tif", ".tiff"]))
        use_save = depth == 8 and rng.random() < 0.5
        lo, hi = float(np.min(im.values)), float(np.max(im.values))
        labels = spec["labels"]
        ctx.count("tiff:depth-%s" % depth)
        ctx.count("tiff:channels-%s" % (0 if not labels else len(labels)))
        ctx.nontriv(("tiff", depth, spec["nx"], spec["ny"], str(labels)))
        meta = dict(kind="tiff", case=k, spec=spec, depth=depth, entry="hp.save" if use_save else "hp.save_image")
        ctx.explored += 1
        try:
            with warnings.catch_warnings():
                warnings.simplefilter("ignore")
                if use_save:
                    hp.save(path, im)
                else:
                    hp.save_image(path, im, depth=depth)
        except Exception as e:  # noqa
            key = (K_DEPTH + ":save") if depth in (16, 32) and isinstance(e, TypeError) else "tiff:save-raises:" + type(e).__name__
            ctx.violation(key, "save_image(depth=%s) raises %s: %s" % (depth, type(e).__name__, str(e)[:100]),
                          dict(meta, error=str(e)[:300]))
            continue
        if canon(im) != before:
            ctx.violation("tiff:mutates-input", "save_image changed the image it was given", meta)
        try:
            with warnings.catch_warnings():
                warnings.simplefilter("ignore")
                back = hp.load(path)
            got = canon(back)
        except Exception as e:  # noqa
            key = finding_key(spec["attrs"], "tiff") or "tiff:load-raises:" + type(e).__name__
            ctx.violation(key, "hp.load of a TIFF written by save_image raises %s: %s" % (type(e).__name__, str(e)[:100]),
                          dict(meta, error=str(e)[:300]))
            continue
        want = expected_after(spec, stem)
        # metadata, spacing, name: exact
        bad = [f for f in ("name",) if want[f] != got[f]]
        for ax in ("x", "y"):
            if want["coords"][ax] != got["coords"].get(ax):
                bad.append("coords." + ax)
        if labels and sorted(got["coords"].get("illumination", [])) != sorted(labels):
            bad.append("coords.illumination")
        bad += ["attrs." + kk for kk in sorted(set(want["attrs"]) | set(got["attrs"]))
                if want["attrs"].get(kk, "<missing>") != got["attrs"].get(kk, "<missing>")]
        if bad:
            key = finding_key(spec["attrs"], "tiff") if all(f.startswith("attrs.") for f in bad) else None
            ctx.violation(key or "tiff:" + bad[0].split(".")[0], "TIFF export/import changed %s" % bad,
                          dict(meta, differs=bad, want={f: _pick2(want, f) for f in bad[:3]}, got={f: _pick2(got, f) for f in bad[:3]}))
            continue
        # values: within the proved quantisation step (by channel label)
        bits = {8: 8, 16: 15, 32: 31}.get(depth)
        if bits is not None:
            bound = (hi - lo) * (0.5 + 1e-6) / (2 ** bits - 1) + 1e-12 * (abs(lo) + abs(hi) + 1)
        else:
            bound = (hi - lo) * 2.0 ** -23 + 1e-12 * (abs(lo) + abs(hi) + 1)      # float32 storage
        if labels:
            err = max(float(np.abs(back.sel(illumination=l).values - im.sel(illumination=l).values).max()) for l in labels)
        else:
            err = float(np.abs(back.values - im.values).max())
        ctx.count("tiff:err/bound<=0.5" if err <= 0.5 * bound else "tiff:err/bound>0.5")
        if not err <= bound:
            ctx.violation("tiff:values", "TIFF round trip error %.3g exceeds the quantisation bound %.3g (depth %s)" % (err, bound, depth),
                          dict(meta, err=err, bound=bound))
        # correspondence with the model quantiser: the integers actually stored in the file
        if bits is not None:
            raw = np.asarray(Image.open(path))
            chans = [(None, None)] if not labels else [(l, RGB.index(l)) for l in labels]
            pts = []
            for _ in range(6):
                i, j = rng.randrange(spec["nx"]), rng.randrange(spec["ny"])
                l, ci = rng.choice(chans)
                v = float(im.values[0, i, j]) if l is None else float(im.sel(illumination=l).values[0, i, j])
                q = int(raw[i, j]) if l is None else int(raw[i, j, ci])
                r = float(back.values[0, i, j]) if l is None else float(back.sel(illumination=l).values[0, i, j])
                pts.append((v, q, r))
            tolq = 0 if bits < 31 else 2       # 2^31 * float64 rounding is comparable with the 1e-6 margin
            e = "forallb (fun p => let '(v, q, r) := p in Z.leb (Z.abs (tiff_store QO Qfloor %s %s %s v - q)) %d && " \
                "qclose (1 # 1000000000) (tiff_load QO 0 (qmax %s) %s %s q) r) %s" % (
                    zlit(bits), qlit(lo), qlit(hi), tolq, zlit(bits), qlit(lo), qlit(hi),
                    listlit(["(%s, %s, %s)" % (qlit(v), zlit(q), qlit(r)) for v, q, r in pts]))
            exprs.append(e)
            metas.append(dict(meta, what="quantiser", lo=lo, hi=hi, points=pts))
        if k < 1:
            ctx.sample(dict(tiff=dict(depth=depth, lo=lo, hi=hi, err=err, bound=bound)))
    # clipping to an explicit scaling pair + quantiser on a grid incl. both ends (raw file content)
    for k in range(ctx.n(20, 200)):
        nx, ny = rng.choice([2, 3, 4]), rng.choice([2, 3, 5])
        lo, hi = rng.choice([(0.0, 1.0), (0.0, 4.0), (-1.0, 1.0), (2.0, 10.0)])
        vals = [lo + (hi - lo) * rng.randint(-256, 1280) / 1024 for _ in range(nx * ny)]
        vals[0], vals[1] = lo, hi
        depth = rng.choice([8, 8, 16])
        bits = {8: 8, 16: 15}[depth]
        from holopy.core.metadata import data_grid
        im = data_grid(np.array(vals).reshape(nx, ny), spacing=0.5, name="clip")
        path = os.path.join(tmp, "clip%d.tif" % k)
        meta = dict(kind="tiff-clip", case=k, nx=nx, ny=ny, vals=vals, scaling=[lo, hi], depth=depth)
        try:
            with warnings.catch_warnings():
                warnings.simplefilter("ignore")
                hp.save_image(path, im, scaling=(lo, hi), depth=depth)
        except Exception as e:  # noqa
            key = (K_DEPTH + ":save") if depth == 16 and isinstance(e, TypeError) else "tiff:save-raises:" + type(e).__name__
            ctx.violation(key, "save_image(scaling=(lo,hi), depth=%s) raises %s" % (depth, type(e).__name__), dict(meta, error=str(e)[:200]))
            continue
        raw = np.asarray(Image.open(path)).ravel().tolist()
        ctx.count("tiff:clip-cases")
        exprs.append("zlist_eqb (map (tiff_store QO Qfloor %s %s %s) %s) %s" % (
            zlit(bits), qlit(lo), qlit(hi), listlit([qlit(v) for v in vals]), listlit([zlit(q) for q in raw])))
        metas.append(dict(meta, what="clip+quantiser", raw=raw))
    report_coq(ctx, "C16t", exprs, metas, lambda m: "corr:tiff:" + m["what"],
               lambda m: "model and implementation disagree on the TIFF %s" % m["what"])


def _pick2(c, f):
    if f.startswith("attrs."):
        return c["attrs"].get(f[6:], "<missing>")
    if f.startswith("coords."):
        return c["coords"].get(f[7:], "<missing>")
    return c[f]


# ---------------------------------------------------------------------------
# stage 4: load_image (pixel coordinates, channel selection)

def stage_load_image(ctx, tmp):
    import numpy as np
    import holopy as hp
    from PIL import Image
    from holopy.core.errors import BadImage, LoadError
    rng = ctx.subrng("loadimage")
    exprs, metas = [], []
    for k in range(ctx.n(100, 1200)):
        nch = rng.choice([0, 0, 3, 3, 3, 4])
        nx, ny = rng.choice([2, 3, 4, 5]), rng.choice([2, 3, 4, 6])
        if nch == 0 and rng.random() < 0.3:
            nx = 1 if rng.random() < 0.5 else nx
        ext = rng.choice([".png", ".tif"]) if nch != 4 else ".png"
        bits16 = nch == 0 and ext == ".tif" and rng.random() < 0.4
        shape = (nx, ny) + ((nch,) if nch else ())
        arr = np.array([rng.randint(0, 60000 if bits16 else 255) for _ in range(int(np.prod(shape)))]).reshape(shape)
        arr = arr.astype("uint16" if bits16 else "uint8")
        stem = "r%d" % k
        path = os.path.join(tmp, stem + ext)
        Image.fromarray(arr).save(path)
        sp = rng.choice([0.5, 0.25, (0.5, 0.25), (dy(rng, 0.0625, 2, 4), dy(rng, 0.0625, 2, 4)), (0.1, 0.3), 2])
        ch = rng.choice([None, 0, 1, 2, "all", [0, 1], [2, 0], [1, 2, 0], [0, 1, 2], 3, [0, 3], [1], [2, 2], 5, [0, 4]])
        name = rng.choice([None, None, "given"])
        meta = dict(kind="load_image", case=k, shape=list(shape), pixels=arr.tolist(), dtype=str(arr.dtype), ext=ext,
                    spacing=sp, channel=ch, name=name)
        ctx.count("load_image:%s" % ("grey" if nch == 0 else "%dch" % nch))
        ctx.count("load_image:channel=%s" % (ch if not isinstance(ch, list) else "list%d" % len(ch)))
        ctx.nontriv(("li", nch, str(ch), nx == 1))
        try:
            with warnings.catch_warnings():
                warnings.simplefilter("ignore")
                im = hp.load_image(path, spacing=sp, channel=ch, name=name, medium_index=1.33)
            labs = None if "illumination" not in im.dims else [x.item() if hasattr(x, "item") else x for x in im.illumination.values]
            v = im.values[0]
            px = [[[float(v[i, j])] if labs is None else [float(x) for x in v[i, j]] for j in range(ny)] for i in range(nx)]
            got = "(LOk %s %s)" % ("None" if labs is None else "(Some %s)" % listlit([label_lit(l) for l in labs]),
                                   listlit([listlit([listlit([qlit(x) for x in p]) for p in row]) for row in px]))
            meta["impl"] = dict(labels=labs, x=im.x.values.tolist(), y=im.y.values.tolist(), name=im.name)
        except BadImage:
            im, got = None, "LBadImage"
        except LoadError:
            im, got = None, "LLoadError"
        ctx.count("load_image:->" + got.split(" ")[0].strip("("))
        if nch == 0:
            rl = "(RGrey %s)" % listlit([listlit([qlit(int(x)) for x in row]) for row in arr.tolist()])
        else:
            rl = "(RColour %d %s)" % (nch, listlit([listlit([listlit([qlit(int(x)) for x in p]) for p in row]) for row in arr.tolist()]))
        cl = "CNone" if ch is None else "CAll" if ch == "all" else "(CList %s)" % listlit(
            ["%d%%nat" % c for c in ([ch] if isinstance(ch, int) else ch)])
        exprs.append("loaded_sim %s (load_channels QO %s %s)" % (got, rl, cl))
        metas.append(dict(meta, what="channels"))
        if im is not None and k % 3 == 0:
            # what a script does next: edit the loaded image in place; a later load of the same (unchanged) file must still
            # return the file's pixels, and load_average over it twice their mean
            first = im.values.copy()
            try:
                im.values[...] = im.values * 0.5 - 3.0
                im -= 1.0
            except Exception:  # noqa  (read-only results are fine)
                pass
            with warnings.catch_warnings():
                warnings.simplefilter("ignore")
                again = hp.load_image(path, spacing=sp, channel=ch, name=name, medium_index=1.33)
            ctx.explored += 1
            ctx.count("load_image:reload-after-edit")
            if again.values.shape != first.shape or not np.array_equal(again.values, first):
                ctx.violation("load_image:reload-after-edit", "load_image returns other pixels for an unchanged file after the image "
                              "returned by an earlier load was edited in place", dict(meta, first=first.tolist(), again=again.values.tolist()))
        if im is not None:
            sx, sy = (sp, sp) if not isinstance(sp, tuple) else sp
            # exact for dyadic spacings; i*0.3 rounds in the last bit
            exprs.append("qlist_close (1 # 1000000000000) (axis QO %d %s) %s && qlist_close (1 # 1000000000000) (axis QO %d %s) %s" % (
                nx, qlit(sx), listlit([qlit(x) for x in im.x.values.tolist()]),
                ny, qlit(sy), listlit([qlit(x) for x in im.y.values.tolist()])))
            metas.append(dict(meta, what="coords"))
            ctx.explored += 1
            want_name = name if name is not None else stem
            if im.name != want_name or im.attrs.get("medium_index") != 1.33 or list(im.z.values) != [0]:
                ctx.violation("load_image:meta", "load_image lost the name / medium_index / z", dict(meta))
    report_coq(ctx, "C16l", exprs, metas, lambda m: "corr:load_image:" + m["what"],
               lambda m: "model and implementation disagree on load_image %s" % m["what"])


# ---------------------------------------------------------------------------
# stage 5: update_metadata

def stage_update(ctx):
    import numpy as np
    from holopy.core.metadata import update_metadata
    rng = ctx.subrng("update")
    exprs, metas = [], []
    for k in range(ctx.n(150, 2000)):
        spec = gen_image_spec(rng, dtypes=["float64"], findings=False)
        spec["attrs"] = [[key, a] for key, a in spec["attrs"] if a is None or a[0] != "cplx"]
        if rng.random() < 0.3:       # some of the four fields absent altogether
            drop = rng.choice(META)
            spec["attrs"] = [[key, a] for key, a in spec["attrs"] if key != drop]
        labels = spec["labels"]
        im = build_image(spec)
        before = canon(im)

        def keys():
            if labels is None or rng.random() < 0.1:
                return rng.choice([["red", "green"], [0, 1], ["q"]])
            ls = list(labels)
            rng.shuffle(ls)
            return ls

        def scalar_arg():
            r = rng.random()
            if r < 0.35:
                return None, "UNone"
            if r < 0.65 or labels is None and r < 0.9:
                v = rng.choice([dy(rng, 0.125, 2, 6), 0.66, 2])
                return v, "(UVal %s)" % yv_lit(v)
            ks = keys()
            d = {kk: dy(rng, 0.125, 2, 6) for kk in ks}
            return d, "(UDict %s)" % listlit(["(%s, %s)" % (label_lit(kk), qlit(v)) for kk, v in d.items()])

        mi = rng.choice([None, None, 1.33, dy(rng, 1, 2), 2])
        wl, wl_l = scalar_arg()
        ns, ns_l = scalar_arg()
        r = rng.random()
        norms = []
        if r < 0.3:
            pol, pol_l = None, "PNone"
        elif r < 0.65 or labels is None and r < 0.9:
            c = gen_vec(rng)
            pol = tuple(c) if rng.random() < 0.5 else list(c)
            norms = [float(np.sqrt(np.sum(np.append(c, 0) ** 2 if len(c) == 2 else np.array(c) ** 2)))]
            pol_l = "(PVec %s)" % listlit([qlit(x) for x in c])
        else:
            ks = keys()
            pol = {kk: tuple(gen_vec(rng)) for kk in ks}
            norms = [float(np.sqrt(np.sum((np.append(c, 0) if len(c) == 2 else np.array(c)) ** 2))) for c in pol.values()]
            pol_l = "(PDict %s)" % listlit(["(%s, %s)" % (label_lit(kk), listlit([qlit(x) for x in c])) for kk, c in pol.items()])
        meta = dict(kind="update", case=k, spec=spec, medium_index=mi, illum_wavelen=plain(wl), noise_sd=plain(ns),
                    illum_polarization=plain(pol), norms=norms)
        for nm_, v in (("mi", mi), ("wl", wl), ("pol", pol), ("ns", ns)):
            ctx.count("update:%s=%s" % (nm_, "None" if v is None else type(v).__name__))
        ctx.nontriv(("upd", mi is None, type(wl).__name__, type(pol).__name__, type(ns).__name__, labels is None))
        try:
            with warnings.catch_warnings():
                warnings.simplefilter("ignore")
                b = update_metadata(im, medium_index=mi, illum_wavelen=wl, illum_polarization=pol, noise_sd=ns)
            got = "(Some %s)" % attrs_lit_real(b.attrs)
            meta["impl"] = {kk: canon_attr(v) for kk, v in b.attrs.items()}
        except ValueError as e:
            b, got = None, "None"
            meta["impl"] = "ValueError: " + str(e)[:80]
        ctx.count("update:->" + ("image" if b is not None else "ValueError"))
        coords = [(str(cn), [x.item() if hasattr(x, "item") else x for x in im[cn].values]) for cn in im.coords]
        iml = "(mkImage None %s [] %s)" % (dims_lit(coords), attrs_lit_spec(spec["attrs"]))
        exprs.append("oattrs_sim (1 # 1000000000000) %s (oimage_attrs (update_metadata_with QO %s %s %s %s %s %s))" % (
            got, listlit([qlit(x) for x in norms]), iml, "None" if mi is None else "(Some %s)" % yv_lit(mi), wl_l, pol_l, ns_l))
        metas.append(dict(meta, what="attrs"))
        # direct predicates
        ctx.explored += 1
        if canon(im) != before:
            ctx.violation("update:mutates-input", "update_metadata changed the image it was given", meta)
        if b is not None:
            cb = canon(b)
            for f in ("name", "dims", "dtype", "shape", "values", "coords"):
                if cb[f] != before[f]:
                    ctx.violation("update:" + f, "update_metadata changed %s" % f, meta)
            for kk, v in before["attrs"].items():
                if kk not in META and cb["attrs"].get(kk, "<missing>") != v:
                    ctx.violation("update:unnamed-field", "update_metadata changed attribute %s that was not named" % kk, meta)
            for kk, arg in (("medium_index", mi), ("illum_wavelen", wl), ("noise_sd", ns), ("illum_polarization", pol)):
                if arg is None and cb["attrs"].get(kk, "<missing>") != before["attrs"].get(kk):
                    ctx.violation("update:none-overwrites", "update_metadata(%s=None) changed the stored %s" % (kk, kk), meta)
            if pol is not None:
                p = np.asarray(b.attrs["illum_polarization"].values)
                if not np.allclose(np.sum(p ** 2, axis=-1), 1, atol=1e-12, rtol=0):
                    ctx.violation("update:polarization-norm", "polarization is not normalised to unit length", meta)
            b.attrs["medium_index"] = "scribble"      # writing through the result must not reach the original
            b.values[...] = -1
            if canon(im) != before:
                ctx.violation("update:shares-state", "the result of update_metadata shares state with its input", meta)
        if k < 2:
            ctx.sample(dict(update=dict(medium_index=mi, illum_wavelen=plain(wl), illum_polarization=plain(pol),
                                        noise_sd=plain(ns), result=meta["impl"])))
    report_coq(ctx, "C16u", exprs, metas, lambda m: "corr:update_metadata",
               lambda m: "model and implementation disagree on the attributes update_metadata returns")


# ---------------------------------------------------------------------------
# stage 6: load_average (mean, noise, file order)

def stage_average(ctx, tmp):
    import numpy as np
    import holopy as hp
    from PIL import Image
    from holopy.core.io import load_average
    from holopy.core.io.io import Accumulator
    from holopy.core.metadata import data_grid
    rng = ctx.subrng("average")
    exprs, metas = [], []
    for k in range(ctx.n(40, 400)):
        nfiles = rng.choice([1, 2, 2, 3, 3, 4, 5, 6])
        nx, ny = rng.choice([2, 3, 4]), rng.choice([2, 3, 4])
        colour = rng.random() < 0.25
        bits16 = (not colour) and rng.random() < 0.3
        d = os.path.join(tmp, "avg%d" % k)
        os.mkdir(d)
        shape = (nx, ny) + ((3,) if colour else ())
        arrs, paths = [], []
        for f in range(nfiles):
            a = np.array([rng.randint(1, 60000 if bits16 else 255) for _ in range(int(np.prod(shape)))]).reshape(shape)
            a = a.astype("uint16" if bits16 else "uint8")
            p = os.path.join(d, "f%02d.tif" % f)
            Image.fromarray(a).save(p)
            arrs.append(a)
            paths.append(p)
        sp = rng.choice([0.5, (0.5, 0.25), 0.125])
        chan = [0, 1, 2] if colour else None
        meta = dict(kind="average", case=k, nfiles=nfiles, shape=list(shape), pixels=[a.tolist() for a in arrs],
                    spacing=sp, colour=colour)
        ctx.count("average:files-%d" % nfiles)
        ctx.count("average:%s" % ("rgb" if colour else "grey"))
        ctx.nontriv(("avg", nfiles, nx, ny, colour))

        def run(ps, **kw):
            with warnings.catch_warnings():
                warnings.simplefilter("ignore")
                return load_average(ps, spacing=sp, channel=chan, medium_index=1.33, **kw)
        ref = run(paths)
        # model: mean image and noise (per-pixel std from the library's own Accumulator as the sqrt oracle)
        acc = Accumulator()
        for a in arrs:
            acc.push(a.astype("d"))
        if not colour:
            stds = np.asarray(acc.std()).ravel().tolist()
            imgs = listlit([listlit([qlit(int(x)) for x in a.ravel().tolist()]) for a in arrs])
            npix = nx * ny
            exprs.append("qlist_close (1 # 1000000000000) (avg_image QO %s %d) %s" % (
                imgs, npix, listlit([qlit(float(x)) for x in ref.values.ravel().tolist()])))
            metas.append(dict(meta, what="mean", impl=ref.values.ravel().tolist()))
            if nfiles > 1:
                exprs.append("forallb (fun sv => match snd sv with Some v => qclose (1 # 1000000000) (fst sv * fst sv) v | None => false end) "
                             "(combine %s (var_image QO %s %d)) && qclose (1 # 1000000000) (avg_noise_with QO %s %s %d) %s" % (
                                 listlit([qlit(x) for x in stds]), imgs, npix, listlit([qlit(x) for x in stds]), imgs, npix,
                                 qlit(float(ref.attrs["noise_sd"]))))
                metas.append(dict(meta, what="noise", impl=float(ref.attrs["noise_sd"]), stds=stds))
        # direct predicates: pixelwise mean, coordinates, order independence, directory form
        ctx.explored += 1
        mean = np.mean([a.astype("d") for a in arrs], axis=0)
        if not np.allclose(ref.values[0], mean, rtol=1e-12, atol=0):
            ctx.violation("average:mean", "load_average is not the pixelwise mean", meta)
        sx, sy = (sp, sp) if not isinstance(sp, tuple) else sp
        if ref.x.values.tolist() != [i * sx for i in range(nx)] or ref.y.values.tolist() != [j * sy for j in range(ny)]:
            ctx.violation("average:coords", "load_average pixel coordinates are not (i*sx, j*sy)", meta)
        if nfiles > 1:
            want = np.sqrt(np.var([a.astype("d") for a in arrs], axis=0)) / mean
            want = want.mean(axis=(0, 1))
            got = np.asarray(ref.attrs["noise_sd"].values if hasattr(ref.attrs["noise_sd"], "values") else ref.attrs["noise_sd"])
            if not np.allclose(got, want, rtol=1e-9, atol=0):
                ctx.violation("average:noise", "noise_sd is not mean(std/mean)", dict(meta, got=plain(got), want=plain(want)))
        elif ref.attrs.get("noise_sd") is not None:
            ctx.violation("average:noise-single", "a single file gives a noise estimate", meta)
        orders = list(itertools.permutations(paths)) if nfiles <= 3 else [rng.sample(paths, nfiles) for _ in range(4)] + [paths[::-1]]
        for o in orders:
            other = run(list(o))
            ctx.count("average:orders")
            dm = float(np.abs(other.values - ref.values).max() / np.abs(ref.values).max())
            dn = 0.0
            if nfiles > 1:
                dn = float(np.abs(np.asarray(other.attrs["noise_sd"]) - np.asarray(ref.attrs["noise_sd"])).max())
            if dm > 1e-12 or dn > 1e-12:
                ctx.violation("average:order", "load_average depends on the file order (mean %.2g, noise %.2g)" % (dm, dn),
                              dict(meta, order=[os.path.basename(p) for p in o]))
        bydir = run(d)
        if float(np.abs(bydir.values - ref.values).max()) > 1e-9 * float(np.abs(ref.values).max()):
            ctx.violation("average:directory", "directory form differs from the explicit list", meta)
        if rng.random() < 0.5 and not colour and nx > 2 and ny > 2:
            rimg = data_grid(np.zeros((nx - 1, ny - 1)), spacing=sp, medium_index=1.5, illum_wavelen=0.66,
                             illum_polarization=(0, 1), name="ref")
            rbefore = canon(rimg)
            with warnings.catch_warnings():
                warnings.simplefilter("ignore")
                cr = load_average(paths, refimg=rimg)
            ctx.count("average:refimg")
            ok = (cr.values.shape == (1, nx - 1, ny - 1) and np.allclose(cr.values[0], mean[:nx - 1, :ny - 1], rtol=1e-12)
                  and cr.x.values.tolist() == rimg.x.values.tolist() and cr.attrs["medium_index"] == 1.5
                  and cr.attrs["illum_wavelen"] == 0.66)
            if not ok:
                ctx.violation("average:refimg", "load_average(refimg=...) does not take spacing/metadata/extent from refimg", meta)
            if canon(rimg) != rbefore:
                ctx.violation("average:mutates-refimg", "load_average changed refimg", meta)
        # the averaged background must itself survive save -> load (the usual workflow)
        if rng.random() < 0.5:
            p = os.path.join(d, "bg" + rng.choice([".h5", ".tif"]))
            ctx.count("average:save-result" + os.path.splitext(p)[1])
            try:
                with warnings.catch_warnings():
                    warnings.simplefilter("ignore")
                    hp.save(p, ref)
                    back = hp.load(p)
                n0, n1 = ref.attrs.get("noise_sd"), back.attrs.get("noise_sd")
                if (n0 is None) != (n1 is None) or (n0 is not None and not np.allclose(np.asarray(n0), np.asarray(n1), rtol=1e-15)):
                    ctx.violation("average:saved-noise", "noise_sd of a saved average changed on reload", dict(meta, ext=p[-3:]))
            except Exception as e:  # noqa
                single = nfiles > 1 and not colour
                ctx.violation((K_0D + ":average") if single else "average:save-raises",
                              "the result of load_average cannot be saved and reloaded (%s: %s)" % (type(e).__name__, str(e)[:80]),
                              dict(meta, ext=os.path.splitext(p)[1], error=str(e)[:200]))
        if k < 1:
            ctx.sample(dict(average=dict(files=nfiles, shape=list(shape), noise_sd=plain(ref.attrs.get("noise_sd")))))
    report_coq(ctx, "C16a", exprs, metas, lambda m: "corr:average:" + m["what"],
               lambda m: "model and implementation disagree on load_average %s" % m["what"])


# ---------------------------------------------------------------------------

def setup(ctx):
    ctx.rule = ("attribute dictionaries over the grammar None / yaml value (numbers, strings, bools, nested lists and dicts) / "
                "labelled array with 0-2 dims (incl. per-channel arrays in both dim orders) on images of shape 1..7 x 1..6, "
                "0/2/3/4 channels, 10 dtypes, anisotropic spacings, names incl. None/unicode; TIFF depth 8/16/32/float with "
                "RGB subsets; rasters grey/RGB/RGBA 8/16 bit x channel requests incl. out of range; update_metadata argument "
                "forms None/scalar/dict/vector; 1-6 files x all (<=3 files) or 5 orders; non-trivial = distinct (attr-kind "
                "multiset | dtype,shape,channels,name | depth,shape,channels | channels,request | argument-form) classes")
    ctx.clauses_proved = [
        "unpack_attrs(pack_attrs(a)) = a for every attribute dictionary of the grammar (under the yaml oracle)",
        "HDF5 save/load returns values, coords, name, attrs; any number of cycles = one cycle",
        "update_metadata changes only the named fields, None never overwrites, missing fields become None, data/coords/name kept",
        "to_vector gives a unit vector; dict -> array over the matching dimension", "update allocates (input object untouched)",
        "pixel (i,j) at (i*sx, j*sy)", "channel selection returns the requested channels with their labels; refusals",
        "Welford = batch mean/variance; mean image, variance image and noise invariant under every file order",
        "quantiser error <= (0.5+1e-6)/(2^bits-1) on [0,1] for every bit depth; endpoints; monotone; TIFF round trip bound; clipping",
        "Q quantiser = R quantiser"]
    ctx.clauses_explored = [
        "the HDF5 (h5netcdf) and TIFF (PIL) containers return what they are handed (dtype, values, coords): exercised, not modelled",
        "purity of the real Python objects (deep snapshots before/after every call)",
        "float32 storage error of depth='float'", "load_average(refimg=...) cropping and metadata copy",
        "multi-channel TIFF (dummy channel, channel order) compared by label",
        "what load / load_image / load_average return is a function of the file: a path overwritten with another image of the same "
        "shape, depth and metadata text (twice, within the same second) reads back as the new content each time"]
    ctx.trusted += ["oracle: PyYAML dump/load of attribute values and of the _attr_coords table (hypotheses yaml_value / yaml_table; exercised on every case)",
                    "oracle: h5netcdf / xarray.to_netcdf and PIL TIFF containers (identity on data; explored)",
                    "oracle: numpy sqrt in to_vector (norm handed to the model) and in Accumulator.std (s*s = var checked in Coq per pixel)",
                    "oracle: numpy astype(int) = truncation (Qfloor on non-negative values; Int_part in the theorems, linked by quantiser_agrees_on_Q)"]


# ---------------------------------------------------------------------------
# stage: a file that is overwritten (same path, same shape / depth / metadata text, within the same second) and read
# again must give the NEW content: what load returns is a function of the file, not of the history of reads

def overwrite_case(tmp, nx, ny, fmt, depth, vals, tag):
    """-> list of (what, err, bound) for the reads after the overwrite"""
    import numpy as np
    import holopy as hp
    from PIL import Image
    from holopy.core.metadata import data_grid
    A = np.array(vals, dtype=float).reshape(nx, ny)
    B = A.ravel()[::-1].reshape(nx, ny).copy()           # a permutation: same min / max / metadata text / file size
    kw = dict(spacing=0.5, medium_index=1.33, illum_wavelen=0.66, illum_polarization=(1, 0), name="ow")
    imA, imB = data_grid(A, **kw), data_grid(B, **kw)
    path = os.path.join(tmp, "ow%s%s" % (tag, fmt))
    lo, hi = float(A.min()), float(A.max())
    bits = {8: 8, 16: 15, 32: 31}.get(depth)
    bound = 1e-12 if fmt == ".h5" else ((hi - lo) * (0.5 + 1e-6) / (2 ** bits - 1) + 1e-12 * (abs(lo) + abs(hi) + 1))
    out = []

    def write(im):
        if fmt == ".h5":
            hp.save(path, im)
        elif depth == 8:
            hp.save(path, im)
        else:
            hp.save_image(path, im, depth=depth)

    def reads(B_now):
        r = hp.load(path)
        out.append(("load", float(np.abs(r.values[0] - B_now).max()), bound))
        if fmt != ".h5":
            li = hp.load_image(path, spacing=0.5)
            raw = np.asarray(Image.open(path)).astype(float)
            out.append(("load_image", float(np.abs(li.values[0] - raw).max()), 0.0))
            from holopy.core.io import load_average
            av = load_average([path], spacing=0.5)
            out.append(("load_average", float(np.abs(av.values[0] - raw).max()), 1e-9 * (1 + float(np.abs(raw).max()))))
    with warnings.catch_warnings():
        warnings.simplefilter("ignore")
        write(imA)
        reads(A)
        first = len(out)
        write(imB)
        reads(B)
        write(imA)
        reads(A)
    return out, first


def stage_overwrite(ctx, tmp):
    rng = ctx.subrng("overwrite")
    for k in range(ctx.n(18, 120)):
        nx, ny = rng.choice([2, 3, 5, 8]), rng.choice([2, 3, 4, 7])
        fmt = rng.choice([".tif", ".tif", ".tiff", ".h5"])
        depth = 8 if fmt == ".h5" else rng.choice([8, 8, 16])
        vals = [rng.randint(0, 4096) / 16.0 for _ in range(nx * ny)]
        vals[0], vals[-1] = 0.0, 300.0                       # first and last pixel differ widely: the reversed image is another image
        meta = dict(kind="overwrite", case=k, nx=nx, ny=ny, fmt=fmt, depth=depth, vals=vals)
        ctx.explored += 1
        ctx.count("overwrite:%s:depth-%s" % (fmt, depth))
        ctx.nontriv(("overwrite", fmt, depth, nx, ny))
        res, first = overwrite_case(tmp, nx, ny, fmt, depth, vals, str(k))
        bad = [(i, w, e, b) for i, (w, e, b) in enumerate(res) if not e <= b]
        if any(i < first for i, *_ in bad):
            continue                                          # the first write / read pair itself is judged by the tiff / h5 stages
        if bad:
            i, w, e, b = bad[0]
            ctx.violation("overwrite:%s" % w, "after a file was overwritten (same path, shape, depth and metadata), %s returns content that "
                          "is not the file's: error %.3g (bound %.3g)" % (w, e, b), dict(meta, reads=[(w, e, b) for w, e, b in res]))


# source tie: grid coordinates (core/metadata.py) and the TIFF quantiser of _save_im (core/io/io.py) as written now
def _src_items():
    from harness.lib import pygrid
    return [dict(file="holopy/core/metadata.py", qualname="make_coords", name="make_coords_src", fn=pygrid.make_coords),
            dict(file="holopy/core/metadata.py", qualname="data_grid", name="data_grid_src", fn=pygrid.data_grid),
            dict(file="holopy/core/io/io.py", qualname="_save_im", name="save_im_src", fn=pygrid.save_im_quant),
            dict(file="holopy/core/metadata.py", qualname="to_vector", name="to_vector_src", fn=pygrid.to_vector)]


def stage_srctie(ctx):
    from harness.lib import srctie
    ok = srctie.run(ctx, "C16", "From Coq Require Import Lia.\nFrom HV Require Import C16.Model C16.Lemmas C16.Props.\n", _src_items())
    ctx.count("srctie:%s" % ("ok" if ok else "broken"))


def run(ctx):
    setup(ctx)
    ctx.trusted.append("source reader harness/lib/pygrid.py (an axis read as its generic element over np.arange's index; python floats "
                       "read as the reals their decimal text denotes; 2**depth read as 2^depth; call arguments compared as text) for the source tie")
    ctx.clauses_proved.append(
        "source tie: make_coords / data_grid of core/metadata.py, read from the current source text on every run, build the model's "
        "coordinate dictionary (keys, order, shape indices, np.expand_dims axis); pixel (i,j) = (i s_x, j s_y) restated for the source; "
        "_save_im of core/io/io.py: the depth chain gives 8 / 15 / 31 bits and refuses the rest, the value handed to astype is the "
        "model quantiser's argument, so the quantisation error bound and the end points hold for the source's expression "
        "[make_coords_src_is_model, src_pixel_coords, save_im_bits_src_spec, save_im_quant_src_is_model, src_quantiser_error, "
        "src_quantiser_endpoints]; to_vector of core/metadata.py read per component: the plain branch is the model's to_vector (unit "
        "length for every non-zero 2- or 3-vector), the labelled branch hands a vector on unchanged only when ALL channels are within "
        "1e-12 of unit length and otherwise divides by the norm, giving unit length [to_vector_src_is_model, src_to_vector_unit, "
        "to_vector_lab_src_spec, src_to_vector_labelled_unit]")
    guarded(ctx, "prove", ctx.prove)
    guarded(ctx, "source-tie", stage_srctie, ctx)
    boot.boot()
    tmp = tempfile.mkdtemp(prefix="C16-run-", dir="/tmp")
    try:
        guarded(ctx, "pack", stage_pack, ctx)
        guarded(ctx, "update", stage_update, ctx)
        guarded(ctx, "h5", stage_h5, ctx, tmp)
        guarded(ctx, "tiff", stage_tiff, ctx, tmp)
        guarded(ctx, "load_image", stage_load_image, ctx, tmp)
        guarded(ctx, "average", stage_average, ctx, tmp)
        guarded(ctx, "overwrite", stage_overwrite, ctx, tmp)
    finally:
        shutil.rmtree(tmp, ignore_errors=True)


def replay(ctx, data):
    """re-run the stored failing case on the current tree"""
    import numpy as np
    boot.boot()
    d = data["data"]
    kind = d.get("kind")
    tmp = tempfile.mkdtemp(prefix="C16-replay-", dir="/tmp")
    try:
        import holopy as hp
        if kind in ("h5", "tiff", "pack") and "spec" in d:
            spec = d["spec"]
            im = build_image(spec)
            stem = "replay"
            path = os.path.join(tmp, stem + (".tif" if kind == "tiff" else ".h5"))
            ctx.explored += 1
            try:
                with warnings.catch_warnings():
                    warnings.simplefilter("ignore")
                    if kind == "tiff":
                        hp.save_image(path, im, depth=d.get("depth", 8))
                    else:
                        hp.save(path, im)
                    got = canon(hp.load(path))
            except Exception as e:  # noqa
                print("replay: save/load raises %s: %s" % (type(e).__name__, e))
                ctx.violation(data["key"], data["what"], d)
                return
            want = expected_after(spec, stem)
            bad = [f for f in diff_fields(want, got) if kind != "tiff" or f.startswith("attrs.") or f == "name"]
            print("replay: fields that differ after save/load: %s" % bad)
            if bad:
                ctx.violation(data["key"], data["what"], d)
        elif kind == "overwrite":
            ctx.explored += 1
            res, first = overwrite_case(tmp, d["nx"], d["ny"], d["fmt"], d["depth"], d["vals"], "r")
            print("replay: reads (what, error, bound):", res)
            if any(not e <= b for w, e, b in res[first:]):
                ctx.violation(data["key"], data["what"], d)
        elif kind == "average":
            from PIL import Image
            from holopy.core.io import load_average
            paths = []
            for i, a in enumerate(d["pixels"]):
                p = os.path.join(tmp, "f%02d.tif" % i)
                Image.fromarray(np.array(a).astype("uint16" if np.max(a) > 255 else "uint8")).save(p)
                paths.append(p)
            sp = tuple(d["spacing"]) if isinstance(d["spacing"], list) else d["spacing"]
            ctx.explored += 1
            with warnings.catch_warnings():
                warnings.simplefilter("ignore")
                bg = load_average(paths, spacing=sp, channel=[0, 1, 2] if d.get("colour") else None)
                try:
                    p = os.path.join(tmp, "bg" + d.get("ext", ".h5"))
                    hp.save(p, bg)
                    hp.load(p)
                    print("replay: averaged image saved and reloaded")
                except Exception as e:  # noqa
                    print("replay: save/load of the average raises %s: %s" % (type(e).__name__, e))
                    ctx.violation(data["key"], data["what"], d)
        else:
            print("replay: re-running the whole check with the recorded seed")
            ctx.seed = data.get("seed", ctx.seed)
            run(ctx)
    finally:
        shutil.rmtree(tmp, ignore_errors=True)

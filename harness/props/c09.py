"""C09 - sphere clusters: default-theory rule (exact), solver coordinates, order independence and
axial-rotation covariance of the multi-sphere solution (explored), one-sphere cluster = Mie."""
import itertools
import math
import shutil
import warnings
from fractions import Fraction

from harness.lib import boot
from harness.lib.coqrun import qlit, zlit, blit, listlit, run_mismatch_cases
from harness.lib.ctx import guarded

REQ = "From HV Require Import Common.Generic Common.Cmp C09.Model.\nOpen Scope Q_scope.\n"


def dy(rng, lo, hi, bits=5):
    s = 1 << bits
    return rng.randint(int(lo * s), int(hi * s)) / s


def vlit(v):
    return "(%s, %s, %s)" % tuple(qlit(x) for x in v)


def mlit(m):
    c, r = m
    cl = "None" if c is None else "(Some %s)" % vlit(c)
    if r is None:
        rl = "None"
    elif isinstance(r, (list, tuple)):
        rl = "(Some %s)" % listlit([qlit(x) for x in r])
    else:
        rl = "(Some [%s])" % qlit(r)
    return "{| m_center := %s; m_radius := %s |}" % (cl, rl)


OUT = {"Mie": "Use Mie", "Multisphere": "Use Multisphere", "Tmatrix": "Use Tmatrix", "DDA": "Use DDA",
       "InvalidScatterer": "ErrInvalidScatterer", "AutoTheoryFailed": "ErrAutoTheoryFailed"}
OUTCOME_EQB = ("Definition out_eqb (a b : outcome) : bool := match a, b with "
               "Use Mie, Use Mie | Use Multisphere, Use Multisphere | Use Tmatrix, Use Tmatrix | Use DDA, Use DDA "
               "| ErrInvalidScatterer, ErrInvalidScatterer | ErrAutoTheoryFailed, ErrAutoTheoryFailed => true | _, _ => false end.\n")

DIRS = [((3, 4, 0), 5), ((0, 3, 4), 5), ((4, 0, 3), 5), ((1, 2, 2), 3), ((2, 3, 6), 7), ((1, 0, 0), 1), ((0, 0, 1), 1)]


def gen_members(rng):
    """cluster description: list of (centre|None, radius|[radii]|None)"""
    mode = rng.random()
    n = rng.choice([1, 2, 2, 3, 4, 5, 6])
    ms = []
    if mode < 0.45:
        # boundary family: put the two extreme spheres exactly 30*rmax apart (or a hair more / less)
        rmax = rng.choice([0.25, 0.5, 1.0, 0.125, 0.75])
        d, nrm = rng.choice(DIRS)
        sg = [rng.choice([-1, 1]) for _ in range(3)]
        # separation 30*rmax along d/nrm: coordinates 30*rmax*d/nrm must be dyadic: 30/5=6, 30/3=10, 30/1=30; 7 not
        if 30 % nrm:
            d, nrm = (3, 4, 0), 5
        L = 30 * rmax / nrm
        c0 = [dy(rng, -2, 2) for _ in range(3)]
        c1 = [c0[i] + sg[i] * d[i] * L for i in range(3)]
        tweak = rng.choice([0.0, 0.0, 2.0 ** -12, -2.0 ** -12, 2.0 ** -20, -2.0 ** -20])
        ax = rng.choice([i for i in range(3) if d[i] != 0])
        c1[ax] += sg[ax] * tweak
        ms = [(c0, rmax), (c1, dy(rng, 0.03125, rmax) if rng.random() < 0.7 else rmax)]
        for _ in range(max(0, n - 2)):
            t = rng.random()
            ms.append(([c0[i] + t * (c1[i] - c0[i]) for i in range(3)], dy(rng, 0.03125, rmax)))
            ms[-1] = ([round(x * 1024) / 1024 for x in ms[-1][0]], ms[-1][1])
        rng.shuffle(ms)
    else:
        spread = rng.choice([2, 8, 30, 80])
        for _ in range(n):
            ms.append(([dy(rng, -spread, spread) for _ in range(3)], dy(rng, 0.125, 2)))
    # malformed / special streams
    q = rng.random()
    if q < 0.12:
        i = rng.randrange(len(ms))
        ms[i] = (None, ms[i][1])
    elif q < 0.2:
        i = rng.randrange(len(ms))
        ms[i] = (ms[i][0], None)
    elif q < 0.35:
        i = rng.randrange(len(ms))
        r = ms[i][1]
        ms[i] = (ms[i][0], [r / 2, r])
    return ms


def build_spheres(ms):
    from holopy.scattering import Sphere, Spheres
    objs = []
    for c, r in ms:
        if isinstance(r, list):
            objs.append(Sphere(n=[1.5, 1.4], r=list(r), center=None if c is None else tuple(c)))
        else:
            objs.append(Sphere(n=1.5, r=r, center=None if c is None else tuple(c)))
    with warnings.catch_warnings():
        warnings.simplefilter("ignore")
        return Spheres(objs, warn=False)


def observe(obj):
    from holopy.scattering.interface import determine_default_theory_for
    from holopy.scattering.errors import InvalidScatterer, AutoTheoryFailed
    from holopy.core.errors import DependencyMissing
    with warnings.catch_warnings():
        warnings.simplefilter("ignore")
        try:
            th = determine_default_theory_for(obj)
            return type(th).__name__
        except InvalidScatterer:
            return "InvalidScatterer"
        except AutoTheoryFailed:
            return "AutoTheoryFailed"
        except DependencyMissing as e:
            return "DDA" if "adda" in str(e).lower() else "DependencyMissing:" + str(e)[:40]


def stage_rule(ctx):
    from holopy.scattering import Sphere, Spheres, Spheroid, Cylinder, Ellipsoid, Scatterers
    from holopy.scattering.scatterer import Capsule, Bisphere, JanusSphere_Uniform
    from holopy.scattering.scatterer.csg import Union
    rng = ctx.subrng("rule")
    exprs, metas = [], []
    adda_present = shutil.which("adda") is not None
    if adda_present:
        ctx.notes.append("adda is installed: DDA() constructs; outcome compared by class name")
    for k in range(ctx.n(300, 5000)):
        ms = gen_members(rng)
        obj = build_spheres(ms)
        got = observe(obj)
        e = "out_eqb (default_theory QO (SSpheres %s)) (%s)" % (listlit([mlit(m) for m in ms]), OUT.get(got, "ErrAutoTheoryFailed"))
        if got not in OUT:
            ctx.violation("rule:unexpected-outcome", "determine_default_theory_for raised/returned %s" % got,
                          dict(kind="rule", members=ms, got=got))
            continue
        exprs.append(e)
        metas.append(dict(members=ms, impl=got))
        ctx.count("cluster:%d" % len(ms))
        ctx.count("outcome:" + got)
        ctx.nontriv(("rule", len(ms), got, any(m[0] is None or m[1] is None for m in ms), any(isinstance(m[1], list) for m in ms)))
        if k < 3:
            ctx.sample(dict(members=ms, default_theory=got))
    # other kinds
    others = [
        ("SSphere", lambda: Sphere(n=1.5, r=0.5, center=(0, 0, 1))),
        ("SSphere", lambda: Sphere(n=[1.5, 1.4], r=[0.3, 0.5], center=(0, 0, 1))),
        ("SSphere", lambda: Sphere(n=1.5, r=0.5)),
        ("SSpheroid", lambda: Spheroid(n=1.5, r=(0.3, 0.5), center=(0, 0, 1))),
        ("SCylinder", lambda: Cylinder(n=1.5, d=0.5, h=1.0, center=(0, 0, 1))),
        ("SOtherScatterer", lambda: Ellipsoid(n=1.5, r=(0.3, 0.4, 0.5), center=(0, 0, 1))),
        ("SOtherScatterer", lambda: Capsule(n=1.5, h=1.0, d=0.5, center=(0, 0, 1))),
        ("SOtherScatterer", lambda: Bisphere(n=1.5, h=1.0, d=0.5, center=(0, 0, 1))),
        ("SOtherScatterer", lambda: JanusSphere_Uniform(n=[1.5, 1.3], r=[0.3, 0.5], rotation=(0, 0.2), center=(0, 0, 1))),
        ("SOtherScatterer", lambda: Union(Sphere(n=1.5, r=0.5, center=(0, 0, 1)), Sphere(n=1.5, r=0.5, center=(0.3, 0, 1)))),
        ("SOtherScatterer", lambda: Scatterers([Sphere(n=1.5, r=0.5, center=(0, 0, 1)), Spheroid(n=1.5, r=(0.3, 0.5), center=(2, 0, 1))])),
        ("SNotScatterer", lambda: object()), ("SNotScatterer", lambda: 5), ("SNotScatterer", lambda: "sphere"),
        ("SNotScatterer", lambda: None), ("SNotScatterer", lambda: [Sphere(n=1.5, r=0.5, center=(0, 0, 1))]),
    ]
    for kind, mk in others:
        obj = mk()
        got = observe(obj)
        if got not in OUT:
            ctx.violation("rule:unexpected-outcome", "determine_default_theory_for(%s) gave %s" % (type(obj).__name__, got),
                          dict(kind="rule-other", obj=repr(obj)[:200], got=got))
            continue
        exprs.append("out_eqb (default_theory QO (@%s Q)) (%s)" % (kind, OUT[got]))
        metas.append(dict(kind_of=kind, obj=repr(obj)[:200], impl=got))
        ctx.nontriv(("other", type(obj).__name__))
        ctx.count("kind:" + kind)
    mism, errors, _ = run_mismatch_cases("C09r", REQ, exprs, defs=OUTCOME_EQB)
    ctx.corr_cases += len(exprs)
    for e in errors:
        ctx.violation("corr-eval-error", "model evaluation failed: " + e[:300], dict(kind="coq-error", log=e), nofail=True)
    for i in mism:
        ctx.disagree("corr:default-theory", "default theory differs from the documented rule (model): impl=%s" % metas[i]["impl"],
                     dict(kind="corr-rule", **metas[i]))


def stage_interpret(ctx):
    """'auto' = naming the default theory explicitly: identical results (bit-equal)"""
    import numpy as np
    from holopy.scattering import Sphere, Spheres, Spheroid, calc_holo, calc_field, Mie, Multisphere, Tmatrix
    from holopy.scattering.interface import interpret_theory, determine_default_theory_for
    from holopy.core.metadata import detector_grid
    rng = ctx.subrng("interp")
    det = detector_grid(shape=(4, 3), spacing=0.25)
    kw = dict(medium_index=1.33, illum_wavelen=0.66, illum_polarization=(1, 0))
    for k in range(ctx.n(10, 60)):
        kind = rng.choice(["sphere", "close", "far", "layered", "spheroid", "single-cluster"])
        z = dy(rng, 6, 12)
        if kind == "sphere":
            s = Sphere(n=1.59, r=dy(rng, 0.25, 0.75), center=(dy(rng, 0, 1), dy(rng, 0, 1), z))
        elif kind == "close":
            s = Spheres([Sphere(n=1.59, r=0.5, center=(0.2, 0.3, z)), Sphere(n=1.5, r=0.4, center=(1.4, 0.3, z + 0.5))], warn=False)
        elif kind == "far":
            s = Spheres([Sphere(n=1.59, r=0.25, center=(0.2, 0.3, z)), Sphere(n=1.5, r=0.25, center=(0.2, 0.3, z + 9))], warn=False)
        elif kind == "layered":
            s = Spheres([Sphere(n=[1.59, 1.4], r=[0.3, 0.5], center=(0.2, 0.3, z)), Sphere(n=1.5, r=0.4, center=(1.6, 0.3, z))], warn=False)
        elif kind == "single-cluster":
            s = Spheres([Sphere(n=1.59, r=0.5, center=(0.2, 0.3, z))], warn=False)
        else:
            s = Spheroid(n=1.5, r=(0.3, 0.5), rotation=(0, 0.3, 0.2), center=(0.3, 0.2, z))
        with warnings.catch_warnings():
            warnings.simplefilter("ignore")
            th = determine_default_theory_for(s)
            a = calc_holo(det, s, theory="auto", **kw).values
            b = calc_holo(det, s, theory=type(th)(), **kw).values
            c = calc_holo(det, s, theory=type(th), **kw).values      # a class is instantiated
            d = calc_holo(det, s, **kw).values                       # default argument is 'auto'
        ctx.explored += 1
        ctx.count("auto:" + type(th).__name__)
        ctx.nontriv(("auto", kind))
        if not (np.array_equal(a, b) and np.array_equal(a, c) and np.array_equal(a, d)) or not np.isfinite(a).all():
            ctx.violation("auto-vs-explicit:" + type(th).__name__,
                          "calc_holo(theory='auto') differs from naming the default theory %s" % type(th).__name__,
                          dict(kind="auto", scatterer=repr(s)[:300], maxdiff=float(np.abs(a - b).max())))
        # a named theory is used as given
        t = Mie()
        if interpret_theory(s, t) is not t:
            ctx.violation("interpret:named", "interpret_theory does not return the named theory", dict(kind="interp"))


def stage_centers(ctx):
    """what _scsmfo_setup hands to the solver (observed by wrapping the injected extension's amncalc
    from outside) vs the model's centroid-centred, k-scaled, z-flipped coordinates"""
    import numpy as np
    import holopy.scattering.theory.multisphere as msmod
    from holopy.scattering import Sphere, Spheres, Multisphere, calc_field
    from holopy.scattering.errors import MultisphereFailure, InvalidScatterer
    from holopy.core.metadata import detector_grid
    rng = ctx.subrng("centers")
    rec = {}
    orig = msmod.scsmfo_min.amncalc

    def wrapper(*a, **k):
        rec["args"] = a
        return orig(*a, **k)

    class Proxy:
        def __getattr__(self, name):
            return wrapper if name == "amncalc" else getattr(orig_mod, name)
    orig_mod = msmod.scsmfo_min
    msmod.scsmfo_min = Proxy()
    exprs, metas = [], []
    try:
        det = detector_grid(shape=(2, 2), spacing=0.5)
        for k in range(ctx.n(25, 250)):
            n = rng.choice([1, 2, 3, 4, 5])
            cs = [[dy(rng, -2, 2), dy(rng, -2, 2), dy(rng, 5, 9)] for _ in range(n)]
            rs = [dy(rng, 0.125, 0.5) for _ in range(n)]
            lam, nm = rng.choice([(0.5, 1.0), (0.66, 1.33), (1.0, 1.5)])
            s = Spheres([Sphere(n=1.5, r=r, center=tuple(c)) for c, r in zip(cs, rs)], warn=False)
            rec.clear()
            try:
                calc_field(det, s, medium_index=nm, illum_wavelen=lam, illum_polarization=(1, 0), theory=Multisphere())
            except (MultisphereFailure, InvalidScatterer):
                ctx.count("centers:solver-refused")  # overlapping random spheres: the hand-off was still recorded
            if "args" not in rec:
                continue
            a = rec["args"]
            xs, ys, zs, kr = [np.asarray(v, float) for v in (a[1], a[2], a[3], a[6])]
            kk = 2 * math.pi / (lam / nm)
            flat = [float(v) for trip in zip(xs, ys, zs) for v in trip]
            e = ("qlist_close (1 # 100000000000) (flat_map (fun v : vec Q => let '(a,b,c) := v in [a;b;c]) "
                 "(scsmfo_centers QO %s %s)) %s" % (qlit(kk), listlit([vlit(c) for c in cs]), listlit([qlit(v) for v in flat])))
            exprs.append(e)
            metas.append(dict(centers=cs, k=kk, impl=flat))
            # size parameters handed over = k r (hand-off, shared with C04)
            if not np.allclose(kr, kk * np.array(rs), rtol=1e-13, atol=0):
                ctx.violation("centers:size-parameter", "size parameters handed to the solver are not k*r",
                              dict(kind="centers", rs=rs, k=kk, got=kr.tolist()))
            ctx.count("centers:%d" % n)
            if n > 1:
                ctx.nontriv(("centers", k))
    finally:
        msmod.scsmfo_min = orig_mod
    mism, errors, _ = run_mismatch_cases("C09c", REQ, exprs)
    ctx.corr_cases += len(exprs)
    for e in errors:
        ctx.violation("corr-eval-error", "model evaluation failed: " + e[:300], dict(kind="coq-error", log=e), nofail=True)
    for i in mism:
        ctx.disagree("corr:solver-centers", "coordinates handed to the cluster solver differ from centroid-centred k*(c - mean), z flipped",
                     dict(kind="corr-centers", **metas[i]))


def _cluster(rng, n):
    """non-overlapping cluster inside the solver's validity range"""
    ms = []
    tries = 0
    while len(ms) < n and tries < 1000:
        tries += 1
        c = [dy(rng, -1.5, 1.5), dy(rng, -1.5, 1.5), dy(rng, 6, 9)]
        r = dy(rng, 0.125, 0.5)
        if all(math.dist(c, c2) > r + r2 + 0.05 for c2, r2, _ in ms):
            ms.append((c, r, rng.choice([1.45, 1.59, 1.7, 1.59 + 0.01j])))
    return ms


def stage_stacked(ctx):
    """three or more almost touching spheres of clearly different radii stacked along the optical axis - generated on purpose:
    this is the corner of the recorded finding `multisphere:order:stacked-mixed` (the field depends on the listing order).
    Equal-size stacks and size-mismatched PAIRS agree to rounding on the unchanged tree and are held to that."""
    import numpy as np
    from holopy.scattering import Sphere, Spheres, Multisphere, calc_field
    from holopy.core.metadata import detector_points
    rng = ctx.subrng("stacked")
    kw = dict(medium_index=1.33, illum_wavelen=0.66, illum_polarization=(1, 0))
    for k in range(ctx.n(3, 12)):
        kind = ["mixed", "equal", "mixed"][k % 3]
        radii = [0.3, 0.5, 0.8] if kind == "mixed" else [0.5, 0.5, 0.5]
        if k:
            rng.shuffle(radii)          # case 0 is the recorded configuration itself
        z, members = 5.0, []
        for i, r in enumerate(radii):
            if i:
                z += (radii[i - 1] + r) * 1.0625
            members.append(([0.125 * (i % 2), 0.0625 * i, z], r, [1.59, 1.45, 1.59][i] if k == 0 else rng.choice([1.45, 1.59])))
        pts = np.array([[dy(rng, -3, 3), dy(rng, -3, 3)] for _ in range(6)])
        det = detector_points(x=pts[:, 0], y=pts[:, 1], z=0.0)
        th = Multisphere(eps=1e-10, qeps1=1e-10, qeps2=1e-12)
        base, worst, failed = None, 0.0, 0
        with warnings.catch_warnings():
            warnings.simplefilter("ignore")
            for p in itertools.permutations(range(3)):
                try:
                    f = calc_field(det, Spheres([Sphere(n=members[i][2], r=members[i][1], center=tuple(members[i][0])) for i in p],
                                                warn=False), theory=th, **kw).values
                except Exception as e:  # noqa
                    if type(e).__name__ != "MultisphereFailure":
                        raise
                    failed += 1
                    continue
                if base is None:
                    base = f
                worst = max(worst, float(np.abs(f - base).max() / np.abs(base).max()))
        ctx.explored += 1
        ctx.count("stacked:%s" % kind)
        ctx.nontriv(("stacked", kind, k))
        meta = dict(kind="solver-stacked", members=members, rel_err=worst, refused_orders=failed)
        if kind == "equal":
            if worst > 1e-9 or failed:
                ctx.violation("multisphere:order:stacked-equal", "a stack of equal spheres: the field depends on the listing order (%.2e) or some "
                              "orders are refused (%d)" % (worst, failed), meta)
        elif worst > 2e-2 or failed:
            ctx.violation("multisphere:order:stacked-mixed", "three almost touching spheres of radii 0.3 / 0.5 / 0.8 stacked along the optical "
                          "axis: the field depends on the listing order (%.2e relative; %d orders refused)" % (worst, failed), meta)


def stage_solver(ctx):
    """exploration (not proof): multi-sphere solution vs order of the spheres, rotation about the optical axis,
    one-sphere cluster vs Mie; both interaction-equation solvers"""
    import numpy as np
    from holopy.scattering import Sphere, Spheres, Multisphere, Mie, calc_field, calc_holo
    from holopy.core.metadata import detector_points, detector_grid
    rng = ctx.subrng("solver")
    kw = dict(medium_index=1.33, illum_wavelen=0.66)
    # The spread between orderings is set by the solver's own truncation tolerances (measured over 800 thorough cases:
    # up to 5.4e-3 at the defaults qeps1=1e-5, up to 1.8e-3 at qeps1=1e-10), so both settings are explored, each against its own accuracy.
    SETTINGS = {"default": (dict(), 5e-2), "tight": (dict(eps=1e-10, qeps1=1e-10, qeps2=1e-12), 2e-2)}
    worst = {}
    for k in range(ctx.n(14, 150)):
        n = rng.choice([1, 2, 3, 3, 4, 5, 6])
        ms = _cluster(rng, n)
        if k % 4 == 1:
            # a small and a large sphere almost touching, stacked along the optical axis (strong coupling, very different
            # expansion orders), the SMALL one listed first
            r1, r2 = rng.choice([0.25, 0.3, 0.35]), rng.choice([0.7, 0.8, 0.9])
            c1 = [dy(rng, -1, 1), dy(rng, -1, 1), dy(rng, 5, 8)]
            c2 = [c1[0] + rng.choice([0.0, 0.125]), c1[1], c1[2] + (r1 + r2) * rng.choice([1.0625, 1.125])]
            ms = [(c1, r1, rng.choice([1.5, 1.59])), (c2, r2, rng.choice([1.45, 1.59]))]
        meth = rng.choice([0, 1])
        setting = rng.choice(["default", "tight", "tight"])
        opts, PERM_TOL = SETTINGS[setting]
        th = Multisphere(meth=meth, **opts)
        pts = np.array([[dy(rng, -3, 3), dy(rng, -3, 3)] for _ in range(6)])
        det = detector_points(x=pts[:, 0], y=pts[:, 1], z=0.0)
        pol = (1, 0) if rng.random() < 0.5 else (math.cos(0.7), math.sin(0.7))

        def mk(members):
            return Spheres([Sphere(n=nn, r=r, center=tuple(c)) for c, r, nn in members], warn=False)
        with warnings.catch_warnings():
            warnings.simplefilter("ignore")
            base = calc_field(det, mk(ms), theory=th, illum_polarization=pol, **kw).values
            scale = float(np.abs(base).max())
            ctx.explored += 1
            ctx.count("solver:n=%d:meth=%d" % (len(ms), meth))
            if not np.isfinite(base).all():
                ctx.violation("multisphere:nonfinite", "Multisphere returned non-finite fields", dict(kind="solver", members=ms))
                continue
            # order independence
            perms = list(itertools.permutations(range(len(ms)))) if len(ms) <= 3 else \
                [rng.sample(range(len(ms)), len(ms)) for _ in range(3)]
            for p in perms[1:] if len(ms) <= 3 else perms:
                f = calc_field(det, mk([ms[i] for i in p]), theory=th, illum_polarization=pol, **kw).values
                err = float(np.abs(f - base).max()) / scale
                worst["perm:" + setting] = max(worst.get("perm:" + setting, 0), err)
                ctx.explored += 1
                if len(ms) > 1:
                    ctx.nontriv(("perm", k, tuple(p)))
                if err > PERM_TOL:
                    ctx.violation("multisphere:order", "multi-sphere field depends on the order of the spheres (rel %.2e)" % err,
                                  dict(kind="solver-perm", members=ms, perm=list(p), meth=meth, rel_err=err))
            # rotation about the optical axis: configuration, polarization and detector points rotated together
            al = rng.uniform(0, 2 * math.pi)
            ca, sa = math.cos(al), math.sin(al)
            rot = lambda x, y: (ca * x - sa * y, sa * x + ca * y)
            ms_r = [([*rot(c[0], c[1]), c[2]], r, nn) for c, r, nn in ms]
            pr = np.array([rot(x, y) for x, y in pts])
            det_r = detector_points(x=pr[:, 0], y=pr[:, 1], z=0.0)
            pol_r = rot(pol[0], pol[1])
            h0 = calc_holo(det, mk(ms), theory=th, illum_polarization=pol, **kw).values
            h1 = calc_holo(det_r, mk(ms_r), theory=th, illum_polarization=pol_r, **kw).values
            err = float(np.abs(h1 - h0).max())
            worst["rot:" + setting] = max(worst.get("rot:" + setting, 0), err)
            ctx.explored += 1
            ctx.nontriv(("rot", k))
            if err > PERM_TOL:
                ctx.violation("multisphere:rotation", "multi-sphere hologram not covariant under rotation about the optical axis (%.2e)" % err,
                              dict(kind="solver-rot", members=ms, alpha=al, meth=meth, err=err))
            # one-sphere cluster = single sphere
            if len(ms) == 1:
                c, r, nn = ms[0]
                # the cluster solver has no radial component but the full radial dependence: Mie(False, True)
                fm = calc_field(det, Sphere(n=nn, r=r, center=tuple(c)), theory=Mie(False, True), illum_polarization=pol, **kw).values
                f1 = calc_field(det, Sphere(n=nn, r=r, center=tuple(c)), theory=th, illum_polarization=pol, **kw).values
                err = float(np.abs(fm - base).max()) / scale
                err2 = float(np.abs(f1 - base).max()) / scale
                worst["one-sphere"] = max(worst.get("one-sphere", 0), err)
                ctx.explored += 1
                if err > 1e-3 or err2 > 1e-12:
                    ctx.violation("multisphere:one-sphere", "one-sphere cluster differs from the single-sphere solution (rel %.2e / %.2e)" % (err, err2),
                                  dict(kind="solver-one", member=ms[0], rel_err=err, meth=meth))
    ctx.notes.append("worst observed deviations (exploration): " + ", ".join("%s=%.2e" % kv for kv in sorted(worst.items())))


MULTI_PY = "holopy/scattering/theory/multisphere.py"


def _src_items():
    from harness.lib import pyarr
    return [
        dict(file=MULTI_PY, qualname="(header)", name="asum", fn=lambda repo: pyarr.HEADER),
        dict(file=MULTI_PY, qualname="Multisphere._scsmfo_setup (centers, m)", name="kcentre_src",
             fn=lambda repo: pyarr.translate_elementwise(
                 repo, MULTI_PY, "Multisphere._scsmfo_setup", "kcentre_src",
                 [("scatterer.centers", "R"), ("scatterer.n", "R")], [("medium_wavevec", "R"), ("medium_index", "R")], ["centers", "m"],
                 ["scatterer", "medium_wavevec", "medium_index"], only_outputs=True)),
    ]


def stage_srctie(ctx):
    from harness.lib import srctie
    ok = srctie.run(ctx, "C09", "From Coq Require Import Lia Psatz.\nFrom HV Require Import C09.Model C09.Lemmas C09.Props.\n",
                    _src_items())
    ctx.count("srctie:%s" % ("ok" if ok else "broken"))


def run(ctx):
    ctx.rule = ("clusters of 1-6 spheres: 45% on/around the exact 30-radius boundary (Pythagorean geometry, +-2^-12, +-2^-20), random spreads, "
                "unset centre/radius and layered members; every other scatterer kind and non-scatterers; non-trivial = distinct "
                "(size, outcome, malformed?, layered?) classes, clusters with >1 member for centring/permutation")
    ctx.clauses_proved = ["default-theory rule clause by clause", "30-radius test = all pairs within (30 r_max)^2; sqrt form equivalent",
                          "rule invariant under permutation and under rotation about z + shift", "'auto' = naming the default",
                          "solver coordinates: centroid-centred; shift invariant; permutation/rotation covariant", "Q instance = R instance"]
    ctx.clauses_explored = ["multi-sphere field independent of sphere order (tolerance 5e-2 at default truncation, 2e-2 at tight truncation: iterative, truncated solver)",
                            "multi-sphere hologram covariant under axial rotation", "one-sphere cluster = Lorenz-Mie (far-field option, 1e-3)",
                            "'auto' result bit-equal to the explicitly named theory"]
    ctx.trusted.append("oracle: SCSMFO Fortran solver (amncalc/tmatrix_fields); numpy sqrt in np.linalg.norm")
    ctx.clauses_proved.append(
        "source tie: the set-up expressions of Multisphere._scsmfo_setup (centers = (centers - centers.mean(0)) * k, m = n / n_m), "
        "read per coordinate column from the current source text on every run, are proved to be the coordinates of the model's "
        "centroid-relative k-scaled centres for every cluster; shift invariance restated for the translated source")
    ctx.trusted.append("translator harness/lib/pyarr.py (an N x 3 array read as one generic coordinate column; .mean(0) a list fold / "
                       "length; the guards and loops that precede the two assignments are not read)")
    guarded(ctx, "prove", ctx.prove)
    guarded(ctx, "source-tie", stage_srctie, ctx)
    boot.boot()
    guarded(ctx, "rule", stage_rule, ctx)
    guarded(ctx, "interpret", stage_interpret, ctx)
    guarded(ctx, "centers", stage_centers, ctx)
    guarded(ctx, "solver", stage_solver, ctx)
    guarded(ctx, "stacked", stage_stacked, ctx)


def replay(ctx, data):
    d = data["data"]
    if d.get("kind") == "tie":
        ctx.prove()
        stage_srctie(ctx)
        return
    boot.boot()
    if d.get("kind") == "corr-rule" and "members" in d:
        ms = [(m[0], m[1]) for m in d["members"]]
        got = observe(build_spheres(ms))
        print("replay: determine_default_theory_for ->", got, "(recorded %s)" % d.get("impl"))
        e = "out_eqb (default_theory QO (SSpheres %s)) (%s)" % (listlit([mlit(m) for m in ms]), OUT.get(got, "ErrAutoTheoryFailed"))
        mism, errors, _ = run_mismatch_cases("C09replay", REQ, [e], defs=OUTCOME_EQB)
        ctx.corr_cases += 1
        if mism or errors:
            ctx.disagree(data["key"], data["what"], d)
    else:
        ctx.seed = data.get("seed", ctx.seed)
        run(ctx)

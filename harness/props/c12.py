"""C12 - posterior = prior x Gaussian likelihood: proof obligations + correspondence of
lnprior / find_noise / find_optics / lnlike / lnposterior / LnpostWrapper (value AND forward-call
counter) against the Q instance of coq/C12/Model.v evaluated in coqc, + direct exploration of
the property's own predicates on the implementation.

Oracle leaves handed to the Coq model: python's math.log / math.sqrt / math.pi at the arguments the
model asks for (a lookup table; the arguments themselves are formed inside Coq), the forward
hologram (ExactModel: what the counting synthetic calc_func returned; AlphaModel: what the PUBLIC
calc_holo returns for the substituted scatterer/theory/optics/alpha), Spheres.largest_overlap()
(C20) and the pixel selection drawn by numpy's RNG."""
import copy
import math
import warnings

from harness.lib import boot
from harness.lib.coqrun import qlit, zlit, blit, listlit, run_mismatch_cases
from harness.lib.ctx import guarded

REQ = "From HV Require Import Common.Generic Common.Cmp C12.Model.\nOpen Scope Q_scope.\n"
TOL = "(1 # 10000000000)"          # 1e-10 relative (values >= 1) / absolute (values < 1); observed rounding between 1e-15 and 1e-14 (no mismatch at 1e-14, some at 1e-15)
DEFS = """
Definition relclose (tol x k : Q) : bool := Qle_bool (Qabs' (x - k)) (tol * Qabs' k).
(* oracle table: value of the python primitive at the (float) argument nearest to the requested one *)
Definition tab (t : list (Q * Q)) (x : Q) : Q :=
  match find (fun kv => relclose (1 # 1000000000000) x (fst kv)) t with
  | Some kv => snd kv | None => (1000000000000000000000000000000 # 1) end.
Definition ext_close (a b : option Q) : bool :=
  match a, b with None, None => true | Some x, Some y => qclose %s x y | _, _ => false end.
Definition nv_eqb (a b : noise_val Q) : bool :=
  match a, b with NScalar x, NScalar y => Qeq_bool x y | NArray x, NArray y => qlist_eqb x y | _, _ => false end.
Definition ov_eqb (a b : oval Q) : bool :=
  match a, b with OS x, OS y => Qeq_bool x y | OV x1 x2, OV y1 y2 => Qeq_bool x1 y1 && Qeq_bool x2 y2 | _, _ => false end.
Definition op_eqb (a b : optics Q) : bool :=
  ov_eqb (o_index a) (o_index b) && ov_eqb (o_wavelen a) (o_wavelen b) && ov_eqb (o_pol a) (o_pol b).
(* implementation outcome: IVal v | IErr kind  (0 = MissingParameter, 1 = InvalidScatterer) *)
Inductive impl (A : Type) := IVal (a : A) | IErr (k : Z).
Arguments IVal {A}. Arguments IErr {A}.
Definition err_kind (e : err) : Z := match e with InvalidScattererErr => 1 | _ => 0 end.
Definition res_agree {A} (eqb : A -> A -> bool) (m : res A) (i : impl A) : bool :=
  match m, i with Ok a, IVal b => eqb a b | Err e, IErr k => Z.eqb (err_kind e) k | _, _ => false end.
Definition run_agree (m : res (option Q) * Z) (i : impl (option Q)) (calls : Z) : bool :=
  res_agree ext_close (fst m) i && Z.eqb (snd m) calls.
Definition wext_close (a b : wext Q) : bool :=
  match a, b with WNegInf, WNegInf => true | WPosInf, WPosInf => true | WFin x, WFin y => qclose %s x y | _, _ => false end.
Definition wrun_agree (m : res (wext Q) * Z) (i : impl (wext Q)) (calls : Z) : bool :=
  res_agree wext_close (fst m) i && Z.eqb (snd m) calls.
""" % (TOL, TOL)

OPT_KEYS = ["medium_index", "illum_wavelen", "illum_polarization"]


# ---------------------------------------------------------------------------------------------
# case descriptions (JSON-able) -> generators

def dy(rng, lo, hi, bits=6):
    s = 1 << bits
    return rng.randint(int(math.ceil(lo * s)), int(math.floor(hi * s))) / s


def gen_prior(rng, lo, hi, allow_improper=True):
    """a prior whose bulk lies in [lo, hi]"""
    k = rng.random()
    mid, half = (lo + hi) / 2, (hi - lo) / 2
    if k < 0.4:
        return ["U", lo, hi]
    if k < 0.5 and allow_improper:
        return rng.choice([["U", lo, None], ["U", None, hi], ["U", None, None]])
    if k < 0.7:
        return ["G", mid, rng.choice([0.25, 0.5, 1.0]) * half]
    b = rng.random()
    sd = rng.choice([0.5, 1.0, 2.0]) * half
    if b < 0.6:
        return ["BG", mid, sd, lo, hi]
    if b < 0.8:
        return ["BG", mid, sd, lo, None]
    return ["BG", mid, sd, None, hi]


def pick_value(rng, pr, mode):
    """mode: 'in' (inside support), 'out' (outside when the support is bounded), 'edge' (exactly on a bound)"""
    if pr[0] == "G":
        return pr[1] + pr[2] * rng.uniform(-2, 2)
    lo, hi = (pr[1], pr[2]) if pr[0] == "U" else (pr[3], pr[4])
    if pr[0] == "BG":
        c, w = pr[1], pr[2]
    else:
        a = lo if lo is not None else (hi - 2.0 if hi is not None else -1.0)
        b = hi if hi is not None else a + 2.0
        c, w = (a + b) / 2, (b - a) / 2
    a = lo if lo is not None else c - 1.5 * w
    b = hi if hi is not None else c + 1.5 * w
    if mode == "edge":
        cands = [x for x in (lo, hi) if x is not None]
        if cands:
            return rng.choice(cands)
    if mode == "out":
        cands = []
        if lo is not None:
            cands += [lo - rng.choice([2.0 ** -30, 0.125, 1.0]) * max(1.0, abs(lo)) * rng.choice([1, 1e-3])]
        if hi is not None:
            cands += [hi + rng.choice([2.0 ** -30, 0.125, 1.0]) * max(1.0, abs(hi)) * rng.choice([1, 1e-3])]
        if cands:
            return rng.choice(cands)
    return rng.uniform(a, b)


def gen_case(rng, kind):
    """kind: 'exact' (synthetic counting calc_func, Sphere or Spheres, constraints) | 'alpha' (real Mie)"""
    d = dict(kind=kind, priors={}, fail=None)
    npri = [0]

    def new_prior(pr):
        pid = "p%d" % npri[0]
        npri[0] += 1
        d["priors"][pid] = pr
        return pid

    def site(lo, hi, p_prior=0.5, xform=False, improper=True):
        if rng.random() < p_prior:
            pid = new_prior(gen_prior(rng, lo, hi, improper))
            if xform and rng.random() < 0.25:
                return ["x", pid, rng.choice([0.5, 2.0])]   # transformed prior (only on centres)
            return ["p", pid]
        return ["c", dy(rng, lo, hi)]

    nx, ny = rng.choice([(3, 4), (4, 4), (5, 3), (2, 6), (6, 5)])
    d["shape"] = [nx, ny]
    d["spacing"] = rng.choice([0.125, 0.25])
    if kind == "alpha":
        nsph = 1
    else:
        nsph = rng.choice([1, 1, 2, 2, 3])
    spheres = []
    shared_r = None
    for i in range(nsph):
        if kind == "alpha":
            nsite = site(1.45, 1.65, 0.5, improper=False)
            if rng.random() < 0.2:
                nsite = ["cx", nsite, site(0.0, 0.0625, 0.6, improper=False)]
            rsite = site(0.375, 0.75, 0.6, improper=False)
            cen = [site(0.0, 1.0, 0.4, improper=False), site(0.0, 1.0, 0.3, improper=False), site(6.0, 12.0, 0.5, improper=False)]
        else:
            nsite = site(1.25, 1.75, 0.4)
            if rng.random() < 0.25:
                nsite = ["cx", nsite, site(0.0, 0.125, 0.7)]
            u = rng.random()
            if shared_r is not None and u < 0.35:
                rsite = shared_r                       # tie: one prior object at two sites
            elif u < 0.55:
                rsite = ["p", new_prior(["U", -0.5, 1.0])]     # support reaches negative radii
            elif u < 0.65:
                rsite = ["p", new_prior(["G", 0.25, 0.5])]
            else:
                rsite = site(0.25, 1.0, 0.5)
            if rsite[0] == "p" and shared_r is None:
                shared_r = rsite
            cen = [site(1.5 * i, 1.5 * i + 1.5, 0.5, xform=True), site(0.0, 1.0, 0.2, xform=True), site(4.0, 6.0, 0.3, xform=True)]
        spheres.append(dict(n=nsite, r=rsite, center=cen))
    d["spheres"] = spheres
    d["single"] = nsph == 1 and (kind == "alpha" or rng.random() < 0.7)
    d["fraction"] = None
    if kind == "exact" and not d["single"] and rng.random() < 0.7:
        d["fraction"] = rng.choice([0.0625, 0.125, 0.25, 0.5])
    d["alpha"] = site(0.5, 1.0, 0.6, improper=False) if kind == "alpha" else None
    # a theory with its own fittable parameter (MieLens lens angle): comes between scatterer and optics priors
    d["theory"] = ["mielens", site(0.75, 1.125, 0.7, improper=False)] if (kind == "alpha" and rng.random() < 0.25) else None
    # noise of the model / of the data
    u = rng.random()
    if u < 0.35:
        d["noise"] = None
    elif u < 0.65:
        d["noise"] = ["c", rng.choice([dy(rng, 0.03125, 0.5), rng.uniform(0.01, 0.3)])]
    elif u < 0.8:
        d["noise"] = ["a", [rng.choice([dy(rng, 0.03125, 0.5), rng.uniform(0.02, 0.3)]) for _ in range(nx * ny)]]
    else:
        d["noise"] = ["p", new_prior(gen_prior(rng, 0.03125, 0.5, False))]
    u = rng.random()
    if u < 0.15:
        d["data_noise"] = "absent"
    elif u < 0.4:
        d["data_noise"] = None
    elif u < 0.8:
        d["data_noise"] = ["c", rng.uniform(0.01, 0.3)]
    else:
        d["data_noise"] = ["a", [rng.uniform(0.02, 0.3) for _ in range(nx * ny)]]
    # optics of the model / of the data
    mo, do = {}, {}
    for key in OPT_KEYS:
        val = {"medium_index": 1.33, "illum_wavelen": rng.choice([0.66, 0.405, 0.532]),
               "illum_polarization": rng.choice([[1.0, 0.0], [0.0, 1.0]])}[key]
        u = rng.random()
        if u < 0.45:
            mo[key] = ["c", val]
        elif u < 0.6 and key != "illum_polarization":
            mo[key] = ["p", new_prior(["U", val * 0.9375, val * 1.0625] if rng.random() < 0.6 else ["G", val, val / 64])]
        else:
            mo[key] = None
        val2 = {"medium_index": 1.34, "illum_wavelen": 0.633, "illum_polarization": [1.0, 0.0]}[key]
        u = rng.random()
        missing_ok = rng.random() < 0.08
        if mo[key] is None and not missing_ok:
            do[key] = val2
        else:
            do[key] = val2 if u < 0.5 else (None if u < 0.8 else "absent")
    d["optics"], d["data_optics"] = mo, do
    d["data_vals"] = [1.0 + rng.uniform(-0.25, 0.25) for _ in range(nx * ny)]
    # parameter values
    pmode = rng.random()
    vals = {}
    pids = sorted(d["priors"], key=lambda s: int(s[1:]))
    bad = rng.choice(pids) if pids else None
    for pid in pids:
        mode = "in"
        if pid == bad and pmode > 0.6:
            mode = "out" if pmode < 0.85 else "edge"
        vals[pid] = pick_value(rng, d["priors"][pid], mode)
    # overlap geometry exactly on / next to the LimitOverlaps boundary (dyadic, so the float test is exact)
    if d["fraction"] is not None and len(spheres) >= 2 and rng.random() < 0.6:
        for i, s in enumerate(spheres):
            s["center"][1] = ["c", 0.5]
            s["center"][2] = ["c", 5.0]
        r0 = dy(rng, 0.25, 1.0, 3)
        r1 = dy(rng, 0.25, 1.0, 3)
        for s, r in zip(spheres[:2], (r0, r1)):
            if s["r"][0] == "c":
                s["r"] = ["c", r]
            else:
                vals[s["r"][1]] = r
        if spheres[0]["r"] == spheres[1]["r"] and spheres[0]["r"][0] == "p":
            r0 = r1                                    # tied radii: the last assignment won
        limit = min(r0, r1) * 2 * d["fraction"]
        x0 = 0.25
        gap = (r0 + r1 - limit) + rng.choice([0.0, 2.0 ** -20, -2.0 ** -20, 0.25, -0.125])
        c0, c1 = spheres[0]["center"][0], spheres[1]["center"][0]
        spheres[0]["center"][0] = ["c", x0]
        if c1[0] == "p":
            vals[c1[1]] = x0 + gap
        else:
            spheres[1]["center"][0] = ["c", x0 + gap]
        for s in spheres[2:]:
            s["center"][0] = ["c", 40.0]
    if d["noise"] is not None and d["noise"][0] == "p" and vals[d["noise"][1]] <= 0:
        vals[d["noise"][1]] = abs(vals[d["noise"][1]]) + 0.0078125   # sd > 0 is a hypothesis of the property
    d["vals"] = vals
    u = rng.random()
    arrays = (d["noise"] and d["noise"][0] == "a") or (isinstance(d["data_noise"], list) and d["data_noise"][0] == "a")
    d["pixels"] = None if (u < 0.6 or arrays) else rng.randint(1, nx * ny - 1)
    d["seed"] = rng.randint(0, 2 ** 31 - 1)
    d["minus"] = rng.random() < 0.5
    if kind == "exact" and rng.random() < 0.08:
        d["fail"] = rng.choice(["InvalidScatterer", "MultisphereFailure"])
    d["default_calc"] = False
    _prune(d)
    return d


def _sites(d):
    for s in d["spheres"]:
        yield s["n"]
        yield s["r"]
        for c in s["center"]:
            yield c
    if d["alpha"] is not None:
        yield d["alpha"]
    if d.get("theory") is not None:
        yield d["theory"][1]
    if d["noise"] is not None and d["noise"][0] == "p":
        yield d["noise"]
    for key in OPT_KEYS:
        if d["optics"][key] is not None:
            yield d["optics"][key]


def _site_pids(site):
    if site[0] in ("p", "x"):
        return [site[1]]
    if site[0] == "cx":
        return _site_pids(site[1]) + _site_pids(site[2])
    return []


def _prune(d):
    used = set()
    for s in _sites(d):
        used.update(_site_pids(s))
    d["priors"] = {k: v for k, v in d["priors"].items() if k in used}
    d["vals"] = {k: v for k, v in d["vals"].items() if k in used}


# ---------------------------------------------------------------------------------------------
# building the real objects

class Counting:
    """calc_func of the ExactModel: counts calls, records what it was handed, returns a deterministic
    synthetic hologram that depends on every substituted quantity"""
    def __init__(self):
        self.n = 0
        self.last = None
        self.fail = None

    def __call__(self, detector, scatterer, medium_index=None, illum_wavelen=None,
                 illum_polarization=None, theory="auto"):
        import numpy as np
        self.n += 1
        self.last = dict(scatterer=scatterer, medium_index=medium_index, illum_wavelen=illum_wavelen,
                         illum_polarization=illum_polarization, theory=theory, detector=detector)
        if self.fail is not None:
            raise self.fail
        return synth(detector, scatterer, medium_index, illum_wavelen, illum_polarization)


def synth(detector, scatterer, medium_index, illum_wavelen, illum_polarization):
    import numpy as np
    r = float(np.sum(np.atleast_1d(np.asarray(scatterer.r, dtype=float))))
    nre = float(np.sum(np.real(np.atleast_1d(np.asarray(scatterer.n)))))
    pol = np.asarray(illum_polarization, dtype=float).ravel()
    out = detector.copy()
    if "flat" in detector.dims:
        x = np.asarray(detector.x.values, dtype=float)
        y = np.asarray(detector.y.values, dtype=float)
        v = 1.0 + 0.125 * r * np.sin(3.0 * x + 2.0 * y * float(medium_index)) + 0.0625 * nre * float(illum_wavelen) * (pol[0] - 0.5 * pol[1]) * np.cos(x - y)
        out.values = v.reshape(detector.shape)
    else:
        x = np.asarray(detector.x.values, dtype=float)[:, None]
        y = np.asarray(detector.y.values, dtype=float)[None, :]
        v = 1.0 + 0.125 * r * np.sin(3.0 * x + 2.0 * y * float(medium_index)) + 0.0625 * nre * float(illum_wavelen) * (pol[0] - 0.5 * pol[1]) * np.cos(x - y)
        out = out.transpose("x", "y", "z")
        out.values = v.reshape(out.shape)
        out = out.transpose(*detector.dims)
    return out


_BASE = {}


def base_data(shape, spacing):
    """an (x, y, z) hologram-shaped DataArray as calc_holo / load_image produce"""
    from holopy.core.metadata import detector_grid
    from holopy.scattering import Sphere, calc_holo
    key = (tuple(shape), spacing)
    if key not in _BASE:
        det = detector_grid(shape=tuple(shape), spacing=spacing)
        _BASE[key] = calc_holo(det, Sphere(n=1.5, r=0.5, center=(0.5, 0.5, 8.0)), 1.33, 0.66, (1, 0))
    return _BASE[key].copy()


def build(d):
    """-> dict(model, data, pobj {pid: Prior}, counter, order [pid in model._parameters order], pars [values])"""
    import numpy as np
    from holopy.core import prior
    from holopy.scattering import Sphere, Spheres
    from holopy.scattering.errors import InvalidScatterer, MultisphereFailure
    from holopy.inference.model import AlphaModel, ExactModel, LimitOverlaps
    pobj = {}
    for pid, pr in d["priors"].items():
        inf = float("inf")
        if pr[0] == "U":
            pobj[pid] = prior.Uniform(-inf if pr[1] is None else pr[1], inf if pr[2] is None else pr[2])
        elif pr[0] == "G":
            pobj[pid] = prior.Gaussian(pr[1], pr[2])
        else:
            pobj[pid] = prior.BoundedGaussian(pr[1], pr[2], -inf if pr[3] is None else pr[3], inf if pr[4] is None else pr[4])

    for pid, p in pobj.items():
        p._c12_pid = pid

    def obj(site):
        if site is None:
            return None
        if site[0] == "c":
            return site[1]
        if site[0] == "p":
            return pobj[site[1]]
        if site[0] == "x":
            return pobj[site[1]] * site[2]
        if site[0] == "cx":
            return prior.ComplexPrior(obj(site[1]), obj(site[2]))
        raise ValueError(site)

    sph = [Sphere(n=obj(s["n"]), r=obj(s["r"]), center=[obj(c) for c in s["center"]]) for s in d["spheres"]]
    scat = sph[0] if d["single"] else Spheres(sph, warn=False)
    data = base_data(d["shape"], d["spacing"])
    data.values = np.array(d["data_vals"], dtype=float).reshape(data.shape)
    for key in OPT_KEYS:
        v = d["data_optics"][key]
        if v == "absent":
            data.attrs.pop(key, None)
        else:
            data.attrs[key] = None if v is None else (np.array(v) if isinstance(v, list) else v)
    dn = d["data_noise"]
    if dn == "absent":
        data.attrs.pop("noise_sd", None)
    elif dn is None:
        data.attrs["noise_sd"] = None
    elif dn[0] == "c":
        data.attrs["noise_sd"] = dn[1]
    else:
        data.attrs["noise_sd"] = np.array(dn[1], dtype=float).reshape(data.shape)
    nz = d["noise"]
    if nz is None:
        noise = None
    elif nz[0] == "c":
        noise = nz[1]
    elif nz[0] == "a":
        noise = np.array(nz[1], dtype=float).reshape(data.shape)
    else:
        noise = pobj[nz[1]]
    okw = {}
    for key in OPT_KEYS:
        s = d["optics"][key]
        okw[key] = None if s is None else (pobj[s[1]] if s[0] == "p" else (tuple(s[1]) if isinstance(s[1], list) else s[1]))
    cons = [LimitOverlaps(d["fraction"])] if d["fraction"] is not None else []
    counter = Counting()
    if d["fail"] == "InvalidScatterer":
        counter.fail = InvalidScatterer(scat, "synthetic refusal")
    elif d["fail"] == "MultisphereFailure":
        counter.fail = MultisphereFailure()
    if d["kind"] == "alpha":
        if d.get("theory") is not None:
            from holopy.scattering.theory import MieLens
            okw["theory"] = MieLens(lens_angle=obj(d["theory"][1]))
        model = AlphaModel(scat, alpha=obj(d["alpha"]), noise_sd=noise, constraints=cons, **okw)
    elif d.get("default_calc"):
        model = ExactModel(scat, noise_sd=noise, constraints=cons, **okw)
    else:
        model = ExactModel(scat, counter, noise_sd=noise, constraints=cons, **okw)
    # Scatterer.parameters deep-copies the priors, so they are recognised by a tag attribute
    order = [p._c12_pid for p in model._parameters]
    pars = [d["vals"][pid] for pid in order]
    return dict(model=model, data=data, pobj=pobj, counter=counter, order=order, pars=pars)


# ---------------------------------------------------------------------------------------------
# Coq literals of a case

def optq(v):
    return "None" if v is None else "(Some %s)" % qlit(v)


def prior_lit(pr):
    if pr[0] == "U":
        return "(Uniform %s %s)" % (optq(pr[1]), optq(pr[2]))
    if pr[0] == "G":
        return "(Gaussian %s %s)" % (qlit(pr[1]), qlit(pr[2]))
    return "(BoundedGaussian %s %s %s %s)" % (qlit(pr[1]), qlit(pr[2]), optq(pr[3]), optq(pr[4]))


def ln_keys(pr):
    """the arguments at which the model will ask the ln oracle for this prior (formed as python does)"""
    if pr[0] == "U":
        if pr[1] is None or pr[2] is None:
            return []
        return [1 / (pr[2] - pr[1])]
    return [pr[2] * math.sqrt(2 * math.pi)]


def nv_lit(kind, val):
    if kind == "c":
        return "(NScalar %s)" % qlit(val)
    return "(NArray %s)" % listlit([qlit(x) for x in val])


def oval_lit(v):
    if isinstance(v, (list, tuple)):
        return "(OV %s %s)" % (qlit(v[0]), qlit(v[1]))
    return "(OS %s)" % qlit(v)


def case_prefix(d, b, fvals, fsub, largest, sel):
    """Gallina `let` prefix defining M, D, vals, run-time oracles for one case"""
    order = b["order"]
    idx = {pid: i for i, pid in enumerate(order)}
    priors = listlit([prior_lit(d["priors"][pid]) for pid in order])
    vals = listlit([qlit(v) for v in b["pars"]])
    rsl = []
    for s in d["spheres"]:
        rsl.append("(Const %s)" % qlit(s["r"][1]) if s["r"][0] == "c" else "(Par %d)" % idx[s["r"][1]])
    keys = [2 * math.pi]
    for pid in order:
        keys += ln_keys(d["priors"][pid])
    nz = d["noise"]
    sig = []
    if nz is not None:
        sig += [nz[1]] if nz[0] == "c" else (list(nz[1]) if nz[0] == "a" else [d["vals"][nz[1]]])
    dn = d["data_noise"]
    if isinstance(dn, list):
        sig += [dn[1]] if dn[0] == "c" else list(dn[1])
    sig.append(1.0)
    keys += [s for s in sig if s > 0]
    lntab = listlit(["(%s, %s)" % (qlit(k), qlit(math.log(k))) for k in dict.fromkeys(keys)])
    sqtab = "[(%s, %s)]" % (qlit(2 * math.pi), qlit(math.sqrt(2 * math.pi)))
    cons = "[]"
    if d["fraction"] is not None:
        cons = "[limit_overlaps_check QO (fun s : list Q => s) (fun _ => %s) %s]" % (qlit(largest), qlit(d["fraction"]))
    if nz is None:
        mn = "None"
    elif nz[0] == "p":
        mn = "(Some (NPar %d))" % idx[nz[1]]
    else:
        mn = "(Some (NConst %s))" % nv_lit(nz[0], nz[1])
    mo = []
    for key in OPT_KEYS:
        s = d["optics"][key]
        mo.append("None" if s is None else ("(Some (OPar %d))" % idx[s[1]] if s[0] == "p" else "(Some (OConst %s))" % oval_lit(s[1])))
    do = []
    for key in OPT_KEYS:
        v = d["data_optics"][key]
        do.append("None" if v == "absent" else ("(Some None)" if v is None else "(Some (Some %s))" % oval_lit(v)))
    dnl = "None" if dn == "absent" else ("(Some None)" if dn is None else "(Some (Some %s))" % nv_lit(dn[0], dn[1]))
    if d["kind"] == "alpha":
        a = d["alpha"]
        kind = "(Alpha %s)" % ("(Const %s)" % qlit(a[1]) if a[0] == "c" else "(Par %d)" % idx[a[1]])
    else:
        kind = "(@Exact Q)"
    f = "None" if fvals is None else "(Some %s)" % listlit([qlit(x) for x in fvals])
    f2 = "f" if fsub == fvals else ("None" if fsub is None else "(Some %s)" % listlit([qlit(x) for x in fsub]))
    pre = ("let lnT := tab %s in let sqT := tab %s in let piq := %s in\n"
           "let vals := %s in let ps := %s in\n"
           "let mk := (fun v : list Q => map (read QO v) %s) in let rad := (fun s : list Q => s) in\n"
           "let cs : list (list Q -> bool) := %s in\n"
           "let M := @mkModel Q (list Q) %s ps cs %s (%s, %s, %s) in\n"
           "let D := @mkData Q unit tt %s %s (%s, %s, %s) in\n"
           "let f : option (list Q) := %s in let fS : option (list Q) := %s in\n"
           "let px : option (list nat) := %s in\n"
           "let ch := (fun (_ : unit) (_ : list Q) (_ : unit) (_ : optics Q) (_ : Q) => f) in\n"
           "let cf := (fun (_ : unit) (_ : list Q) (_ : unit) (_ : optics Q) => f) in\n"
           "let chS := (fun (_ : unit) (_ : list Q) (_ : unit) (_ : optics Q) (_ : Q) => fS) in\n"
           "let cfS := (fun (_ : unit) (_ : list Q) (_ : unit) (_ : optics Q) => fS) in\n"
           "let ds := (fun (dd : unit) (_ : list nat) => dd) in\n"
           % (lntab, sqtab, qlit(math.pi), vals, priors, listlit(rsl), cons, kind, mn, mo[0], mo[1], mo[2],
              listlit([qlit(x) for x in d["data_vals"]]), dnl, do[0], do[1], do[2], f, f2,
              "None" if sel is None else "(Some %s)" % listlit(["%d%%nat" % i for i in sel])))
    return pre


def impl_ext(v):
    """python float -> 'IVal (Some q)' / 'IVal None' (for -inf)"""
    if v == float("-inf"):
        return "(IVal None)"
    return "(IVal (Some %s))" % qlit(v)


def call(fn):
    """run an implementation call; classify the documented error kinds"""
    from holopy.scattering.errors import MissingParameter, InvalidScatterer
    try:
        return ("val", fn())
    except MissingParameter:
        return ("err", 0)
    except InvalidScatterer:
        return ("err", 1)


def noise_norm(v):
    import numpy as np
    a = np.asarray(v, dtype=float)
    if a.ndim == 0:
        return "(NScalar %s)" % qlit(float(a))
    return "(NArray %s)" % listlit([qlit(float(x)) for x in a.ravel()])


# ---------------------------------------------------------------------------------------------
# one case: implementation results + Coq expressions + direct predicates

def run_case(ctx, d, exprs, metas, tag):
    import numpy as np
    import holopy.inference.model as im
    from holopy.scattering import calc_holo
    from holopy.core.metadata import make_subset_data
    from holopy.core.utils import LnpostWrapper
    from holopy.scattering.errors import InvalidScatterer
    b = build(d)
    model, data, counter, pars = b["model"], b["data"], b["counter"], b["pars"]
    alpha = d["kind"] == "alpha"
    # count calls of the forward calculation: ExactModel -> our calc_func; AlphaModel -> the calc_holo
    # name bound in holopy.inference.model, wrapped from outside for the duration of the case
    orig = getattr(im, "calc_holo", None)
    acount = [0]

    def counted(*a, **k):
        acount[0] += 1
        return orig(*a, **k)
    can_count = (not alpha) or orig is not None
    if alpha and orig is not None:
        im.calc_holo = counted

    def ncalls():
        return acount[0] if alpha else counter.n
    try:
        meta = dict(kind="case", case=d)
        # scatterer as the implementation builds it (C11/C20 oracles): validity, radii, largest overlap
        try:
            scat = model.scatterer_from_parameters(pars)
            radii = [float(x) for x in np.atleast_1d(np.asarray(scat.r, dtype=float))]
            largest = float(scat.largest_overlap()) if d["fraction"] is not None else 0.0
        except InvalidScatterer:
            scat, radii, largest = None, None, 0.0
        # ---- lnprior
        c0 = ncalls()
        lp = call(lambda: float(model.lnprior(pars)))
        prior_calls = ncalls() - c0
        # ---- find_noise / find_optics
        fn = call(lambda: model._find_noise(pars, data))
        fo = call(lambda: model._find_optics(pars, data))
        # ---- lnlike (direct), forward
        c0 = ncalls()
        ll = call(lambda: float(model.lnlike(pars, data)))
        ll_calls = ncalls() - c0
        fvals = None
        fwd_equal = None
        theory = "auto"                 # the model was built with theory='auto': the default theory of the scatterer
        if d.get("theory") is not None:
            from holopy.scattering.theory import MieLens
            ts = d["theory"][1]
            theory = MieLens(lens_angle=d["vals"][ts[1]] if ts[0] == "p" else ts[1])
        if scat is None and lp[0] == "val" and lp[1] != float("-inf"):
            # values inside every prior's support that yield an invalid scatterer: the log-prior must be -inf
            ctx.violation("lnprior:invalid-scatterer-finite",
                          "lnprior is %r for parameter values that yield an invalid scatterer (must be -inf)" % (lp[1],), meta)
        if ll[0] == "val" and scat is not None:
            if alpha:
                expect = calc_holo(data, scat, theory=theory,
                                   scaling=d["vals"][d["alpha"][1]] if d["alpha"][0] == "p" else d["alpha"][1],
                                   **fo[1])
                got = model.forward(pars, data)
                fwd_equal = bool(np.array_equal(np.asarray(expect.values), np.asarray(got.values)))
                fvals = [float(x) for x in np.asarray(expect.values).ravel()]
            elif d["fail"] is None:
                last = counter.last
                expect = synth(data, scat, fo[1]["medium_index"], fo[1]["illum_wavelen"], fo[1]["illum_polarization"])
                got = model.forward(pars, data)
                fwd_equal = bool(np.array_equal(expect.values, got.values)) and \
                    [float(x) for x in np.atleast_1d(np.asarray(last["scatterer"].r, dtype=float))] == radii
                fvals = [float(x) for x in np.asarray(expect.values).ravel()]
        # ---- lnposterior (with the pixel subset) and the wrapper
        sel = None
        fsub = fvals
        if d["pixels"] is not None:
            np.random.seed(d["seed"])
            sel = [int(i) for i in np.random.choice(d["shape"][0] * d["shape"][1], d["pixels"], replace=False)]
            if fvals is not None and lp[0] == "val" and lp[1] != float("-inf"):
                np.random.seed(d["seed"])
                sub = make_subset_data(data, pixels=d["pixels"])
                if alpha:
                    fs = calc_holo(sub, scat, theory=theory,
                                   scaling=d["vals"][d["alpha"][1]] if d["alpha"][0] == "p" else d["alpha"][1], **fo[1])
                else:
                    fs = synth(sub, scat, fo[1]["medium_index"], fo[1]["illum_wavelen"], fo[1]["illum_polarization"])
                fsub = [float(x) for x in np.asarray(fs.values).ravel()]
        np.random.seed(d["seed"])
        c0 = ncalls()
        post = call(lambda: float(model.lnposterior(pars, data, pixels=d["pixels"])))
        post_calls = ncalls() - c0
        np.random.seed(d["seed"])
        c0 = ncalls()
        wr = call(lambda: float(LnpostWrapper(model, data, d["pixels"], d["minus"]).evaluate(pars)))
        wr_calls = ncalls() - c0
    finally:
        if alpha and orig is not None:
            im.calc_holo = orig
    if any(r[0] == "val" and r[1] != r[1] for r in (lp, ll, post, wr)):
        # a NaN hologram (e.g. a lens angle beyond pi/2 reached by an out-of-support value): outside the property
        ctx.count("skipped:nan-likelihood")
        return
    impl = dict(lnprior=lp, lnlike=ll, lnposterior=post, wrapper=wr, calls=dict(prior=prior_calls, lnlike=ll_calls,
                posterior=post_calls, wrapper=wr_calls), find_noise=fn[0], find_optics=fo[0], forward_equal=fwd_equal)
    meta["impl"] = impl
    meta["order"] = b["order"]
    # ---- histogram / non-triviality
    pclass = "finite"
    if lp[0] == "val" and lp[1] == float("-inf"):
        pclass = "invalid-scatterer" if scat is None else "neg-inf"
    ctx.count("model:" + d["kind"] + (":single" if d["single"] else ":cluster"))
    ctx.count("lnprior:" + pclass)
    ctx.count("noise-source:%s/%s" % ("none" if d["noise"] is None else d["noise"][0],
                                     d["data_noise"] if not isinstance(d["data_noise"], list) else d["data_noise"][0]))
    ctx.count("lnlike:" + ("error%d" % ll[1] if ll[0] == "err" else ("neg-inf" if ll[1] == float("-inf") else "finite")))
    ctx.count("pixels:" + ("subset" if d["pixels"] is not None else "all"))
    if d.get("theory") is not None:
        ctx.count("theory:MieLens(lens_angle %s)" % ("prior" if d["theory"][1][0] == "p" else "const"))
    for pr in d["priors"].values():
        ctx.count("prior:" + pr[0] + (":improper" if pr[0] == "U" and (pr[1] is None or pr[2] is None) else ""))
    if d["fraction"] is not None:
        ctx.count("constraint:LimitOverlaps")
    ctx.nontriv((d["kind"], d["single"], pclass, ll[0] if ll[0] == "err" else "v", d["noise"] is None,
                 str(d["data_noise"])[:3], d["pixels"] is None, d["fraction"] is None, len(d["priors"])))
    # ---- Coq expressions
    if d["fail"] is not None:
        fvals = fsub = None
    prefix = case_prefix(d, b, fvals, fsub, largest, sel)
    pre_all = ""
    LP = "lnprior QO lnT sqT piq mk rad cs ps vals"
    e = []
    if lp[0] == "val":
        e.append(("lnprior", pre_all + "ext_close (%s) %s" % (LP, "None" if lp[1] == float("-inf") else "(Some %s)" % qlit(lp[1]))))
        if radii is not None:
            e.append(("scatterer-radii", pre_all + "match scat_from_pars QO mk rad vals with Some s => qlist_eqb s %s | None => false end"
                      % listlit([qlit(r) for r in radii])))
        else:
            e.append(("scatterer-invalid", pre_all + "match scat_from_pars QO mk rad vals with Some _ => false | None => true end"))
    FN = "find_noise QO ps vals (m_noise M) (d_noise D)"
    e.append(("find_noise", pre_all + "res_agree nv_eqb (%s) %s" % (
        FN, "(IErr %s)" % zlit(fn[1]) if fn[0] == "err" else "(IVal %s)" % noise_norm(fn[1]))))
    FO = "find_optics QO vals (m_optics M) (d_optics D)"
    if fo[0] == "err":
        fol = "(IErr %s)" % zlit(fo[1])
    else:
        fol = "(IVal (mkOptics %s %s %s))" % tuple(
            oval_lit([float(x) for x in np.asarray(fo[1][k]).ravel()] if np.ndim(fo[1][k]) else float(fo[1][k])) for k in OPT_KEYS)
    e.append(("find_optics", pre_all + "res_agree op_eqb (%s) %s" % (FO, fol)))
    skip_ll = ll[0] == "val" and fvals is None and d["fail"] is None
    if can_count and not skip_ll:
        e.append(("lnlike", "run_agree (lnlike QO lnT piq mk rad (fun _ => tt) ch cf M vals D 0%%Z) %s %s" % (
            "(IErr %s)" % zlit(ll[1]) if ll[0] == "err" else impl_ext(ll[1]), zlit(ll_calls))))
        e.append(("lnposterior", "run_agree (lnposterior QO lnT sqT piq mk rad (fun _ => tt) chS cfS ds M vals D px 0%%Z) %s %s" % (
            "(IErr %s)" % zlit(post[1]) if post[0] == "err" else impl_ext(post[1]), zlit(post_calls))))
        if wr[0] == "err":
            wl = "(IErr %s)" % zlit(wr[1])
        elif wr[1] == float("inf"):
            wl = "(IVal (@WPosInf Q))"
        elif wr[1] == float("-inf"):
            wl = "(IVal (@WNegInf Q))"
        else:
            wl = "(IVal (WFin %s))" % qlit(wr[1])
        e.append(("wrapper", "wrun_agree (wrapper_evaluate QO lnT sqT piq mk rad (fun _ => tt) chS cfS ds %s M vals D px 0%%Z) %s %s" % (
            blit(d["minus"]), wl, zlit(wr_calls))))
    exprs.append((prefix, [ex for _, ex in e]))
    metas.append(dict(meta, whats=[what for what, _ in e], tag=tag))
    # ---- direct predicates on the implementation (independent of the Coq model)
    ctx.explored += 1
    if prior_calls != 0:
        ctx.violation("counter:lnprior", "lnprior called the forward calculation", meta)
    if lp[0] == "val" and lp[1] == float("-inf"):
        if post_calls != 0 or not (post[0] == "val" and post[1] == float("-inf")):
            ctx.violation("shortcircuit:lnposterior", "prior is -inf but lnposterior computed a hologram or is not -inf", meta)
    if fwd_equal is False:
        ctx.violation("forward:" + d["kind"], "Model.forward differs from the hologram calculation on the substituted "
                      "scatterer/theory/optics/alpha", meta)
    if lp[0] == "val" and ll[0] == "val" and post[0] == "val" and d["pixels"] is None and math.isfinite(lp[1]) and math.isfinite(ll[1]):
        if abs(post[1] - (lp[1] + ll[1])) > 1e-9 * max(1.0, abs(post[1])):
            ctx.violation("sum:lnposterior", "lnposterior != lnprior + lnlike", meta)
    if post[0] == "val" and wr[0] == "val":
        want = -post[1] if d["minus"] else post[1]
        if not (want == wr[1] or abs(want - wr[1]) <= 1e-12 * max(1.0, abs(want))):
            ctx.violation("wrapper:sign", "LnpostWrapper.evaluate != +/- lnposterior", meta)
    if ll[0] == "val" and fvals is not None and fn[0] == "val":
        # independent Gaussian log-density (scipy) of the residuals
        from scipy import stats
        sd = np.asarray(fn[1], dtype=float)
        f = np.array(fvals).reshape(data.shape)
        ref = float(np.sum(stats.norm.logpdf(data.values, loc=f, scale=np.broadcast_to(sd, data.shape))))
        if abs(ref - ll[1]) > 1e-9 * max(1.0, abs(ref)):
            ctx.violation("gauss:lnlike", "lnlike is not the Gaussian log-density of the residuals (scipy reference)",
                          dict(meta, reference=ref))
    if len(ctx.samples) < 4 and tag == "gen":
        ctx.sample(dict(kind=d["kind"], priors=d["priors"], order=b["order"], pars=pars, lnprior=lp, lnlike=ll,
                        lnposterior=post, calls=impl["calls"]))


def finish_batch(ctx, tagname, exprs, metas, chunk=40):
    """exprs: per case (let-prefix, [bool expressions]).  One Gallina term `let ... in [b1; b2; ...]` per case
    (the literals are shared by the checks of a case); coqc evaluates the concatenation with vm_compute and
    prints the indices of the checks that are false."""
    from harness.lib.coqrun import eval_files, parse_eval_blocks, parse_zlist, HEADER
    files, index = [], []
    for k in range(0, len(exprs), chunk):
        part = exprs[k:k + chunk]
        text = HEADER + REQ + "\n" + DEFS + "\n"
        text += "Definition cases : list (list bool) :=\n " + listlit(
            ["\n  (" + pre + listlit(["\n   (" + x + ")" for x in xs]) + ")" for pre, xs in part]) + ".\n"
        text += ("Fixpoint bad (i : Z) (l : list bool) : list Z := match l with [] => [] | "
                 "b :: t => if b then bad (i+1) t else i :: bad (i+1) t end.\n")
        text += "Eval vm_compute in (bad %d (List.concat cases)).\n" % len(index)
        files.append(("cases_%04d" % (k // chunk), text))
        for j, (pre, xs) in enumerate(part):
            index += [(k + j, q) for q in range(len(xs))]
    res = eval_files(tagname, files, jobs=8)
    ctx.corr_cases += len(index)
    for name, rc, out in res:
        blocks = parse_eval_blocks(out) if rc == 0 else []
        if rc != 0 or not blocks:
            ctx.violation("corr-eval-error", "model evaluation failed: %s rc=%d %s" % (name, rc, out[-300:]),
                          dict(kind="coq-error", log=out[-1500:]), nofail=True)
            continue
        for i in parse_zlist(blocks[-1].split(":")[0]):
            ci, q = index[i]
            m = metas[ci]
            what = m["whats"][q]
            ctx.disagree("corr:%s:%s" % (what, m["case"]["kind"]),
                         "model and implementation disagree on %s of an %s model" % (what, m["case"]["kind"]),
                         dict(m, what=what))


# ---------------------------------------------------------------------------------------------
# stages

def stage_generated(ctx):
    rng = ctx.subrng("cases")
    exprs, metas = [], []
    n_exact, n_alpha = ctx.n(110, 1200), ctx.n(40, 400)
    for k in range(n_exact + n_alpha):
        d = gen_case(rng, "exact" if k < n_exact else "alpha")
        with warnings.catch_warnings():
            warnings.simplefilter("ignore")
            run_case(ctx, d, exprs, metas, "gen")
    finish_batch(ctx, "C12", exprs, metas)


def stage_buffer(ctx):
    """the SAME list / array object handed to lnprior / lnlike / lnposterior / forward again after its entries were
    changed in place (what an optimiser or sampler does): every call has to use the current values, i.e. give what a
    freshly built model gives for a fresh list of those values"""
    import numpy as np
    rng = ctx.subrng("buffer")

    def quad(model, data, pars):
        out = [call(lambda: float(model.lnprior(pars))), call(lambda: float(model.lnlike(pars, data))),
               call(lambda: float(model.lnposterior(pars, data)))]
        f = call(lambda: np.asarray(model.forward(pars, data).values, dtype=float).ravel().tolist())
        return out + [f]
    done = 0
    for k in range(ctx.n(60, 400)):
        if done >= ctx.n(14, 80):
            break
        d = gen_case(rng, "exact" if k % 3 else "alpha")
        if d.get("fail") is not None or d.get("pixels") is not None:
            continue
        with warnings.catch_warnings():
            warnings.simplefilter("ignore")
            b = build(d)
            model, data, pars = b["model"], b["data"], b["pars"]
            if not isinstance(pars, (list, tuple)) or not len(pars):
                continue
            done += 1
            for mk in (list, lambda v: np.array(v, dtype=float)):
                buf = mk([float(x) for x in pars])
                quad(model, data, buf)
                for step in range(2):
                    for i in range(len(buf)):
                        buf[i] = buf[i] * (1.0 + 0.004 * (i + 1) * (1 if step == 0 else -2))
                    cur = [float(x) for x in buf]
                    got = quad(model, data, buf)
                    ref = quad(build(d)["model"], data, list(cur))
                    ctx.explored += 1
                    ctx.count("buffer:%s" % d["kind"])
                    ctx.nontriv(("buffer", d["kind"], len(cur), step))
                    if repr(got) != repr(ref):
                        which = [nm for nm, a, b_ in zip(("lnprior", "lnlike", "lnposterior", "forward"), got, ref) if repr(a) != repr(b_)]
                        ctx.violation("buffer-reuse:%s" % d["kind"], "a model called again with the same list / array object after its "
                                      "entries were changed in place does not use the current values (differs from a freshly built "
                                      "model on a fresh list in: %s)" % ", ".join(which),
                                      dict(kind="buffer", case=d, values=cur, differs=which,
                                           got=[g if i < 3 else None for i, g in enumerate(got)],
                                           ref=[g if i < 3 else None for i, g in enumerate(ref)]))


def stage_fixed(ctx):
    """hand-written boundary cases: each clause of the precedence tables, exact support bounds, the
    LimitOverlaps boundary, r = 0, empty prior list, all-uniform None-noise rule"""
    exprs, metas = [], []
    base = dict(kind="exact", priors={"p0": ["U", 0.25, 1.0]}, fail=None, shape=[3, 4], spacing=0.25,
                spheres=[dict(n=["c", 1.5], r=["p", "p0"], center=[["c", 0.5], ["c", 0.5], ["c", 5.0]])],
                single=True, fraction=None, alpha=None, noise=["c", 0.125], data_noise=["c", 0.25],
                optics={"medium_index": ["c", 1.33], "illum_wavelen": ["c", 0.66], "illum_polarization": ["c", [1.0, 0.0]]},
                data_optics={"medium_index": 1.34, "illum_wavelen": 0.633, "illum_polarization": [0.0, 1.0]},
                data_vals=[1.0 + 0.03125 * ((7 * i) % 5 - 2) for i in range(12)], vals={"p0": 0.5},
                pixels=None, seed=1, minus=False, default_calc=False)
    cases = []

    def var(**kw):
        c = copy.deepcopy(base)
        for k, v in kw.items():
            c[k] = v
        cases.append(c)
    var()
    for v in (0.25, 1.0, 0.25 - 2.0 ** -40, 1.0 + 2.0 ** -40):          # support bounds: closed interval
        var(vals={"p0": v})
    for mn in (None, ["c", 0.125]):                                       # noise precedence table
        for dn in ("absent", None, ["c", 0.25], ["a", [0.125 + 0.015625 * i for i in range(12)]]):
            var(noise=mn, data_noise=dn)
            var(noise=mn, data_noise=dn, priors={"p0": ["G", 0.5, 0.125]})
            var(noise=mn, data_noise=dn, priors={"p0": ["BG", 0.5, 0.125, 0.25, 1.0]})
    var(noise=["a", [0.125 + 0.015625 * i for i in range(12)]])
    for key in OPT_KEYS:                                                   # optics precedence table per key
        for mv in (None, base["optics"][key]):
            for dv in ("absent", None, base["data_optics"][key]):
                o = dict(base["optics"]); o[key] = mv
                do = dict(base["data_optics"]); do[key] = dv
                var(optics=o, data_optics=do)
    var(optics={k: None for k in OPT_KEYS}, data_optics={k: None for k in OPT_KEYS})
    var(priors={"p0": ["U", -1.0, 1.0]}, vals={"p0": 0.0})                # r = 0 is a valid sphere
    var(priors={"p0": ["U", -1.0, 1.0]}, vals={"p0": -2.0 ** -30})        # in support, invalid scatterer
    var(priors={"p0": ["U", -1.0, 1.0]}, vals={"p0": -0.5}, minus=True)   # wrapper: -(-inf) = +inf
    var(pixels=5, seed=7)
    var(pixels=1, seed=8, minus=True)
    var(pixels=11, seed=9)
    var(fail="InvalidScatterer")
    var(fail="MultisphereFailure", minus=True)
    # no priors at all: the empty sum, np.all([]) = True
    var(priors={}, vals={}, spheres=[dict(n=["c", 1.5], r=["c", 0.5], center=[["c", 0.5], ["c", 0.5], ["c", 5.0]])],
        noise=None, data_noise=None)
    # LimitOverlaps exactly on the boundary: overlap = 1/8 = 2 * min r * fraction
    two = [dict(n=["c", 1.5], r=["c", 0.5], center=[["c", 0.0], ["c", 0.0], ["c", 5.0]]),
           dict(n=["c", 1.5], r=["p", "p0"], center=[["p", "p1"], ["c", 0.0], ["c", 5.0]])]
    for x in (0.875, 0.875 - 2.0 ** -20, 0.875 + 2.0 ** -20, 3.0, 0.0):
        var(spheres=copy.deepcopy(two), single=False, fraction=0.125, priors={"p0": ["U", 0.25, 1.0], "p1": ["U", 0.0, 4.0]},
            vals={"p0": 0.5, "p1": x})
    var(spheres=copy.deepcopy(two), single=False, fraction=0.125, priors={"p0": ["U", 0.25, 1.0], "p1": ["U", 0.0, 4.0]},
        vals={"p0": 0.25, "p1": 0.6875})                                   # min radius is the second one
    var(spheres=copy.deepcopy(two), single=False, fraction=0.125, priors={"p0": ["U", 0.25, 1.0], "p1": ["U", 0.0, 4.0]},
        vals={"p0": 0.25, "p1": 0.6875 - 2.0 ** -20})
    # alpha model: alpha constant / prior, noise prior
    am = dict(kind="alpha", alpha=["p", "p1"], priors={"p0": ["U", 0.25, 1.0], "p1": ["U", 0.5, 1.0]},
              vals={"p0": 0.5, "p1": 0.75}, spheres=[dict(n=["c", 1.5], r=["p", "p0"], center=[["c", 0.5], ["c", 0.5], ["c", 8.0]])])
    var(**am)
    var(**dict(am, pixels=6, seed=3))
    var(**dict(am, alpha=["c", 1.0], priors={"p0": ["U", 0.25, 1.0]}, vals={"p0": 0.5}))
    var(**dict(am, vals={"p0": 0.5, "p1": 1.25}))
    var(**dict(am, noise=["p", "p2"], priors={"p0": ["U", 0.25, 1.0], "p1": ["U", 0.5, 1.0], "p2": ["U", 0.0625, 0.5]},
               vals={"p0": 0.5, "p1": 0.75, "p2": 0.125}))
    for c in cases:
        _prune(c)
        with warnings.catch_warnings():
            warnings.simplefilter("ignore")
            run_case(ctx, c, exprs, metas, "fixed")
    ctx.count("fixed-boundary-cases", len(cases))
    finish_batch(ctx, "C12f", exprs, metas)


def stage_default_calc(ctx):
    """exploration: ExactModel with its default calc_func is AlphaModel(alpha=1), bit for bit, and both are
    the public calc_holo on the substituted objects (real Mie)"""
    import numpy as np
    from holopy.scattering import calc_holo
    rng = ctx.subrng("default")
    for k in range(ctx.n(12, 120)):
        d = gen_case(rng, "alpha")
        d["alpha"] = ["c", 1.0]
        d["theory"] = None
        _prune(d)
        d2 = copy.deepcopy(d)
        d2["kind"], d2["alpha"], d2["default_calc"] = "exact", None, True
        with warnings.catch_warnings():
            warnings.simplefilter("ignore")
            a, e = build(d), build(d2)
            fa = call(lambda: a["model"].forward(a["pars"], a["data"]))
            fe = call(lambda: e["model"].forward(e["pars"], e["data"]))
        ctx.explored += 1
        ctx.count("default-calc:" + fa[0])
        if fa[0] != fe[0] or (fa[0] == "err" and fa[1] != fe[1]):
            ctx.violation("forward:exact-default", "ExactModel(default calc_func) and AlphaModel(alpha=1) differ in outcome",
                          dict(kind="default", case=d))
        elif fa[0] == "val":
            same = np.array_equal(np.asarray(fa[1].values), np.asarray(fe[1].values)) if hasattr(fa[1], "values") and hasattr(fe[1], "values") else fa[1] == fe[1]
            if not same:
                ctx.violation("forward:exact-default", "ExactModel(default calc_func).forward != AlphaModel(alpha=1).forward",
                              dict(kind="default", case=d))


def stage_channels(ctx):
    """two-colour holograms with PER-CHANNEL noise, given (a) by the data's attribute (a dict, stored by
    update_metadata as a DataArray over 'illumination'), (b) to the model as a dict, (c) to the model as a dict
    holding a prior.  lnlike vs the Coq model on the per-pixel broadcast sigma list, vs scipy, and
    lnposterior = lnprior + lnlike."""
    import numpy as np
    import xarray as xr
    from scipy import stats
    from holopy.core import prior
    from holopy.core.metadata import detector_grid, update_metadata
    from holopy.scattering import Sphere, calc_holo
    from holopy.inference.model import AlphaModel
    rng = ctx.subrng("channels")
    exprs, metas = [], []
    for k in range(ctx.n(9, 60)):
        source = ["data", "model", "model-prior"][k % 3]
        shape = rng.choice([(3, 4), (4, 3), (2, 5)])
        # the image's illumination coordinate and each dictionary list the channel labels in their OWN order
        # (neither sorted nor equal to one another in general)
        chans = rng.sample(["red", "green", "blue"], rng.choice([2, 2, 3]))

        def in_order(dct):
            ks = list(dct)
            rng.shuffle(ks)
            return {c: dct[c] for c in ks}
        wl = in_order({c: v for c, v in zip(chans, [0.66, rng.choice([0.52, 0.405]), 0.45])})
        pol = in_order({c: v for c, v in zip(chans, [(1, 0), rng.choice([(0, 1), (1, 0)]), (0, 1)])})
        nz = in_order({c: rng.uniform(0.02, 0.2) for c in chans})
        rv, av = rng.uniform(0.4, 0.7), rng.uniform(0.6, 0.95)
        case = dict(kind="channels", source=source, shape=list(shape), wavelen=wl, pol=pol, noise=nz, r=rv, alpha=av, index=k,
                    detector_channels=list(chans))
        det = detector_grid(shape=shape, spacing=0.25, extra_dims={"illumination": chans})
        truth = Sphere(n=1.5, r=0.5, center=(0.5, 0.5, 8.0))
        data = calc_holo(det, truth, 1.33, wl, pol)
        pert = np.array([0.03125 * (((7 * i) % 9) - 4) for i in range(data.size)]).reshape(data.shape)
        data = data + pert
        data.attrs = dict(medium_index=None, illum_wavelen=None, illum_polarization=None, noise_sd=None)
        with warnings.catch_warnings():
            warnings.simplefilter("ignore")
            pr_r, pr_a = prior.Uniform(0.25, 1.0), prior.Uniform(0.5, 1.0)
            sp = Sphere(n=1.5, r=pr_r, center=(0.5, 0.5, 8.0))
            pars = [rv, av]
            if source == "data":
                data = update_metadata(data, noise_sd=nz)
                mnoise = None
            elif source == "model":
                mnoise = dict(nz)
            else:
                pr_n = prior.Uniform(0.01, 0.25)
                mnoise = {c: (pr_n if c == chans[1] else nz[c]) for c in nz}
            model = AlphaModel(sp, alpha=pr_a, noise_sd=mnoise, medium_index=1.33, illum_wavelen=wl, illum_polarization=pol)
            if source == "model-prior":
                pars = [rv, nz[chans[1]], av]      # scatterer, optics (noise), model (alpha)
            ctx.explored += 1
            ctx.count("channels:noise-from-" + source)
            lp = float(model.lnprior(pars))
            try:
                ll = float(model.lnlike(pars, data))
                post = float(model.lnposterior(pars, data))
            except Exception as ex:  # noqa
                ctx.violation("noise:%s-dict:%s" % (source.split("-")[0], type(ex).__name__),
                              "a model with per-channel noise (noise_sd given %s as a dict over the illumination "
                              "channels) cannot evaluate lnlike / lnposterior: %s: %s" % (
                                  "by the data" if source == "data" else "to the Model", type(ex).__name__, str(ex)[:150]),
                              dict(kind="channels", case=case, error=type(ex).__name__))
                continue
            f = calc_holo(data, Sphere(n=1.5, r=rv, center=(0.5, 0.5, 8.0)), 1.33, wl, pol, scaling=av)
        # channels are matched by LABEL (the forward calculation lists them in the order of the wavelength dictionary)
        order = [str(c) for c in data.illumination.values]
        f = f.sel(illumination=order).transpose(*data.dims)
        sig = xr.DataArray([nz[c] for c in order], dims="illumination", coords={"illumination": order})
        sig = sig.broadcast_like(data).transpose(*data.dims)
        if [str(c) for c in sig.illumination.values] != order or [str(c) for c in f.illumination.values] != order:
            raise RuntimeError("harness: channel alignment of the reference failed")
        ds = [float(x) for x in data.values.ravel()]
        fs = [float(x) for x in f.values.ravel()]
        ss = [float(x) for x in sig.values.ravel()]
        ref = float(np.sum(stats.norm.logpdf(np.array(ds), loc=np.array(fs), scale=np.array(ss))))
        meta = dict(kind="channels", case=case, impl=dict(lnprior=lp, lnlike=ll, lnposterior=post, reference=ref),
                    whats=["lnlike", "lnposterior"])
        if abs(ref - ll) > 1e-9 * max(1.0, abs(ref)):
            ctx.violation("gauss:lnlike:channels", "per-channel lnlike is not the Gaussian log-density of the residuals", meta)
        if abs(post - (lp + ll)) > 1e-9 * max(1.0, abs(post)):
            ctx.violation("sum:lnposterior:channels", "lnposterior != lnprior + lnlike (per-channel noise)", meta)
        keys = [2 * math.pi] + list(dict.fromkeys(ss))
        pre = ("let lnT := tab %s in let piq := %s in let ll := lnlike_fin QO lnT piq (NArray %s) %s %s in\n" % (
            listlit(["(%s, %s)" % (qlit(x), qlit(math.log(x))) for x in keys]), qlit(math.pi),
            listlit([qlit(x) for x in ss]), listlit([qlit(x) for x in ds]), listlit([qlit(x) for x in fs])))
        exprs.append((pre, ["qclose %s ll %s" % (TOL, qlit(ll)), "qclose %s (%s + ll) %s" % (TOL, qlit(lp), qlit(post))]))
        metas.append(meta)
        ctx.nontriv(("channels", source, tuple(shape)))
    if exprs:
        finish_batch(ctx, "C12c", exprs, metas)


MODEL_PY = "holopy/inference/model.py"


def _src_items():
    from harness.lib import pyarr, pysrc
    return [
        dict(file=MODEL_PY, qualname="(header)", name="asum", fn=lambda repo: pyarr.HEADER),
        dict(file=MODEL_PY, qualname="Model._lnlike (+ Model._residuals)", name="lnlike_src",
             fn=lambda repo: pyarr.translate(
                 repo, MODEL_PY, "Model._lnlike", "lnlike_src", [("forward_model", "R"), ("data", "R"), ("noise_sd", "R")],
                 params=["pars", "data"], opaque={"noise_sd": 2, "forward_model": 0},
                 opaque_calls={"dict_to_array", "self._forward"}, size_attrs={"data.size"},
                 identity_calls={"ensure_scalar", "ensure_array"}, identity_attrs={"values"},
                 inline={"self._residuals": ("Model._residuals", ["pars", "data", "noise"])})),
        dict(file=MODEL_PY, qualname="LimitOverlaps.check", name="check_src",
             fn=lambda repo: pysrc.translate(repo, MODEL_PY, "LimitOverlaps.check", "check_src", [("s", "obj")], "bool",
                                             self_attrs={"fraction": "fraction"},
                                             opaque_exprs={"s.largest_overlap()": "largest", "np.min(s.r)": "minr"})),
    ]


def stage_srctie(ctx):
    from harness.lib import srctie
    ok = srctie.run(ctx, "C12", "From Coq Require Import Lia Psatz.\nFrom HV Require Import C12.Model C12.Lemmas C12.Props.\n",
                    _src_items())
    ctx.count("srctie:%s" % ("ok" if ok else "broken"))


def run(ctx):
    ctx.rule = ("models: ExactModel with a counting synthetic calc_func (Sphere / Spheres of 2-3, ties, complex and transformed "
                "priors, LimitOverlaps with dyadic geometry on / 2^-20 beside the boundary, calc_func refusing) and AlphaModel "
                "with real Mie; priors Uniform (proper, one- and two-sided improper), Gaussian, BoundedGaussian (one/two bounds); "
                "values inside / outside / exactly on the support bounds, negative radii inside the support; noise and each "
                "optics key from the model (constant, array, prior) or the data (absent, None, scalar, array); full image and "
                "random pixel subsets; two-colour holograms with per-channel noise from the data / the model; non-trivial = distinct (model kind, scatterer kind, prior outcome class, likelihood "
                "outcome, noise source, subset?, constraint?, #priors) classes")
    ctx.clauses_proved = ["lnlike = sum_i ln N(d_i; f_i, s_i) for every pixel list (per-pixel and scalar noise)",
                          "lnposterior = lnprior + lnlike (explicit formula incl. pixel subset, one forward call)",
                          "lnprior = -inf iff negative radius or failed constraint or value outside support; else sum of log-densities",
                          "prior -inf => no forward call; call counter in every outcome",
                          "noise precedence table incl. None rule; optics precedence per key and first-missing order",
                          "LnpostWrapper sign incl. -(-inf) = +inf", "forward = calc on substituted scatterer/theory/optics/alpha; "
                          "ExactModel default = AlphaModel(alpha=1)", "LimitOverlaps.check = largest overlap <= fraction of smallest diameter",
                          "Q instance of lnlike = R instance"]
    ctx.clauses_explored = ["Model.forward is bit-equal to the public calc_holo on the substituted objects (real Mie; sampled)",
                            "lnlike agrees with scipy.stats.norm.logpdf of the residuals (sampled)",
                            "ExactModel(default calc_func) == AlphaModel(alpha=1) on real Mie (sampled)"]
    ctx.trusted += ["oracle: python math.log / math.sqrt / math.pi values (leaves of the model; arguments formed in Coq)",
                    "oracle: forward hologram values (counting synthetic calc_func; public calc_holo with real Mie for AlphaModel)",
                    "oracle: Spheres.largest_overlap() value (C20), scatterer construction from parameters (C11), numpy RNG pixel selection",
                    "call counter of AlphaModel observed by wrapping the name holopy.inference.model.calc_holo from outside"]
    ctx.clauses_proved.append(
        "source tie: Model._lnlike with Model._residuals inlined (numpy vector code read elementwise) and LimitOverlaps.check, "
        "translated from the current source text on every run, are proved equal to the model's per-pixel-noise likelihood for "
        "every pixel list and to limit_overlaps_check; the Gaussian log-density theorem and the overlap rule restated for the "
        "translated source")
    ctx.trusted.append("translators harness/lib/pyarr.py / pysrc.py (numpy elementwise arithmetic, np.mean, np.log and .sum() over "
                       "equally long arrays read as list folds over R; the noise array (dict_to_array), the forward hologram "
                       "(self._forward), s.largest_overlap() and np.min(s.r) are opaque inputs; float rounding ignored)")
    guarded(ctx, "prove", ctx.prove)
    guarded(ctx, "source-tie", stage_srctie, ctx)
    boot.boot()
    guarded(ctx, "fixed", stage_fixed, ctx)
    guarded(ctx, "generated", stage_generated, ctx)
    guarded(ctx, "buffer", stage_buffer, ctx)
    guarded(ctx, "default_calc", stage_default_calc, ctx)
    guarded(ctx, "channels", stage_channels, ctx)
    total = ctx.hist.get("model:exact:single", 0) + ctx.hist.get("model:exact:cluster", 0) + ctx.hist.get("model:alpha:single", 0)
    if ctx.hist.get("skipped:nan-likelihood", 0) > 0.1 * max(1, total):
        ctx.violation("nan:likelihood", "more than 10%% of the generated cases give a NaN likelihood (%d of %d)"
                      % (ctx.hist["skipped:nan-likelihood"], total), dict(kind="nan"), nofail=True)


def replay(ctx, data):
    """re-run the stored failing case on the current tree (implementation + model + direct predicates)"""
    boot.boot()
    d = data["data"]
    case = d.get("case")
    if d.get("kind") == "tie":
        ctx.prove()
        stage_srctie(ctx)
        return
    if d.get("kind") == "channels":
        print("replay: re-running the per-channel noise stage")
        guarded(ctx, "channels", stage_channels, ctx)
        return
    if case is None or d.get("kind") == "default":
        print("replay: re-running the whole check with the recorded seed")
        ctx.seed = data.get("seed", ctx.seed)
        run(ctx)
        return
    exprs, metas = [], []
    with warnings.catch_warnings():
        warnings.simplefilter("ignore")
        run_case(ctx, case, exprs, metas, "replay")
    print("replay: implementation results:", metas[0]["impl"] if metas else None)
    finish_batch(ctx, "C12r", exprs, metas)

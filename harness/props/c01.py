"""C01 - hologram = |scaling * E + unit polarization|^2, intensity = |E|^2, scaling 0 -> 1, result on the
detector's coordinates with the detector's metadata updated by the passed optics, history independence.

Stages
  real     requests over the real theories (Mie, layered Mie, Mie superposition, Multisphere, Tmatrix, MieLens,
           Lens) x grid/point detectors x polarisations x scalings (scalar, per channel).  The model's
           holo_flat / inten_flat (Q instance, vm_compute inside coqc) are fed with the implementation's own
           calc_field values (oracle for the theory) and the RAW polarisation + the implementation's sqrt:
           predicted hologram / intensity / scaling-0 hologram / normalised polarisation vs the returned ones.
           The metadata model (update_metadata / prep_schema on association lists) predicts the attrs of the
           three results exactly.  Coordinates, dims, name, finiteness: exact, on the implementation.
  mock     a harness-side ScatteringTheory (the documented extension point) whose field is a polynomial of the
           position it is handed: the WHOLE image-formation model (flatten order, k*(x-c) with inverted z,
           phase exp(-i k z_c), superposition over components, un-flatten) is executed in Coq and compared.
  history  8-10 requests in 3 random orders with repeats inside one interpreter + a fresh interpreter running
           another order (thorough: + every request alone in its own interpreter): outputs bit-for-bit.
"""
import hashlib
import json
import os
import subprocess
import sys
from fractions import Fraction

from harness.lib import boot, coqrun
from harness.lib.coqrun import qlit, zlit, blit, listlit, strlit
from harness.lib.ctx import guarded

REQ = "From HV Require Import Common.Generic Common.Cmp C01.Model.\n"
# tolerances (measured 2026-10-01 on the unchanged tree: real theories agree at 1e-15 and first differ at 1e-16, the
# mock pipeline agrees at 1e-13 and differs at 1e-15; a sign / index / factor mutation moves values by >= 1e-3).
# 1e-11 and 1e-9 leave >= 1e4 head-room.  The environment override exists only to re-measure the rounding level.
TOL = "(1 # %d)" % 10 ** int(os.environ.get("C01_TOL_DIGITS", "11"))          # relative, real theories
TOL_MOCK = "(1 # %d)" % 10 ** int(os.environ.get("C01_TOL_MOCK_DIGITS", "9"))  # floor 1, whole-pipeline model
CHANNELS = ["red", "green"]

DEFS_NUM = """
Open Scope Q_scope.
Definition close (tol a b scale : Q) : bool := Qle_bool (Qabs' (a - b)) (tol * scale).
Fixpoint all2 {A B} (f : A -> B -> bool) (l1 : list A) (l2 : list B) : bool :=
  match l1, l2 with [], [] => true | a :: t, b :: u => f a b && all2 f t u | _, _ => false end.
Definition u15 : Q := 1 # 1000000000000000.
(* bit 1: hologram, 2: intensity, 4: scaling-0 hologram, 8: normalised polarisation, 16: sqrt oracle *)
Definition chan_code (tol alpha : Q) (p : Q * Q) (nrm : Q) (phimpl : vec3 Q) (Es : list (cvec3 Q))
           (hs ins h0s : list Q) : Z :=
  let p3 := pad2 QOr p in
  let ph := to_vector QOr p3 nrm in
  let I := inten_flat QOr Es in
  let b1 := all2 (fun (m : Q) (hI : Q * Q) => close tol m (fst hI) (1 + alpha * alpha * snd hI))
                 (holo_flat QOr alpha p3 nrm Es) (combine hs I) && Nat.eqb (List.length hs) (List.length I) in
  let b2 := all2 (fun (m i : Q) => close tol m i m) I ins in
  let b3 := all2 (fun (m h : Q) => close (2 * u15) m h 1) (holo_flat QOr 0 p3 nrm Es) h0s in
  let b4 := (let '(a, b, c) := ph in let '(a', b', c') := phimpl in
             close u15 a a' 1 && close u15 b b' 1 && close u15 c c' 1) in
  let b5 := close (4 * u15) (nrm * nrm) (norm2 QOr p3) (norm2 QOr p3) && negb (Qeq_bool nrm 0) in
  ((if b1 then 0 else 1) + (if b2 then 0 else 2) + (if b3 then 0 else 4) + (if b4 then 0 else 8)
   + (if b5 then 0 else 16))%Z.

(* mock theory of the harness: E = (X + i Y r, Z r + i X Y, phx + i phy) at the position handed to it *)
Definition mockpt (r phx phy : Q) (q : vec3 Q) : cvec3 Q :=
  let '(X, Y, Z) := q in ((X, Y * r), (Z * r, X * Y), (phx, phy)).
Definition cclose (tol : Q) (a b : cplx Q) : bool := qclose tol (fst a) (fst b) && qclose tol (snd a) (snd b).
Definition cvclose (tol : Q) (E F : cvec3 Q) : bool :=
  let '(a, b, c) := E in let '(a', b', c') := F in cclose tol a a' && cclose tol b b' && cclose tol c c'.
Definition img3 {A B} (f : A -> B -> bool) := all2 (all2 (all2 f)).
Definition mkcomps (ph : vec3 Q) (l : list (Q * vec3 Q * (Q * Q))) : list (comp Q) :=
  let '(phx, phy, _) := ph in
  map (fun m : Q * vec3 Q * (Q * Q) => let '(r, c, cs) := m in @lift_comp Q (mockpt r phx phy, c, cs)) l.
(* bit 1: field, 2: hologram, 4: intensity *)
Definition mock_grid_code (tol k alpha : Q) (p : Q * Q) (nrm : Q) (l : list (Q * vec3 Q * (Q * Q)))
           (xs ys zs : list Q) (F : list (list (list (cvec3 Q)))) (H In : list (list (list Q))) : Z :=
  let p3 := pad2 QOr p in
  let comps := mkcomps (to_vector QOr p3 nrm) l in
  let '(phx, phy, _) := to_vector QOr p3 nrm in
  (* a single sphere goes through _get_field_from directly: also the non-superposed model definitions *)
  let s1 := match l with [(r, c, (ck, sk))] =>
              img3 (cvclose tol) (calc_field_img QOr (map (mockpt r phx phy)) k c ck sk xs ys zs) F | _ => true end in
  let s2 := match l with [(r, c, (ck, sk))] =>
              img3 (qclose tol) (calc_holo_img QOr (map (mockpt r phx phy)) k c ck sk alpha p3 nrm xs ys zs) H | _ => true end in
  let s4 := match l with [(r, c, (ck, sk))] =>
              img3 (qclose tol) (calc_inten_img QOr (map (mockpt r phx phy)) k c ck sk xs ys zs) In | _ => true end in
  ((if img3 (cvclose tol) (calc_field_img_sup QOr k comps xs ys zs) F && s1 then 0 else 1)
   + (if img3 (qclose tol) (calc_holo_img_sup QOr k comps alpha p3 nrm xs ys zs) H && s2 then 0 else 2)
   + (if img3 (qclose tol) (calc_inten_img_sup QOr k comps xs ys zs) In && s4 then 0 else 4))%Z.
Definition mock_pts_code (tol k alpha : Q) (p : Q * Q) (nrm : Q) (l : list (Q * vec3 Q * (Q * Q)))
           (pts : list (vec3 Q)) (F : list (cvec3 Q)) (H In : list Q) : Z :=
  let p3 := pad2 QOr p in
  let fl := field_flat_sup QOr k (mkcomps (to_vector QOr p3 nrm) l) pts in
  ((if all2 (cvclose tol) fl F then 0 else 1)
   + (if all2 (qclose tol) (holo_flat QOr alpha p3 nrm fl) H then 0 else 2)
   + (if all2 (qclose tol) (inten_flat QOr fl) In then 0 else 4))%Z.
"""

DEFS_ATTR = """
Open Scope string_scope.
Definition veq := option_eqb Z.eqb.
Definition attrs_same (b impl : attrs Z) : bool :=
  forallb (fun kv : string * option Z =>
             match lookup (fst kv) b with Some v => veq v (snd kv) | None => false end) impl
  && forallb (fun kv : string * option Z => has_key (fst kv) impl) b.
(* bit 1: calc_holo attrs, 2: calc_field attrs, 4: calc_intensity attrs, 8: accept / MissingParameter decision *)
Definition attrs_code (d : attrs Z) (mi wl pol : option Z) (accepted : bool) (ih ifd ii : attrs Z) : Z :=
  (match result_attrs d mi wl pol with
   | inl _ => if accepted then 8 else 0
   | inr b => if accepted
              then (if attrs_same b ih then 0 else 1) + (if attrs_same b ifd then 0 else 2)
                   + (if attrs_same b ii then 0 else 4)
              else 8
   end)%Z.
"""


def run_code_cases(tag, defs, exprs, chunk=40):
    """each expr : Z (0 = model and implementation agree, otherwise a bit mask of the aspects that differ).
    Returns (codes or None per case, errors)."""
    files = []
    for k in range(0, len(exprs), chunk):
        part = exprs[k:k + chunk]
        text = coqrun.HEADER + REQ + defs + "\nDefinition codes : list Z :=\n " + \
            listlit(["\n  (" + e + ")" for e in part]) + ".\nEval vm_compute in codes.\n"
        files.append(("cases_%04d" % (k // chunk), text))
    res = coqrun.eval_files(tag, files, jobs=3)
    codes, errors = [None] * len(exprs), []
    for idx, (name, rc, out) in enumerate(res):
        if rc != 0:
            errors.append("%s: rc=%d %s" % (name, rc, out[-1500:]))
            continue
        blocks = coqrun.parse_eval_blocks(out)
        if not blocks:
            errors.append("%s: no Eval output: %s" % (name, out[-500:]))
            continue
        vals = coqrun.parse_zlist(blocks[-1].split(":")[0])
        n = min(chunk, len(exprs) - idx * chunk)
        if len(vals) != n:
            errors.append("%s: %d values for %d cases" % (name, len(vals), n))
            continue
        codes[idx * chunk: idx * chunk + n] = vals
    return codes, errors


# --------------------------------------------------------------------------- request specs (JSON-able)

def u(rng, lo, hi):
    return rng.uniform(lo, hi)


def gen_sphere(rng, layered=False, zlo=3.0, zhi=10.0):
    c = [u(rng, -0.3, 0.9), u(rng, -0.3, 0.9), u(rng, zlo, zhi)]
    if layered:
        nl = rng.choice([2, 2, 3])
        rs = sorted(u(rng, 0.15, 0.8) for _ in range(nl))
        return dict(kind="layered", n=[u(rng, 1.38, 1.65) for _ in range(nl)], r=rs, center=c)
    return dict(kind="sphere", n=u(rng, 1.38, 1.65), r=u(rng, 0.2, 0.8), center=c)


def gen_spheres(rng, k=None, zlo=4.0, zhi=7.0):
    k = k or rng.choice([2, 2, 3])
    ms = []
    tries = 0
    while len(ms) < k and tries < 200:
        tries += 1
        s = dict(kind="sphere", n=u(rng, 1.38, 1.65), r=u(rng, 0.25, 0.55),
                 center=[u(rng, -0.5, 1.5), u(rng, -0.5, 1.5), u(rng, zlo, zhi)])
        if all(sum((a - b) ** 2 for a, b in zip(s["center"], m["center"])) ** 0.5 > s["r"] + m["r"] + 0.1 for m in ms):
            ms.append(s)
    return dict(kind="spheres", members=ms)


def gen_tm_scatterer(rng):
    c = [u(rng, -0.3, 0.6), u(rng, -0.3, 0.6), u(rng, 3, 10)]
    rot = [u(rng, 0, 6), u(rng, 0.05, 3.0), 0.0]          # beta inside (0, pi): DESIGN s7 defect 8 is C10's
    if rng.random() < 0.5:
        return dict(kind="spheroid", n=u(rng, 1.45, 1.6), r=[u(rng, 0.3, 0.7), u(rng, 0.3, 0.7)], rotation=rot, center=c)
    return dict(kind="cylinder", n=u(rng, 1.45, 1.6), d=u(rng, 0.4, 0.8), h=u(rng, 0.5, 1.2), rotation=rot, center=c)


POLS = [[1, 0], [0, 1], [1, 1], [3, 4], [0.3, -0.7], [-2, 0.5], [0, -2.5], [1e-3, 5], [1, 1, 0], [0.6, 0.8],
        # nearly, but not exactly, of unit length (a hand-typed direction): still has to be normalised
        [1, 0.004], [0.70711, 0.70711], [0.6, 0.80001], [-0.99999, 0.003], [0.0035, 1.0, 0]]


def gen_pol(rng, tmatrix=False):
    if tmatrix:
        return rng.choice([[1, 0], [1, 0, 0], [2, 0], [u(rng, 0.2, 5), 0]])
    if rng.random() < 0.5:
        return list(rng.choice(POLS))
    return [u(rng, -3, 3), u(rng, -3, 3)]


def gen_scaling(rng):
    r = rng.random()
    if r < 0.15:
        return 1.0
    if r < 0.25:
        return 0.0
    if r < 0.35:
        return -u(rng, 0.1, 1.5)
    return u(rng, 0.05, 2.5)


EXTRA_ATTRS = [("exposure", 0.25), ("camera", "basler"), ("frame", 7), ("normals", None), ("_source_class", "raw")]


def gen_detector(rng, points=False, same_z=False, maxn=12):
    d = dict(name=rng.choice(["data", "data", "holo_17", "d"]))
    if points:
        n = rng.choice([1, 2, 3, 5, 8, 13, 30])
        z0 = u(rng, -0.5, 0.5)
        d.update(kind="points", x=[u(rng, -1, 2) for _ in range(n)], y=[u(rng, -1, 2) for _ in range(n)],
                 z=[z0 if same_z else u(rng, -0.5, 0.5) for _ in range(n)])
    else:
        # every size 1..maxn occurs along each axis, but most grids are small or elongated: one pixel costs
        # ~20 ms of exact rational arithmetic inside coqc
        r = rng.random()
        small = max(2, (maxn * 5) // 12)
        if r < 0.55:
            shape = [rng.randint(1, small), rng.randint(1, small)]
        elif r < 0.85:
            shape = [rng.randint(1, maxn), rng.randint(1, 3)]
            if rng.random() < 0.5:
                shape.reverse()
        elif r < 0.97:
            shape = [rng.randint(small - 1, (2 * maxn) // 3), rng.randint(small - 1, (2 * maxn) // 3)]
        else:
            shape = [maxn, maxn]
        spacing = [u(rng, 0.05, 0.2), u(rng, 0.05, 0.2)] if rng.random() < 0.6 else [rng.choice([0.1, 0.0851, 0.125])] * 2
        origin = [0.0, 0.0, 0.0] if rng.random() < 0.5 else [u(rng, -1, 1), u(rng, -1, 1), u(rng, -0.5, 0.5)]
        d.update(kind="grid", shape=shape, spacing=spacing, origin=origin)
        if rng.random() < 0.12 and shape[0] * shape[1] <= 20:
            d["zs"] = sorted(u(rng, -0.5, 1.5) for _ in range(rng.choice([2, 3])))      # several z planes
    d["attrs"] = [list(a) for a in EXTRA_ATTRS if rng.random() < 0.3]
    d["preset"] = {}
    return d


def gen_optics(rng, det, tmatrix=False, allow_missing=True):
    """full optics; a random subset lives in the detector (preset) instead of being passed, some are in both
    (the passed one must win), rarely one is nowhere (MissingParameter expected)"""
    full = dict(medium_index=u(rng, 1.0, 1.45), illum_wavelen=u(rng, 0.45, 0.75), illum_polarization=gen_pol(rng, tmatrix))
    passed, preset = {}, {}
    for key, val in full.items():
        r = rng.random()
        if r < 0.6:
            passed[key] = val
        elif r < 0.8:
            preset[key] = val
        elif r < 0.97 or not allow_missing:
            passed[key] = val
            if key == "illum_polarization":
                preset[key] = [0, 1] if not tmatrix else [1, 0]
            else:
                preset[key] = val * 1.25      # overridden by the passed value
        # else: missing everywhere
    if rng.random() < 0.3:
        preset["noise_sd"] = u(rng, 0.01, 0.2)
    det["preset"] = preset
    return passed, full


def effective(spec, key):
    v = spec["optics"].get(key)
    if v is None:
        v = spec["det"]["preset"].get(key)
    return v


def gen_real_spec(rng, k):
    fam = rng.choice(["mie", "mie", "mie_ff", "auto_sphere", "layered", "layered_auto", "mie_sup", "multisphere",
                      "multisphere", "auto_spheres", "tmatrix", "tmatrix", "tmatrix_sphere", "mielens", "mielens",
                      "mielens_sup", "lens_mie", "lens_multi", "lens_tm"])
    points = rng.random() < 0.3
    th = dict(kind=fam)
    if fam in ("mie", "mie_ff", "auto_sphere", "tmatrix_sphere", "mielens", "lens_mie"):
        sc = gen_sphere(rng)
    elif fam in ("layered", "layered_auto"):
        sc = gen_sphere(rng, layered=True)
    elif fam in ("mie_sup", "multisphere", "auto_spheres", "mielens_sup", "lens_multi"):
        sc = gen_spheres(rng)
    else:
        sc = gen_tm_scatterer(rng)
    if fam.startswith("mielens"):
        th["lens_angle"] = u(rng, 0.5, 1.1)
    if fam.startswith("lens"):
        th.update(lens_angle=u(rng, 0.5, 1.0), npts=[rng.randint(8, 16), rng.randint(8, 16)])
    tm = fam in ("tmatrix", "tmatrix_sphere", "lens_tm")
    det = gen_detector(rng, points=points, same_z=fam.startswith("mielens"))
    if fam.startswith("mielens"):
        det.pop("zs", None)      # MieLens refuses detectors with several z planes (ValueError): an unsupported configuration
    passed, full = gen_optics(rng, det, tmatrix=tm)
    spec = dict(id=k, scat=sc, theory=th, det=det, optics=passed, scaling=gen_scaling(rng), channels=None)
    if not tm and "illum_polarization" in passed and k % 4 == 1:
        spec["pol_form"] = "xarray" if k % 8 == 1 else "ndarray"      # same vector, other accepted container
    if not points and rng.random() < 0.2 and fam in ("mie", "mie_ff", "layered", "mie_sup", "multisphere", "mielens"):
        # two illuminations: per-channel wavelength, polarisation and (mostly) scaling
        def shuffled():
            c = list(CHANNELS)
            rng.shuffle(c)
            return c
        # the detector's illumination coordinate and every dict-valued optic list the labels in their OWN order
        spec["channels"] = shuffled()
        det["preset"] = {}
        det.pop("zs", None)
        if det["shape"][0] == 1:
            # detector_grid((1, n), spacing, extra_dims=...) cannot be constructed (data_grid adds the z axis only
            # when len(arr) > 1 or arr.ndim == 2): an unsupported configuration, not a calculation result
            det["shape"][0] = 2
        spec["optics"] = dict(medium_index=full["medium_index"],
                              illum_wavelen={c: u(rng, 0.45, 0.75) for c in spec["channels"]},
                              illum_polarization={c: gen_pol(rng) for c in shuffled()})
        if rng.random() < 0.6:     # mostly: wavelength and polarisation list the labels in opposite orders
            spec["optics"]["illum_wavelen"] = {c: spec["optics"]["illum_wavelen"][c]
                                               for c in reversed(list(spec["optics"]["illum_polarization"]))}
        if rng.random() < 0.7:
            spec["scaling"] = {c: gen_scaling(rng) for c in shuffled()}
    return spec


def gen_mock_spec(rng, k):
    points = rng.random() < 0.35
    if rng.random() < 0.5:
        sc = gen_sphere(rng, zlo=1.0, zhi=4.0)
    else:
        sc = gen_spheres(rng, zlo=1.0, zhi=4.0)
    det = gen_detector(rng, points=points, maxn=5)
    if points:
        for c in ("x", "y", "z"):
            det[c] = det[c][:8]
    passed, full = gen_optics(rng, det, allow_missing=False)
    return dict(id=k, scat=sc, theory=dict(kind="mock"), det=det, optics=passed, scaling=gen_scaling(rng), channels=None)


# --------------------------------------------------------------------------- building holopy objects

_MOCK = {}


def mock_theory():
    if "cls" not in _MOCK:
        import numpy as np
        from holopy.scattering import Sphere
        from holopy.scattering.theory.scatteringtheory import ScatteringTheory

        class PolyTheory(ScatteringTheory):
            """field = polynomial of the (cartesian, k-scaled) position handed over by ImageFormation"""
            desired_coordinate_system = 'cartesian'

            def __init__(self):
                pass

            def can_handle(self, scatterer):
                return isinstance(scatterer, Sphere)

            def raw_fields(self, pos, scatterer, medium_wavevec, medium_index, illum_polarization):
                X, Y, Z = np.array(pos, dtype=float)
                r = float(scatterer.r)
                ph = illum_polarization.values
                return np.array([X + 1j * Y * r, Z * r + 1j * X * Y, (ph[0] + 1j * ph[1]) + 0 * X])
        _MOCK["cls"] = PolyTheory
    return _MOCK["cls"]()


def build_scatterer(s):
    from holopy.scattering import Sphere, Spheres, Spheroid, Cylinder
    k = s["kind"]
    if "n_im" in s:          # absorbing twin of a real-index particle (specs are JSON: the imaginary part has its own key)
        s = dict(s, n=complex(s["n"], s["n_im"]))
        del s["n_im"]
    if k == "sphere":
        return Sphere(n=s["n"], r=s["r"], center=tuple(s["center"]))
    if k == "layered":
        return Sphere(n=list(s["n"]), r=list(s["r"]), center=tuple(s["center"]))
    if k == "spheres":
        return Spheres([build_scatterer(m) for m in s["members"]])
    if k == "spheroid":
        return Spheroid(n=s["n"], r=tuple(s["r"]), rotation=tuple(s["rotation"]), center=tuple(s["center"]))
    if k == "cylinder":
        return Cylinder(n=s["n"], d=s["d"], h=s["h"], rotation=tuple(s["rotation"]), center=tuple(s["center"]))
    raise ValueError(k)


def build_theory(t):
    from holopy.scattering import Mie, Multisphere, Tmatrix, MieLens
    from holopy.scattering.theory import Lens
    k = t["kind"]
    if k.startswith("auto") or k == "layered_auto":
        return "auto"
    if k in ("mie", "layered", "mie_sup"):
        return Mie()
    if k == "mie_ff":
        return Mie(False, False)
    if k == "multisphere":
        return Multisphere()
    if k in ("tmatrix", "tmatrix_sphere"):
        return Tmatrix()
    if k in ("mielens", "mielens_sup"):
        return MieLens(lens_angle=t["lens_angle"])
    if k.startswith("lens"):
        inner = {"lens_mie": lambda: Mie(False, False), "lens_multi": Multisphere, "lens_tm": Tmatrix}[k]()
        return Lens(t["lens_angle"], inner, quad_npts_theta=t["npts"][0], quad_npts_phi=t["npts"][1])
    if k == "mock":
        return mock_theory()
    raise ValueError(k)


def build_detector(d, channels=None):
    import numpy as np
    from holopy.core.metadata import detector_grid, detector_points, update_metadata
    if d["kind"] == "grid":
        extra = {"illumination": list(channels)} if channels else None
        if d.get("zs"):
            # a detector with several z planes (a volume), built by the documented factory data_grid
            from holopy.core.metadata import data_grid
            nx, ny = d["shape"]
            shp = (len(d["zs"]), nx, ny) + ((len(channels),) if channels else ())
            det = data_grid(np.zeros(shp), tuple(d["spacing"]), name=d["name"], extra_dims=extra, z=list(d["zs"]))
        else:
            det = detector_grid(tuple(d["shape"]), tuple(d["spacing"]), name=d["name"], extra_dims=extra)
        o = d["origin"]
        if any(o):
            det = det.assign_coords(x=det.x + o[0], y=det.y + o[1], z=det.z + o[2])
    else:
        det = detector_points(x=np.array(d["x"]), y=np.array(d["y"]), z=np.array(d["z"]), name=d["name"])
    if d["preset"]:
        p = dict(d["preset"])
        if "illum_polarization" in p:
            p["illum_polarization"] = tuple(p["illum_polarization"])
        det = update_metadata(det, **p)
    for key, val in d["attrs"]:
        det.attrs[key] = val
    return det


def conv_optics(o, pol_form=None):
    out = {}
    for key, v in o.items():
        if key == "illum_polarization" and v is not None:
            v = {c: tuple(x) for c, x in v.items()} if isinstance(v, dict) else tuple(v)
            if pol_form == "xarray" and not isinstance(v, dict):
                # the vector-labelled form HoloPy itself keeps in metadata, here with the norm the request gives
                import xarray as xr
                v = xr.DataArray(list(v) + [0.0] * (3 - len(v)), dims="vector", coords={"vector": ["x", "y", "z"]})
            elif pol_form == "ndarray" and not isinstance(v, dict):
                import numpy as np
                v = np.array(v, dtype=float)
        out[key] = v
    return out


def execute(spec, what=("field", "holo", "inten", "holo0")):
    """run the public entry points on one request; returns dict name -> DataArray or ('error', class name, info)"""
    from holopy.scattering import calc_holo, calc_field, calc_intensity
    det = build_detector(spec["det"], spec["channels"])
    sc = build_scatterer(spec["scat"])
    kw = conv_optics(spec["optics"], spec.get("pol_form"))
    out = {"det": det}
    scaling = spec["scaling"]
    zero = {c: 0.0 for c in scaling} if isinstance(scaling, dict) else 0.0
    calls = {"field": lambda: calc_field(det, sc, theory=build_theory(spec["theory"]), **kw),
             "holo": lambda: calc_holo(det, sc, theory=build_theory(spec["theory"]), scaling=scaling, **kw),
             "inten": lambda: calc_intensity(det, sc, theory=build_theory(spec["theory"]), **kw),
             "holo0": lambda: calc_holo(det, sc, theory=build_theory(spec["theory"]), scaling=zero, **kw)}
    for w in what:
        try:
            out[w] = calls[w]()
        except Exception as e:  # noqa - the class is compared with the model's verdict
            out[w] = ("error", type(e).__name__, str(getattr(e, "parameter_name", e))[:200])
    return out


# --------------------------------------------------------------------------- observation helpers

def flat_values(res, det_kind, chan=None, vec=False):
    import numpy as np
    a = res
    if chan is not None:
        a = a.sel(illumination=chan)
    order = ["x", "y", "z"] if det_kind == "grid" else ["point"]
    if vec:
        order = order + ["vector"]
        a = a.sel(vector=["x", "y", "z"])
    v = np.asarray(a.transpose(*order).values)
    return v.reshape(-1, 3) if vec else v.reshape(-1)


def check_layout(ctx, fn, res, det, spec, vec):
    """coordinates / dims / name / finiteness of one result, directly on the implementation"""
    import numpy as np
    ctx.explored += 1
    grid = spec["det"]["kind"] == "grid"
    want = set(["x", "y", "z"] if grid else ["point"])
    if spec["channels"]:
        want.add("illumination")
    if vec:
        want.add("vector")
    data = dict(kind="real" if spec["theory"]["kind"] != "mock" else "mock", spec=spec, fn=fn)
    if set(res.dims) != want:
        ctx.violation("dims:" + fn, "%s result has dims %s, detector implies %s" % (fn, list(res.dims), sorted(want)),
                      dict(data, dims=list(res.dims)))
        return False
    if not grid and not any(c in res.coords for c in ("x", "y", "z")):
        # the result of a point detector has to carry the detector's positions along `point` ("lies on exactly the
        # detector's pixel coordinates"; _pack_field_into_xarray's docstring says the same)
        ctx.violation("coords:%s:point-detector" % fn, "%s result on a point detector carries no x / y / z coordinates: the values "
                      "cannot be placed without the detector" % fn, data)
        return False
    else:
      for c in ("x", "y", "z"):
        if c not in res.coords or not np.array_equal(np.asarray(res[c].values, dtype=float), np.asarray(det[c].values, dtype=float)):
            ctx.violation("coords:" + fn, "%s result is not on the detector's %s coordinates" % (fn, c),
                          dict(data, coord=c, got=np.asarray(res[c].values, dtype=float) if c in res.coords else None,
                               want=np.asarray(det[c].values, dtype=float)))
            return False
    for c in res.dims:
        if c in det.dims and res.sizes[c] != det.sizes[c]:
            ctx.violation("coords:" + fn, "%s result has %d entries along %s, the detector %d" % (fn, res.sizes[c], c, det.sizes[c]), data)
            return False
    if res.name != det.name:
        ctx.violation("name:" + fn, "%s result is named %r, the detector %r" % (fn, res.name, det.name), data)
    if not np.isfinite(np.asarray(res.values)).all():
        ctx.violation("finite:%s:%s" % (fn, spec["theory"]["kind"]), "%s result is not finite" % fn, data)
        return False
    return True


def round12(x):
    return float("%.12e" % float(x))


def canon(v):
    """canonical, hashable description of an attribute value (polarisation vectors to 12 digits: their exact
    value is compared numerically against the model's to_vector)"""
    import numpy as np
    import xarray as xr
    if v is None:
        return None
    if isinstance(v, xr.DataArray):
        if v.dims == ("vector",):
            return ("vec",) + tuple(round12(x) for x in v.values)
        return ("arr", tuple(v.dims), tuple(round12(x) for x in np.asarray(v.values, dtype=float).ravel()))
    if isinstance(v, (bool, np.bool_)):
        return ("bool", bool(v))
    if isinstance(v, (int, float, np.floating, np.integer)):
        return ("num", float(v).hex())
    if isinstance(v, str):
        return ("str", v)
    return ("obj", repr(v))


def norm_pol(p):
    """the implementation's primitive operations for the oracle leaves: 3-vector, sqrt of the sum of squares"""
    import numpy as np
    c = np.array(p, dtype=float)
    if c.shape == (2,):
        c = np.append(c, 0)
    nrm = float(np.sqrt(np.sum(c ** 2)))
    return [float(x) for x in c], nrm


def qvec(v):
    return "(%s, %s, %s)" % tuple(qlit(float(x)) for x in v)


def cvlit(E):
    return "((%s, %s), (%s, %s), (%s, %s))" % tuple(qlit(float(x)) for z in E for x in (z.real, z.imag))


# --------------------------------------------------------------------------- stage: real theories

def numeric_exprs(spec, out):
    """one chan_code expression per illumination channel; returns [(expr, meta)]"""
    kind = spec["det"]["kind"]
    res = []
    for chan in (spec["channels"] or [None]):
        pol = effective(spec, "illum_polarization")
        pol = pol[chan] if isinstance(pol, dict) else pol
        alpha = spec["scaling"][chan] if isinstance(spec["scaling"], dict) else spec["scaling"]
        p3, nrm = norm_pol(pol)
        E = flat_values(out["field"], kind, chan, vec=True)
        h = flat_values(out["holo"], kind, chan)
        i = flat_values(out["inten"], kind, chan)
        h0 = flat_values(out["holo0"], kind, chan)
        ph = out["holo"].attrs["illum_polarization"]
        ph = ph.sel(illumination=chan) if chan is not None else ph
        phv = [float(x) for x in ph.sel(vector=["x", "y", "z"]).values]
        e = "chan_code %s %s (%s, %s) %s %s %s %s %s %s" % (
            TOL, qlit(float(alpha)), qlit(p3[0]), qlit(p3[1]), qlit(nrm), qvec(phv),
            listlit([cvlit(x) for x in E]), listlit([qlit(float(x)) for x in h]),
            listlit([qlit(float(x)) for x in i]), listlit([qlit(float(x)) for x in h0]))
        res.append((e, dict(chan=chan, alpha=float(alpha), p3=p3, nrm=nrm, ph=phv, E=E, h=h, i=i, h0=h0)))
    return res


def locate_pixel(m):
    """search step after a numeric disagreement: exact rational replica of holo_px / inten_px to name the pixel"""
    a = Fraction(m["alpha"])
    nrm = Fraction(m["nrm"])
    px, py = Fraction(m["p3"][0]) / nrm, Fraction(m["p3"][1]) / nrm
    worst = None
    for j in range(len(m["h"])):
        ex, ey = m["E"][j][0], m["E"][j][1]
        exr, exi, eyr, eyi = (Fraction(float(x)) for x in (ex.real, ex.imag, ey.real, ey.imag))
        I = exr ** 2 + exi ** 2 + eyr ** 2 + eyi ** 2
        H = (a * exr + px) ** 2 + (a * exi) ** 2 + (a * eyr + py) ** 2 + (a * eyi) ** 2
        dh = abs(H - Fraction(float(m["h"][j]))) / (1 + a * a * I)
        di = abs(I - Fraction(float(m["i"][j]))) / I if I else abs(Fraction(float(m["i"][j])))
        d0 = abs(px * px + py * py - Fraction(float(m["h0"][j])))
        d = max(dh, di, d0)
        if worst is None or d > worst[0]:
            worst = (d, dict(pixel=j, field=[complex(z) for z in m["E"][j]], holo_returned=float(m["h"][j]),
                             holo_model=float(H), intensity_returned=float(m["i"][j]), intensity_model=float(I),
                             holo_scaling0_returned=float(m["h0"][j]), holo_scaling0_model=float(px * px + py * py),
                             rel_dev_holo=float(dh), rel_dev_intensity=float(di), dev_scaling0=float(d0)))
    return worst


def attrs_expr(spec, out):
    """attrs_code expression (single illumination): detector attrs and passed optics as opaque ids"""
    import xarray as xr
    ids = {}

    def vid(c):
        if c is None:
            return "None"
        if c not in ids:
            ids[c] = len(ids) + 1
        return "(Some %s)" % zlit(ids[c])

    def alist(attrs):
        return listlit(["(%s, %s)" % (strlit(str(k)), vid(canon(v))) for k, v in attrs.items()])

    def passed(key):
        v = spec["optics"].get(key)
        if v is None:
            return "None"
        if key == "illum_polarization":
            p3, nrm = norm_pol(v)
            return vid(("vec",) + tuple(round12(x / nrm) for x in p3))
        return vid(("num", float(v).hex()))

    results = [out[w] for w in ("holo", "field", "inten")]
    accepted = [isinstance(r, xr.DataArray) for r in results]
    al = [alist(r.attrs) if ok else "[]" for r, ok in zip(results, accepted)]
    e = "attrs_code %s %s %s %s %s %s %s %s" % (alist(out["det"].attrs), passed("medium_index"), passed("illum_wavelen"),
                                             passed("illum_polarization"), blit(all(accepted)), al[0], al[1], al[2])
    return e, accepted


def describe_attrs(a):
    return {str(k): (None if v is None else str(canon(v))) for k, v in a.items()}


def check_real(ctx, specs, tag, sample=False):
    import numpy as np
    import xarray as xr
    num_exprs, num_meta, att_exprs, att_meta = [], [], [], []
    for spec in specs:
        out = execute(spec)
        fam = spec["theory"]["kind"]
        ctx.count("real:theory:" + fam)
        ctx.count("real:scatterer:" + spec["scat"]["kind"])
        ctx.count("real:detector:" + spec["det"]["kind"])
        if spec["channels"]:
            ctx.count("real:two-illuminations")
        if isinstance(spec["scaling"], dict):
            ctx.count("real:per-channel-scaling")
        results = {w: out[w] for w in ("field", "holo", "inten", "holo0")}
        errs = {w: r for w, r in results.items() if not isinstance(r, xr.DataArray)}
        have_all = all(effective(spec, key) is not None for key in ("medium_index", "illum_wavelen", "illum_polarization"))
        if not spec["channels"]:
            e, accepted = attrs_expr(spec, out)
            att_exprs.append(e)
            att_meta.append(dict(spec=spec, detector_attrs=describe_attrs(out["det"].attrs),
                                 result_attrs={w: (describe_attrs(out[w].attrs) if isinstance(out[w], xr.DataArray) else list(out[w]))
                                               for w in ("holo", "field", "inten")}))
        if errs:
            kinds = sorted(set(r[1] for r in errs.values()))
            ctx.count("real:refused:" + "/".join(kinds))
            if have_all or kinds != ["MissingParameter"] or len(errs) != 4:
                # a refusal of a request that carries all optics (or only some entry points refusing) is not expected
                ctx.violation("refused:%s" % "/".join(kinds),
                              "request with complete optics refused (%s): %s" % (fam, errs), dict(kind="real", spec=spec, errors={w: list(r) for w, r in errs.items()}))
            continue
        det = out["det"]
        ok = True
        for w, fn, vec in (("field", "calc_field", True), ("holo", "calc_holo", False), ("inten", "calc_intensity", False),
                           ("holo0", "calc_holo", False)):
            ok = check_layout(ctx, fn, results[w], det, spec, vec) and ok
        if not ok:
            continue
        metas = numeric_exprs(spec, out)
        if spec["channels"]:
            check_channels_by_label(ctx, spec, out)
        for e, m in metas:
            num_exprs.append(e)
            num_meta.append(dict(spec=spec, m=m))
            # direct predicate, scaling 0: the same value on every pixel, 1 up to the rounding of the normalisation
            # (error analysis: |p/|p||^2 in floats is within 8 ulp = 9e-16 of 1), exactly 1.0 when the polarisation
            # lies along an axis (then sqrt(a*a) = |a| and p/|p| = +-1 exactly)
            ctx.explored += 1
            h0 = m["h0"]
            axis = (m["p3"][0] == 0 or m["p3"][1] == 0)
            if not (np.all(h0 == h0[0]) and abs(h0[0] - 1.0) <= 2e-15 and (not axis or h0[0] == 1.0)):
                ctx.violation("scaling0", "hologram with scaling 0 is not 1 on every pixel (%s)" % fam,
                              dict(kind="real", spec=spec, chan=m["chan"], values=[float(x) for x in h0[:20]]))
            if float(np.ptp(m["h"])) > 1e-6 and m["alpha"] != 0:
                ctx.nontriv((tag, spec["id"], m["chan"]))
            ctx.count("real:pixels", len(h0))
        if sample:
            m = metas[0][1]
            ctx.sample(dict(theory=fam, scatterer=spec["scat"]["kind"], detector=spec["det"]["kind"], scaling=spec["scaling"],
                            polarization=m["p3"], field_px0=[complex(z) for z in m["E"][0]], holo_px0=float(m["h"][0]),
                            intensity_px0=float(m["i"][0]), holo_scaling0_px0=float(m["h0"][0])), limit=4)
    codes, errors = run_code_cases(tag + "n", DEFS_NUM, num_exprs, chunk=22)
    acodes, aerrors = run_code_cases(tag + "a", DEFS_ATTR, att_exprs, chunk=100)
    ctx.corr_cases += len(num_exprs) + len(att_exprs)
    for e in errors + aerrors:
        ctx.violation("corr-eval-error", "model evaluation failed: " + e[:300], dict(kind="coq-error", log=e), nofail=True)
    names = {1: "holo", 2: "intensity", 4: "scaling0", 8: "to_vector", 16: "sqrt-oracle"}
    for code, meta in zip(codes, num_meta):
        if not code:
            continue
        m = meta["m"]
        worst = locate_pixel(m)
        for bit, nm in names.items():
            if code & bit:
                ctx.disagree("corr:%s" % nm, "model and implementation disagree on %s (%s, %s detector)" % (
                    nm, meta["spec"]["theory"]["kind"], meta["spec"]["det"]["kind"]),
                    dict(kind="real", spec=meta["spec"], chan=m["chan"], aspect=nm, polarization_returned=m["ph"],
                         worst_pixel=worst[1] if worst else None))
    anames = {1: "calc_holo", 2: "calc_field", 4: "calc_intensity", 8: "accept"}
    for code, meta in zip(acodes, att_meta):
        if not code:
            continue
        for bit, nm in anames.items():
            if code & bit:
                ctx.disagree("attrs:%s" % nm, (
                    "metadata of the %s result is not the detector's attrs updated with the passed optics" % nm) if bit != 8 else
                    "accept / MissingParameter decision differs from prep_schema model", dict(kind="real", aspect="attrs:" + nm, **meta))


def check_channels_by_label(ctx, spec, out):
    """direct predicate for several illuminations: channel c of the field is the single-colour field computed with
    c's OWN wavelength and polarisation (selected by label), whatever order the dicts list the labels in.  (The
    per-channel model check above takes the multi-colour calc_field as its oracle, so it cannot see a field that
    is consistently filed under the wrong label.)  Rounding measured: 0; tolerance 1e-9 of max|E|."""
    import numpy as np
    import xarray as xr
    orders = [list(spec["channels"])] + [list(v) for v in spec["optics"].values() if isinstance(v, dict)]
    if isinstance(spec["scaling"], dict):
        orders.append(list(spec["scaling"]))
    if any(o != orders[0] for o in orders):
        ctx.count("real:illumination-labels-in-different-orders")
    for chan in spec["channels"]:
        single = dict(spec, channels=None, det=dict(spec["det"], preset={}),
                      optics=dict(medium_index=spec["optics"]["medium_index"],
                                  illum_wavelen=spec["optics"]["illum_wavelen"][chan],
                                  illum_polarization=spec["optics"]["illum_polarization"][chan]),
                      scaling=spec["scaling"][chan] if isinstance(spec["scaling"], dict) else spec["scaling"])
        so = execute(single, what=("field", "holo"))
        ctx.explored += 1
        for w in ("field", "holo"):
            if not isinstance(so[w], xr.DataArray):
                ctx.violation("refused:single-colour", "single-colour request of channel %s refused: %s" % (chan, so[w]),
                              dict(kind="real", spec=spec, chan=chan))
                return
            a = flat_values(out[w], "grid", chan, vec=(w == "field"))
            b = flat_values(so[w], "grid", None, vec=(w == "field"))
            scale = max(1e-300, float(np.abs(b).max()))
            dev = float(np.abs(a - b).max()) / scale if a.shape == b.shape else float("inf")
            if not dev <= 1e-9:
                ctx.violation("channels:%s-by-label" % w,
                              "channel %r of the multi-illumination %s is not the single-colour %s for that channel's own "
                              "wavelength and polarisation (relative deviation %.3g)" % (chan, w, w, dev),
                              dict(kind="real", spec=spec, chan=chan, what=w, deviation=dev,
                                   multi=[complex(z) for z in np.ravel(a)[:6]], single=[complex(z) for z in np.ravel(b)[:6]]))
                return


def stage_real(ctx):
    rng = ctx.subrng("real")
    specs = [gen_real_spec(rng, k) for k in range(ctx.n(60, 600))]
    check_real(ctx, specs, "C01r", sample=True)


# --------------------------------------------------------------------------- stage: mock theory, whole pipeline

def mock_expr(spec, out):
    import numpy as np
    det = out["det"]
    kind = spec["det"]["kind"]
    mi, wl = effective(spec, "medium_index"), effective(spec, "illum_wavelen")
    k = float(2 * np.pi / (wl / mi))                       # get_wavevec_from, same operations
    p3, nrm = norm_pol(effective(spec, "illum_polarization"))
    members = spec["scat"]["members"] if spec["scat"]["kind"] == "spheres" else [spec["scat"]]
    comps = []
    for m in members:
        ph = complex(np.exp(-1j * k * m["center"][2]))      # oracle leaves: cos / sin of k z_c
        comps.append("(%s, %s, (%s, %s))" % (qlit(m["r"]), qvec(m["center"]), qlit(ph.real), qlit(-ph.imag)))
    head = "%s %s %s (%s, %s) %s %s" % (TOL_MOCK, qlit(k), qlit(float(spec["scaling"])), qlit(p3[0]), qlit(p3[1]),
                                        qlit(nrm), listlit(comps))
    F, H, In = out["field"], out["holo"], out["inten"]
    if kind == "grid":
        xs, ys, zs = ([float(v) for v in det[c].values] for c in ("x", "y", "z"))
        Fv = np.asarray(F.sel(vector=["x", "y", "z"]).transpose("x", "y", "z", "vector").values)
        Hv = np.asarray(H.transpose("x", "y", "z").values)
        Iv = np.asarray(In.transpose("x", "y", "z").values)

        def img(a, lit):
            return listlit([listlit([listlit([lit(a[i, j, l]) for l in range(a.shape[2])]) for j in range(a.shape[1])])
                            for i in range(a.shape[0])])
        return "mock_grid_code %s %s %s %s %s %s %s" % (
            head, listlit([qlit(v) for v in xs]), listlit([qlit(v) for v in ys]), listlit([qlit(v) for v in zs]),
            img(Fv, cvlit), img(Hv, lambda v: qlit(float(v))), img(Iv, lambda v: qlit(float(v))))
    pts = list(zip(*(det[c].values for c in ("x", "y", "z"))))
    return "mock_pts_code %s %s %s %s %s" % (
        head, listlit([qvec(p) for p in pts]), listlit([cvlit(x) for x in flat_values(F, kind, vec=True)]),
        listlit([qlit(float(x)) for x in flat_values(H, kind)]), listlit([qlit(float(x)) for x in flat_values(In, kind)]))


def check_mock(ctx, specs, tag):
    import xarray as xr
    exprs, metas = [], []
    for spec in specs:
        out = execute(spec, what=("field", "holo", "inten"))
        ctx.count("mock:scatterer:" + spec["scat"]["kind"])
        ctx.count("mock:detector:" + spec["det"]["kind"])
        bad = {w: list(out[w]) for w in ("field", "holo", "inten") if not isinstance(out[w], xr.DataArray)}
        if bad:
            ctx.violation("refused:mock", "request with a mock theory refused: %s" % bad, dict(kind="mock", spec=spec, errors=bad))
            continue
        ok = True
        for w, fn, vec in (("field", "calc_field", True), ("holo", "calc_holo", False), ("inten", "calc_intensity", False)):
            ok = check_layout(ctx, fn, out[w], out["det"], spec, vec) and ok
        if not ok:
            continue
        exprs.append(mock_expr(spec, out))
        metas.append(spec)
        n = len(spec["scat"].get("members", [1]))
        ctx.nontriv((tag, spec["id"]))
        ctx.count("mock:components:%d" % n)
    codes, errors = run_code_cases(tag, DEFS_NUM, exprs, chunk=10)
    ctx.corr_cases += len(exprs)
    for e in errors:
        ctx.violation("corr-eval-error", "model evaluation failed: " + e[:300], dict(kind="coq-error", log=e), nofail=True)
    names = {1: "field", 2: "holo", 4: "intensity"}
    for code, spec in zip(codes, metas):
        for bit, nm in names.items():
            if code and code & bit:
                ctx.disagree("corr:mock:%s" % nm, "image-formation model and implementation disagree on the %s image "
                             "(mock theory, %s, %s detector)" % (nm, spec["scat"]["kind"], spec["det"]["kind"]),
                             dict(kind="mock", spec=spec, aspect=nm))


def stage_mock(ctx):
    rng = ctx.subrng("mock")
    check_mock(ctx, [gen_mock_spec(rng, k) for k in range(ctx.n(30, 300))], "C01m")


# --------------------------------------------------------------------------- stage: histories

def gen_history_set(rng, n):
    """requests chosen to stress state kept between calls: two T-matrix shapes of different size, two sphere
    clusters of different size (SCSMFO work arrays), large then small Mie sphere, MieLens / Lens caches"""
    shape = [rng.randint(3, 7), rng.randint(3, 7)]      # one detector for the whole set: adversarial for any
    det = lambda: dict(kind="grid", name="data", shape=list(shape),  # noqa   cache keyed on the detector alone
                       spacing=[0.1, 0.1], origin=[0.0, 0.0, 0.0], attrs=[], preset={})
    opt = lambda tm=False: dict(medium_index=u(rng, 1.0, 1.4), illum_wavelen=u(rng, 0.45, 0.75),  # noqa
                                illum_polarization=[1, 0] if tm else [u(rng, -2, 2), u(rng, 0.1, 2)])
    big = gen_sphere(rng)
    big["r"] = u(rng, 0.9, 1.4)
    small = gen_sphere(rng)
    small["r"] = u(rng, 0.1, 0.2)
    tm1, tm2 = gen_tm_scatterer(rng), gen_tm_scatterer(rng)
    fams = [("tmatrix", tm1, True), ("tmatrix", tm2, True), ("multisphere", gen_spheres(rng, 3), False),
            ("multisphere", gen_spheres(rng, 2), False), ("mie", big, False), ("mie", small, False),
            ("layered", gen_sphere(rng, layered=True), False), ("mie_sup", gen_spheres(rng, 2), False),
            ("mielens", gen_sphere(rng), False), ("lens_mie", gen_sphere(rng), False), ("lens_tm", gen_tm_scatterer(rng), True)]
    must = fams[:6]
    rest = fams[6:]
    rng.shuffle(rest)
    chosen = (must + rest)[:n]
    specs = []
    for k, (fam, sc, tm) in enumerate(chosen):
        th = dict(kind=fam)
        if fam == "mielens":
            th["lens_angle"] = u(rng, 0.5, 1.1)
        if fam.startswith("lens"):
            th.update(lens_angle=u(rng, 0.5, 1.0), npts=[10, 12])
        specs.append(dict(id=k, scat=sc, theory=th, det=det(), optics=opt(tm), scaling=u(rng, 0.2, 1.5), channels=None))
    # theory='auto': the default theory is chosen per call from the scatterer (for Spheres from its GEOMETRY:
    # Multisphere up to 30 radii separation, Mie superposition beyond).  Both regimes, a single sphere and a
    # T-matrix shape, each with a twin that names the documented default explicitly (same request otherwise).
    r1, r2 = u(rng, 0.35, 0.5), u(rng, 0.35, 0.5)
    c1 = [u(rng, 0.1, 0.5), u(rng, 0.1, 0.5), u(rng, 5.0, 5.5)]
    close = dict(kind="spheres", members=[dict(kind="sphere", n=u(rng, 1.45, 1.6), r=r1, center=c1),
                                          dict(kind="sphere", n=u(rng, 1.45, 1.6), r=r2,
                                               center=[c1[0] + 0.2, c1[1] + 0.2, c1[2] + r1 + r2 + 0.05])])
    rf = u(rng, 0.2, 0.25)
    far = dict(kind="spheres", members=[dict(kind="sphere", n=u(rng, 1.45, 1.6), r=rf, center=c1),
                                        dict(kind="sphere", n=u(rng, 1.45, 1.6), r=rf * 0.9,
                                             center=[c1[0] + 0.2, c1[1] + 0.2, c1[2] + 40 * rf])])
    for fam, twin, sc, tm in (("auto_spheres_close", "multisphere", close, False), ("auto_spheres_far", "mie_sup", far, False),
                              ("auto_sphere", "mie", gen_sphere(rng), False), ("auto_tm", "tmatrix", gen_tm_scatterer(rng), True)):
        o, a, d = opt(tm), u(rng, 0.2, 1.5), det()
        specs.append(dict(id=len(specs), scat=sc, theory=dict(kind=fam), det=d, optics=o, scaling=a, channels=None,
                          twin=len(specs) + 1))
        specs.append(dict(id=len(specs), scat=sc, theory=dict(kind=twin), det=d, optics=o, scaling=a, channels=None))
    return specs


IFACE_PY = "holopy/scattering/interface.py"


def _src_items():
    from harness.lib import pyarr, pysrc
    kw = dict(axis_name="vector", axis_labels=["x", "y", "z"])
    return [
        dict(file=IFACE_PY, qualname="(header)", name="asum", fn=lambda repo: pyarr.HEADER),
        dict(file=IFACE_PY, qualname="scattered_field_to_hologram", name="holo_src",
             fn=lambda repo: pyarr.translate(repo, IFACE_PY, "scattered_field_to_hologram", "holo_src", [("scat", "C"), ("ref", "R")], **kw)),
        dict(file=IFACE_PY, qualname="calc_intensity", name="inten_src",
             fn=lambda repo: pyarr.translate(
                 repo, IFACE_PY, "calc_intensity", "inten_src", [("field", "C")],
                 params=["detector", "scatterer", "medium_index", "illum_wavelen", "illum_polarization", "theory"],
                 opaque={"field": 0}, opaque_calls={"calc_field"}, passthrough={"finalize": 1}, **kw)),
        dict(file=IFACE_PY, qualname="calc_holo (scaled field)", name="holo_arg_src",
             fn=lambda repo: pysrc.translate_call_arg(repo, IFACE_PY, "calc_holo", "holo_arg_src", "scattered_field_to_hologram", 0,
                                                      {"scattered_field": "e", "scaling": "alpha"})),
    ]


def stage_srctie(ctx):
    from harness.lib import srctie
    ok = srctie.run(ctx, "C01", "From Coq Require Import Lia Psatz.\nFrom HV Require Import C01.Model C01.Lemmas C01.Props.\n",
                    _src_items())
    ctx.count("srctie:%s" % ("ok" if ok else "broken"))


def _quiet():
    """holopy installs an 'always' filter for OverlapWarning at import; the sibling sets shift and grow spheres on purpose"""
    import warnings
    from holopy.scattering.errors import OverlapWarning
    warnings.filterwarnings("ignore", category=OverlapWarning)


def gen_sibling_set(rng, fam):
    """a base request and its one-factor siblings: each differs from the base in exactly ONE input (detector z, origin,
    spacing, shape; particle size, index, position; medium, wavelength, polarisation, scaling, theory option).
    Adversarial for any memo / cache whose key leaves one input out: whichever of base and sibling runs second would
    get the other's cached intermediate, so the permuted orders of check_history disagree."""
    import copy as _copy
    tm = fam in ("tmatrix", "lens_tm")
    shape = [rng.randint(3, 6), rng.randint(3, 6)]
    th = dict(kind=fam)
    if fam == "mielens":
        th["lens_angle"] = u(rng, 0.5, 1.0)
    if fam.startswith("lens"):
        th.update(lens_angle=u(rng, 0.5, 1.0), npts=[10, 12])
    if fam in ("multisphere", "mie_sup"):
        sc = gen_spheres(rng, 2)
    elif tm:
        sc = gen_tm_scatterer(rng)
    else:
        sc = gen_sphere(rng)
    base = dict(scat=sc, theory=th, scaling=u(rng, 0.3, 1.2), channels=None,
                det=dict(kind="grid", name="data", shape=shape, spacing=[0.1, 0.125], origin=[0.0, 0.0, 0.0], attrs=[], preset={}),
                optics=dict(medium_index=1.33, illum_wavelen=0.66, illum_polarization=[1, 0] if tm else [0.6, 0.8]))
    sibs = [base]

    def sib(path, fn):
        q = _copy.deepcopy(base)
        o = q
        for k in path[:-1]:
            o = o[k]
        o[path[-1]] = fn(o[path[-1]])
        sibs.append(q)
    sib(("det", "origin"), lambda v: [v[0], v[1], 1.5])
    sib(("det", "origin"), lambda v: [0.7, v[1], v[2]])
    sib(("det", "origin"), lambda v: [v[0], -0.45, v[2]])
    sib(("det", "spacing"), lambda v: [v[0] * 1.5, v[1]])
    sib(("det", "shape"), lambda v: [v[0] + 1, v[1]])
    sib(("optics", "medium_index"), lambda v: 1.4)
    sib(("optics", "illum_wavelen"), lambda v: 0.52)
    if not tm:
        sib(("optics", "illum_polarization"), lambda v: [0.8, -0.6])
    sib(("scaling",), lambda v: v * 0.5)
    if "lens_angle" in th:
        sib(("theory", "lens_angle"), lambda v: v * 0.8)
    members = sc["members"] if sc.get("kind") == "spheres" else None
    tgt = ("scat", "members", 0) if members else ("scat",)
    m0 = members[0] if members else sc
    for key, fn in (("n", lambda v: v + 0.05 if not isinstance(v, list) else v), ("center", lambda v: [v[0] + 0.3, v[1], v[2]]),
                    ("center", lambda v: [v[0], v[1], v[2] + 0.8])):
        if key in m0:
            sib(tgt + (key,), fn)
    if "r" in m0 and not isinstance(m0["r"], list):
        sib(tgt + ("r",), lambda v: v * 0.8)
    if not isinstance(m0.get("n"), list):
        # the same particle with absorption switched on / changed: only the IMAGINARY part of the index differs
        for im in (0.05, 0.1):
            q = _copy.deepcopy(base)
            o = q["scat"]["members"][0] if members else q["scat"]
            o["n_im"] = im
            q["adjacent"] = True
            sibs.append(q)
        base["adjacent"] = True
    for k, q in enumerate(sibs):
        q["id"] = k
    return sibs


def digest(spec):
    import numpy as np
    import xarray as xr
    out = execute(spec, what=("holo", "field", "inten"))
    h = hashlib.sha256()
    for w in ("holo", "field", "inten"):
        r = out[w]
        if isinstance(r, xr.DataArray):
            h.update(np.ascontiguousarray(r.values).tobytes())
        else:
            h.update(("error:" + r[1]).encode())
    return h.hexdigest()


def child_digests(specs, order, tag):
    """run specs[order[0]], specs[order[1]], ... in a FRESH interpreter; returns the digests in that order"""
    rundir = os.path.join(coqrun.RUN_ROOT, "C01h")
    os.makedirs(rundir, exist_ok=True)
    path = os.path.join(rundir, "seq_%s_%d.json" % (tag, os.getpid()))
    with open(path, "w") as f:
        json.dump(dict(specs=specs, order=order), f)
    r = subprocess.run([sys.executable, "-W", "ignore", "-m", "harness.props.c01", "--history-child", path],
                       cwd=coqrun.VERIF, stdout=subprocess.PIPE, stderr=subprocess.PIPE, text=True, timeout=900)
    os.remove(path)
    for line in r.stdout.split("\n"):
        if line.startswith("DIGESTS "):
            return json.loads(line[8:])
    raise RuntimeError("history child produced no result (rc=%s): %s" % (r.returncode, (r.stdout + r.stderr)[-800:]))


def check_history(ctx, specs, tag, perms=3, alone=False):
    rng = ctx.subrng("history-order-" + tag)
    n = len(specs)
    ref, first_seen = {}, {}
    adj = [j for j, sp in enumerate(specs) if sp.get("adjacent")]
    for p in range(perms + (1 if len(adj) >= 2 else 0)):
        order = [rng.randrange(n) for _ in range(n)] + list(range(n))      # repeats + everyone at least once
        rng.shuffle(order)
        if p == perms:
            # requests that differ in one input only, run back to back in every order of two (a one-entry memo whose key
            # omits that input serves the second from the first)
            order = [a for i in adj for j in adj if i != j for a in (i, j)]
        for pos, j in enumerate(order):
            d = digest(specs[j])
            ctx.explored += 1
            ctx.count("history:calls")
            ctx.count("history:theory:" + specs[j]["theory"]["kind"])
            if j not in ref:
                ref[j] = d
                first_seen[j] = (p, pos)
            elif d != ref[j]:
                ctx.violation("history:%s" % specs[j]["theory"]["kind"],
                              "the same request returned different values later in the same interpreter (%s)" % specs[j]["theory"]["kind"],
                              dict(kind="history", specs=specs, target=j, order_before=order[:pos], permutation=p,
                                   first_seen=first_seen[j]))
    ctx.nontriv((tag, "orders", perms))
    # theory='auto' must behave like the default theory it documents, whatever was computed before: a difference
    # from the explicit twin triggers the decisive test, the same auto request ALONE in a fresh interpreter
    for j, sp in enumerate(specs):
        t = sp.get("twin")
        if t is None or j not in ref or t not in ref:
            continue
        ctx.explored += 1
        ctx.count("history:auto-vs-explicit-default")
        if ref[j] != ref[t]:
            fresh = child_digests(specs, [j], tag + "auto")[0]
            if fresh != ref[j]:
                ctx.violation("history:auto", "a theory='auto' request (%s) returns other values after other requests than alone in a "
                              "fresh interpreter (there it %s its documented default %s)" % (
                                  sp["theory"]["kind"], "equals" if fresh == ref[t] else "also differs from", specs[t]["theory"]["kind"]),
                              dict(kind="history", specs=specs, target=j, twin=t, first_seen=first_seen[j],
                                   culprit=find_culprit(specs, j)))
            else:
                ctx.count("history:auto-differs-from-documented-default-but-not-by-history")
    # a fresh interpreter, and the order in which every request was FIRST computed above exactly reversed: of any two requests
    # that share the key of some memo, the one that was served from the other's entry above is now computed first and is right,
    # so its value differs from the recorded one - whatever the random permutations above happened to be
    order = sorted(range(n), key=lambda j: first_seen.get(j, (0, 0)), reverse=True)
    runs = [("reversed", order)]
    if alone:
        runs += [("alone%d" % j, [j]) for j in range(n)]
    for name, order in runs:
        ds = child_digests(specs, order, tag + name)
        for j, d in zip(order, ds):
            ctx.explored += 1
            ctx.count("history:fresh-interpreter-calls")
            if d != ref[j]:
                culprit = None
                if name == "reversed":
                    culprit = find_culprit(specs, j)
                ctx.violation("history:%s" % specs[j]["theory"]["kind"],
                              "a request returns different values in a fresh interpreter (%s) than after other requests (%s)" % (
                                  name, specs[j]["theory"]["kind"]),
                              dict(kind="history", specs=specs, target=j, fresh_order=order, culprit=culprit))


def find_culprit(specs, j):
    """search: which single predecessor A makes [A, target] differ from [target] alone (fresh interpreters)"""
    try:
        alone = child_digests(specs, [j], "s")[0]
        for a in range(len(specs)):
            if a != j and child_digests(specs, [a, j], "s")[1] != alone:
                return dict(predecessor=a, theory=specs[a]["theory"]["kind"])
    except Exception as e:  # noqa
        return dict(search_error=str(e)[:200])
    return None


def stage_history(ctx):
    rng = ctx.subrng("history")
    for s in range(ctx.n(1, 3)):
        specs = gen_history_set(rng, ctx.n(8, 10))      # + 4 auto requests and their 4 explicit twins
        check_history(ctx, specs, "h%d" % s, perms=3, alone=(ctx.tier == "thorough" and s == 0))
    fams = ["mie", "mielens", "lens_mie", "multisphere", "tmatrix", "mie_sup", "layered", "lens_tm"]
    for s, fam in enumerate(fams[:ctx.n(5, 8)]):
        specs = gen_sibling_set(rng, fam)
        ctx.count("history:sibling-set:" + fam)
        check_history(ctx, specs, "sib%d" % s, perms=2)


# --------------------------------------------------------------------------- entry points

def run(ctx):
    ctx.rule = ("requests = scatterer (sphere, 2-3 layer sphere, 2-3 sphere cluster, spheroid, cylinder) x theory (Mie near/far "
                "field, Mie superposition, Multisphere, Tmatrix, MieLens, Lens(Mie|Multisphere|Tmatrix), auto) x detector "
                "(grids 1x1..12x12 with unequal spacing / shifted origin / z offset, 1-30 points; extra attrs, optics preset "
                "in the detector and/or passed) x polarisation (axis, diagonal, 3-4-5, random, non-unit norm) x scaling "
                "(0, 1, negative, random; per channel with two illuminations); non-trivial = hologram varies by > 1e-6 over "
                "the detector with scaling != 0 (real), every mock-pipeline request, every executed history order")
    ctx.clauses_proved = [
        "hologram pixel = |a E + p|^2 over x,y; = |p|^2 + 2a Re<E,p> + a^2 I; >= 0; interference bound",
        "intensity pixel = |E|^2 over x,y = hologram without reference; unchanged by the phase exp(-i k z_c)",
        "to_vector gives a unit vector; scaling 0 gives exactly 1 on every pixel for every field",
        "flatten -> per-point formula -> unflatten puts every value on its own pixel, all grid shapes; C order",
        "point detectors keep order and length; superposition = pointwise sum over any number of components",
        "result attrs = detector attrs with exactly the non-None passed optics replaced; accepted iff wavelength, index, polarisation known",
        "state-free Python layer: responses independent of history / order (partial: see explored)",
        "Q instance executed = R instance proved (holo_px, inten_px, to_vector)"]
    ctx.clauses_explored = [
        "history independence of the compiled solvers (Fortran COMMON/SAVE state): executed orders, bit-for-bit",
        "all results finite, on the detector's coordinates, named like the detector (direct, exact)",
        "scaling 0: identical value on every pixel, within 2e-15 of 1, exactly 1.0 for axis polarisations (float rounding of p/|p|)"]
    ctx.trusted += [
        "oracle: the scattering theories (Fortran mieangfuncs/scsmfo/ampld, MieLens, Lens quadrature) - their calc_field values are fed to the model",
        "oracle: numpy sqrt in to_vector (nrm*nrm = |p|^2 sampled to 4e-15 each run)",
        "oracle: numpy exp(-i k z_c) (cos, sin leaves) and 2*pi/(wavelen/index) in the mock-pipeline stage",
        "xarray stack/unstack/sel/transpose used by the harness to read results by coordinate NAME",
        "interpretation: 'scaling 0 gives exactly 1' is exact over the reals (theorem); in floats p/|p| is rounded, so 1 +- 2e-15"]
    import time
    t = [time.time()]

    def lap(name):
        t.append(time.time())
        ctx.notes.append("stage %s: %.1fs" % (name, t[-1] - t[-2]))
    ctx.clauses_proved.append(
        "source tie: scattered_field_to_hologram, the intensity expression of calc_intensity and the scaled field calc_holo hands "
        "over (xarray vector code read along the 'vector' axis), translated from the current source text on every run, are proved "
        "equal to the model's holo_px / inten_px for every field, polarisation and scaling; scaling 0 => 1 and intensity = hologram "
        "without reference restated for the translated source")
    ctx.trusted.append("translator harness/lib/pyarr.py (a field read as the list of its x, y, z components; .sel(vector=['x','y']) the "
                       "first two of them; .sum(dim=vector) a list fold; np.abs of a complex number sqrt(re^2+im^2); calc_field and finalize "
                       "opaque / pass-through)")
    guarded(ctx, "prove", ctx.prove)
    lap("prove")
    guarded(ctx, "source-tie", stage_srctie, ctx)
    boot.boot()
    _quiet()
    guarded(ctx, "real", stage_real, ctx)
    lap("real")
    guarded(ctx, "mock", stage_mock, ctx)
    lap("mock")
    guarded(ctx, "history", stage_history, ctx)
    lap("history")


def replay(ctx, data):
    """re-run the stored failing request (or history) on the current tree"""
    d = data["data"]
    kind = d.get("kind")
    if kind == "tie":
        ctx.prove()
        stage_srctie(ctx)
        return
    boot.boot()
    _quiet()
    if kind == "real":
        check_real(ctx, [d["spec"]], "C01rp")
    elif kind == "mock":
        check_mock(ctx, [d["spec"]], "C01mp")
    elif kind == "history":
        check_history(ctx, d["specs"], "rp", perms=3, alone=True)
    else:
        print("replay: re-running the whole check with the recorded seed")
        ctx.seed = data.get("seed", ctx.seed)
        run(ctx)
    print("replay: %d violation(s) on the current tree" % len(ctx.violations))


if __name__ == "__main__":
    if len(sys.argv) == 3 and sys.argv[1] == "--history-child":
        job = json.load(open(sys.argv[2]))
        boot.boot()
        _quiet()
        print("DIGESTS " + json.dumps([digest(job["specs"][j]) for j in job["order"]]))
        sys.stdout.flush()

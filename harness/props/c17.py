"""C17 - fft/ifft are inverses; propagation is a norm-bounded linear group action.

Stages
  prove        coq/C17/Props.v (theorems for all lengths / shapes / distances)
  smoke        one propagate() call (a crash here is reported under its own key, later stages skip)
  shift        correspondence, executed in Coq on Q: fft = fftshift2 o F, ifft = Finv o ifftshift2
               (F, Finv = numpy's unshifted transforms, oracle values passed as literals), the 1-D
               branch, ft_coord / ift_coord;  all shapes 2..8 x 2..8 (thorough 2..12)
  shift-labels the same two index permutations observed exactly through integer-labelled spectra on larger
               shapes (up to 64 x 64)
  transfunc    correspondence, evaluated in Coq on R by Coq-Interval: trans_func values against the
               closed real form of the model (clamp, phase, cfsp power, gradient filter)
  propagate    correspondence on Q: propagate / propagate with a list (zero handling, labels, order,
               coordinates, metadata update, MissingParameter) with F / trans_func values as oracles
  explore      the property's own predicates on the implementation (round trip, zero, additivity,
               inverse, linearity, energy, list = stack, coordinates + metadata kept)
"""
import math
from fractions import Fraction

from harness.lib import boot
from harness.lib.coqrun import (qlit, zlit, blit, listlit, eval_files, HEADER, parse_eval_blocks,
                                parse_zlist)
from harness.lib.ctx import guarded

JOBS = 8            # the machine is shared: never more than 8 coqc at once


def run_sharded(tag, requires, exprs, maxbytes=90000, defs=""):
    """like coqrun.run_mismatch_cases, but shards by literal volume (coqc reads ~15 kB/s of rational
    literals, so one file per N cases makes the largest shapes dominate the wall time)"""
    files, cur, size, start, starts = [], [], 0, 0, []
    for i, e in enumerate(exprs):
        if cur and size + len(e) > maxbytes:
            files.append(cur)
            starts.append(start)
            cur, size, start = [], 0, i
        cur.append(e)
        size += len(e)
    if cur:
        files.append(cur)
        starts.append(start)
    texts = []
    for k, part in enumerate(files):
        text = HEADER + requires + "\n" + defs + "\n"
        text += "Definition cases : list bool :=\n " + listlit(["\n  (" + e + ")" for e in part]) + ".\n"
        text += ("Fixpoint bad (i : Z) (l : list bool) : list Z := match l with [] => [] | "
                 "b :: t => if b then bad (i+1) t else i :: bad (i+1) t end.\n")
        text += "Eval vm_compute in (bad %d cases).\n" % starts[k]
        texts.append(("cases_%04d" % k, text))
    # largest first: better packing of the parallel slots
    order = sorted(range(len(texts)), key=lambda k: -len(texts[k][1]))
    res = eval_files(tag, [texts[k] for k in order], jobs=JOBS)
    mism, errors = [], []
    for name, rc, out in res:
        if rc != 0:
            errors.append("%s: rc=%d %s" % (name, rc, out[-1500:]))
            continue
        blocks = parse_eval_blocks(out)
        if not blocks:
            errors.append("%s: no Eval output: %s" % (name, out[-500:]))
            continue
        mism.extend(parse_zlist(blocks[-1].split(":")[0]))
    return sorted(mism), errors, len(texts)

REQ = "From HV Require Import Common.Generic Common.Cmp C17.Model.\nOpen Scope Q_scope.\n"

TOL = 1e-9          # relative to the scale of the data; measured rounding level is < 1e-13


# --- literals ------------------------------------------------------------------

def clit(z):
    z = complex(z)
    return "(%s, %s)" % (qlit(z.real), qlit(z.imag))


def imglit(a):
    return listlit([listlit([clit(z) for z in row]) for row in a])


def optq(x):
    return "None" if x is None else "(Some %s)" % qlit(float(x))


def rlit(x):
    """exact real literal (R_scope) of a float"""
    fr = Fraction(*float(x).as_integer_ratio())
    n, d = fr.numerator, fr.denominator
    if d == 1:
        return "(%d)" % n
    return "(%d / %d)" % (n, d)


def optr(x):
    return "None" if x is None else "(Some %s)" % rlit(x)


# --- generators ----------------------------------------------------------------

SPACINGS = [0.0625, 0.125, 0.1, 0.2, 0.25, 0.3, 0.5, 0.75, 1.0]
MEDIA = [(1.0, 0.5), (1.33, 0.66), (1.25, 0.625), (1.5, 0.405), (1.0, 0.25), (1.33, 0.785)]


def gen_data(seed, shape, cplx):
    import numpy as np
    g = np.random.default_rng(seed)
    a = g.normal(size=shape)
    if cplx:
        a = a + 1j * g.normal(size=shape)
    return a


def mk_image(arr, sx, sy, mi, wl, name="holo", noise=0.125, origin=(0, 0)):
    """image whose first pixel sits at pixel (i0, j0) = origin of a larger detector frame: coordinates
    (i0 + i) * sx, (j0 + j) * sy.  origin != (0, 0): a square even-sized image is cut out of a larger frame
    with the public subimage(); other shapes get the same coordinates through assign_coords."""
    import numpy as np
    from holopy.core.metadata import data_grid
    i0, j0 = int(origin[0]), int(origin[1])
    kw = dict(spacing=(sx, sy), medium_index=mi, illum_wavelen=wl, illum_polarization=(1, 0), noise_sd=noise, name=name)
    arr = np.asarray(arr)
    if (i0, j0) == (0, 0):
        return data_grid(arr, **kw)
    r, c = arr.shape
    if r == c and r % 2 == 0:
        from holopy.core.process import subimage
        full = np.zeros((i0 + r + 1, j0 + c + 2), dtype=arr.dtype)
        full[i0:i0 + r, j0:j0 + c] = arr
        im = subimage(data_grid(full, **kw), [i0 + r // 2, j0 + c // 2], r)
        assert im.sizes['x'] == r and im.sizes['y'] == c and np.array_equal(im.values[0], arr)
        return im
    im = data_grid(arr, **kw)
    return im.assign_coords(x=(np.arange(r) + i0) * sx, y=(np.arange(c) + j0) * sy)


def gen_origin(rng):
    """pixel offset of the image inside its detector frame; half of the images start at the origin"""
    if rng.random() < 0.5:
        return [0, 0]
    return [rng.choice([0, 1, 2, 3, 7, 8, 40]), rng.choice([0, 1, 2, 5, 7, 16, 33])]


def gen_shape(rng, lo=2, hi=9):
    r = rng.randint(lo, hi)
    c = rng.randint(lo, hi) if rng.random() < 0.85 else r
    return r, c


def gen_dist(rng):
    mag = rng.choice([0.015625, 0.25, 1.0, 2.5, 7.0, 10.0, 33.0, 100.0, 2.0 ** -30, 2.0 ** -27])   # incl. distances that are tiny
    #                                                          in absolute terms (lengths in metres): only d == 0 is "no propagation"
    return rng.choice([-1, 1]) * mag * rng.choice([1.0, 1.5, 0.75, 1.0 + 2.0 ** -10])


def xy(r):
    """values of a DataArray as a list of (label, 2-D array in (x, y) order) over z"""
    import numpy as np
    if 'z' in r.dims:
        return [(float(r.z.values[i]), np.asarray(r.isel(z=i).transpose('x', 'y').values)) for i in range(r.sizes['z'])]
    return [(None, np.asarray(r.transpose('x', 'y').values))]


# --- smoke ---------------------------------------------------------------------

def stage_smoke(ctx):
    """one plain propagate call; defect #4 (Dataset.update returns None) made every call raise"""
    import numpy as np
    from holopy import propagate
    im = mk_image(gen_data(1, (4, 5), False), 0.25, 0.25, 1.33, 0.66)
    ctx.explored += 1
    try:
        r = propagate(im, 2.0)
        assert r.sizes['x'] == 4 and r.sizes['y'] == 5
        return True
    except Exception as e:  # noqa
        key = "propagate:raises:%s" % type(e).__name__
        if isinstance(e, TypeError) and "NoneType" in str(e):
            key = "propagate:dataset-update"
        ctx.violation(key, "propagate(image 4x5, d=2.0) raises %s: %s" % (type(e).__name__, str(e)[:200]),
                      dict(kind="smoke", shape=[4, 5], spacing=0.25, medium_index=1.33, illum_wavelen=0.66, d=2.0,
                           data_seed=1, error=repr(e)))
        return False


# --- shift / coordinates (Q) ------------------------------------------------------

LABDEFS = """Definition lgrid (r c : nat) : list (list (Z * Z)) :=
  map (fun i => map (fun j => (i, j)) (zrange_from 0 c)) (zrange_from 0 r).
Definition lab_eqb := list_eqb zpairs_eqb.
"""


def lablit(lab):
    """literal of an r x c grid of integer label pairs"""
    return "(" + listlit([listlit(["(%d, %d)" % (int(p), int(q)) for (p, q) in row]) for row in lab]) + ")%Z"


def round_labels(v, what, ctx, meta):
    """v: complex array that must be an integer-label grid up to rounding.  Returns the labels, or None
    (and a disagreement) when a value is further than 1e-6 from a Gaussian integer."""
    import numpy as np
    re, im = np.rint(v.real), np.rint(v.imag)
    err = float(max(np.abs(v.real - re).max(), np.abs(v.imag - im).max()))
    if not err < 1e-6:
        odd = any(s % 2 for s in meta["shape"])
        ctx.disagree("corr:%s:%s" % (what, "odd" if odd else "even"),
                     "%s of an integer-labelled spectrum is not a permutation of the labels (off by %.3g)" % (what, err),
                     dict(kind="corr-shift", what=what, err=err, **meta))
        return None
    return [[(int(re[i, j]), int(im[i, j])) for j in range(v.shape[1])] for i in range(v.shape[0])]


def stage_shift_labels(ctx):
    """the shift permutation observed black-box on larger shapes: the spectrum is the integer label grid
    L[i, j] = i + 1j * j, so fft(ifft2(L)) = fftshift2(L) and fft2(ifft(L)) = ifftshift2(L) up to rounding;
    the rounded labels are compared EXACTLY with the model's fftshift2 / ifftshift2 of the label grid."""
    import numpy as np
    from holopy.core.process import fft, ifft
    rng = ctx.subrng("shiftlab")
    lo = ctx.n(9, 13)
    shapes = [(n, n) for n in range(lo, ctx.n(17, 33))] + [(n, n + 1) for n in range(lo, ctx.n(17, 33))]
    shapes += [(rng.randint(2, 64), rng.randint(2, 64)) for _ in range(ctx.n(12, 150))]
    shapes += [(64, 64), (2, 64), (63, 2), (33, 32), (17, 64), (63, 63)]
    exprs, metas = [], []
    for k, (r, c) in enumerate(shapes):
        sx, sy = rng.choice(SPACINGS), rng.choice(SPACINGS)
        L = np.arange(r)[:, None] + 1j * np.arange(c)[None, :]
        a = np.fft.ifft2(L)
        meta = dict(case=k, shape=[r, c], spacing=[sx, sy], labelled=True)
        # oracle hypothesis sampled: F (Finv L) = L
        ctx.explored += 1
        if not float(np.abs(np.fft.fft2(a) - L).max()) < 1e-6:
            ctx.violation("oracle:fft2-ifft2", "numpy fft2(ifft2(L)) != L", dict(kind="oracle", **meta))
            continue
        im = mk_image(a, sx, sy, 1.33, 0.66)
        f = fft(im)
        lab = round_labels(np.asarray(f.isel(z=0).transpose('m', 'n').values), "fft", ctx, meta)
        if lab is not None:
            exprs.append("lab_eqb (fft_m (fun _ => lgrid %d %d) []) %s" % (r, c, lablit(lab)))
            metas.append(dict(what="fft", **meta))
        y = f.copy(data=L[None, :, :])
        b = ifft(y)
        bv = np.asarray(b.isel(z=0).transpose('x', 'y').values)
        lab = round_labels(np.fft.fft2(bv), "ifft", ctx, meta)
        if lab is not None:
            exprs.append("lab_eqb (ifft_m (fun y => y) (lgrid %d %d)) %s" % (r, c, lablit(lab)))
            metas.append(dict(what="ifft", **meta))
        ctx.count("shape-parity:%s%s" % ("o" if r % 2 else "e", "o" if c % 2 else "e"))
        ctx.count("labelled-shapes")
        ctx.nontriv(("shape", r, c))
    mism, errors, _ = run_sharded("C17l", REQ, exprs, defs=LABDEFS)
    ctx.corr_cases += len(exprs)
    for e in errors:
        ctx.violation("corr-eval-error", "model evaluation failed: " + e[:300], dict(kind="coq-error", log=e), nofail=True)
    for i in mism:
        m = metas[i]
        odd = any(s % 2 for s in m["shape"])
        ctx.disagree("corr:%s:%s" % (m["what"], "odd" if odd else "even"),
                     "model and implementation disagree on the %s index permutation for shape %s" % (m["what"], m["shape"]),
                     dict(kind="corr-shift", **m))


def stage_shift(ctx):
    import numpy as np
    from holopy.core.process import fft, ifft
    rng = ctx.subrng("shift")
    hi = ctx.n(8, 12)
    shapes = [(r, c) for r in range(2, hi + 1) for c in range(2, hi + 1)]
    exprs, metas = [], []
    for k, (r, c) in enumerate(shapes):
        cplx = rng.random() < 0.6
        seed = rng.randrange(1 << 30)
        sx, sy = rng.choice(SPACINGS), rng.choice(SPACINGS)
        a = gen_data(seed, (r, c), cplx)
        im = mk_image(a, sx, sy, 1.33, 0.66)
        scale = float(np.abs(a).max()) * r * c
        tol = qlit(Fraction(TOL) * Fraction(scale))
        # fft: implementation vs fftshift2 (numpy.fft.fft2 value)
        f = fft(im)
        fv = np.asarray(f.isel(z=0).transpose('m', 'n').values)
        Fa = np.fft.fft2(a)
        meta = dict(case=k, shape=[r, c], spacing=[sx, sy], complex=cplx, data_seed=seed)
        exprs.append("img_close %s (fft_m (fun _ => %s) []) %s" % (tol, imglit(Fa), imglit(fv)))
        metas.append(dict(what="fft", **meta))
        # ifft on an arbitrary frequency-domain image y (not a transform of anything):
        # F (ifft y) must be ifftshift2 y
        y = f.copy(data=gen_data(seed + 1, (1, r, c), True))
        b = ifft(y)
        bv = np.asarray(b.isel(z=0).transpose('x', 'y').values)
        yv = np.asarray(y.isel(z=0).transpose('m', 'n').values)
        tol1 = qlit(Fraction(TOL) * Fraction(float(np.abs(yv).max())))
        exprs.append("img_close %s (ifft_m (fun y => y) %s) %s" % (tol1, imglit(yv), imglit(np.fft.fft2(bv))))
        metas.append(dict(what="ifft", **meta))
        # coordinates
        ctol = qlit(Fraction(TOL) * Fraction(max(1.0, 1 / min(sx, sy))))
        xs, ys = [float(v) for v in im.x.values], [float(v) for v in im.y.values]
        exprs.append("qlist_absclose %s (ft_coord QO %s) %s && qlist_absclose %s (ft_coord QO %s) %s" % (
            ctol, listlit([qlit(v) for v in xs]), listlit([qlit(float(v)) for v in f.m.values]),
            ctol, listlit([qlit(v) for v in ys]), listlit([qlit(float(v)) for v in f.n.values])))
        metas.append(dict(what="ft_coord", impl_m=[float(v) for v in f.m.values], **meta))
        exprs.append("qlist_absclose %s (ift_coord QO %s) %s && qlist_absclose %s (ift_coord QO %s) %s" % (
            ctol, listlit([qlit(float(v)) for v in f.m.values]), listlit([qlit(float(v)) for v in b.x.values]),
            ctol, listlit([qlit(float(v)) for v in f.n.values]), listlit([qlit(float(v)) for v in b.y.values])))
        metas.append(dict(what="ift_coord", impl_x=[float(v) for v in b.x.values], **meta))
        ctx.count("shape-parity:%s%s" % ("o" if r % 2 else "e", "o" if c % 2 else "e"))
        ctx.count("square" if r == c else "non-square")
        ctx.nontriv(("shape", r, c))
        if k < 2:
            ctx.sample(dict(shape=[r, c], spacing=[sx, sy], m=[float(v) for v in f.m.values]))
    # 1-D branch (plain numpy vectors)
    for n in range(1, ctx.n(14, 40)):
        v = gen_data(1000 + n, (n,), True)
        f1 = np.asarray(fft(v))
        tol = qlit(Fraction(TOL) * Fraction(float(np.abs(v).max()) * n))
        exprs.append("list_all2 (cclose %s) (fftshift1 %s) %s" % (
            tol, listlit([clit(z) for z in np.fft.fft(v)]), listlit([clit(z) for z in f1])))
        metas.append(dict(what="fft1d", shape=[n], data_seed=1000 + n))
        b1 = np.asarray(ifft(v))
        exprs.append("list_all2 (cclose %s) (ifftshift1 %s) %s" % (
            tol, listlit([clit(z) for z in v]), listlit([clit(z) for z in np.fft.fft(b1)])))
        metas.append(dict(what="ifft1d", shape=[n], data_seed=1000 + n))
        ctx.count("1d")
    mism, errors, _ = run_sharded("C17s", REQ, exprs)
    ctx.corr_cases += len(exprs)
    for e in errors:
        ctx.violation("corr-eval-error", "model evaluation failed: " + e[:300], dict(kind="coq-error", log=e), nofail=True)
    for i in mism:
        m = metas[i]
        odd = any(s % 2 for s in m["shape"])
        ctx.disagree("corr:%s:%s" % (m["what"], "odd" if odd else "even"),
                     "model and implementation disagree on %s for shape %s" % (m["what"], m["shape"]),
                     dict(kind="corr-shift", **m))


# --- trans_func (R, Coq-Interval) ---------------------------------------------------

IHEAD = """From Coq Require Import ZArith Reals List Lra.
From Interval Require Import Tactic.
From HV Require Import Common.Generic C17.Model.
Import ListNotations.
Open Scope R_scope.
Ltac c17_unfold := cbv [GptR G1R cpow cmul csub c1 fst snd RO add mul sub opp zero one
                        Z.of_nat Pos.of_succ_nat Pos.succ].
(* branch selection of the clamp (Rmax 0 root): by the sign of the root, decided by lra / interval *)
Lemma phaseR_pos lam d m n : 0 <= 1 - (lam * n) * (lam * n) - (lam * m) * (lam * m) ->
  phaseR lam d m n = 2 * PI * d / lam * sqrt (1 - (lam * n) * (lam * n) - (lam * m) * (lam * m)).
Proof. intros H. unfold phaseR. rewrite Rmax_right by exact H. reflexivity. Qed.
Lemma phaseR_neg lam d m n : 1 - (lam * n) * (lam * n) - (lam * m) * (lam * m) <= 0 -> phaseR lam d m n = 0.
Proof. intros H. unfold phaseR. rewrite Rmax_left by exact H. rewrite sqrt_0. ring. Qed.
Ltac c17_pos := c17_unfold; rewrite !phaseR_pos by (first [lra | interval with (i_prec 60)]); split; interval with (i_prec 60).
Ltac c17_neg := c17_unfold; rewrite !phaseR_neg by (first [lra | interval with (i_prec 60)]); split; interval with (i_prec 60).
"""


def stage_transfunc(ctx):
    import numpy as np
    from holopy.propagation.convolution_propagation import trans_func
    rng = ctx.subrng("trans")
    goals, metas, tacs = [], [], []
    ncases = ctx.n(14, 120)
    skipped = 0
    for k in range(ncases):
        big = rng.random() < 0.2
        r, c = gen_shape(rng, 2, 6) if not big else (rng.randint(7, 64), rng.randint(7, 64))
        sx, sy = rng.choice(SPACINGS), rng.choice(SPACINGS)
        mi, wl = rng.choice(MEDIA)
        lam = wl / mi
        if rng.random() < 0.25:
            # exactly representable boundary: lam * n_max = 1 at the edge, m = 0 at the centre (odd)
            lam, sx, sy = 0.5, rng.choice([0.25, 0.5]), 0.25
        d = gen_dist(rng)
        cfsp = rng.choice([0, 0, 1, 2, 3])
        gf = rng.choice([None, None, 0.25, lam, -0.125])
        org = gen_origin(rng)
        im = mk_image(np.zeros((r, c)), sx, sy, mi, wl, origin=org)
        G = trans_func(im, d, lam, cfsp=cfsp, gradient_filter=(gf if gf is not None else 0))
        Gv = np.asarray(G.isel(z=0).transpose('m', 'n').values)
        ms, ns = [float(v) for v in G.m.values], [float(v) for v in G.n.values]
        pts = [(i, j) for i in range(r) for j in range(c)]
        if len(pts) > 12:
            corner = [(0, 0), (0, c - 1), (r - 1, 0), (r - 1, c - 1), (r // 2, c // 2), (r // 2, 0), (0, c // 2)]
            pts = corner + [(rng.randrange(r), rng.randrange(c)) for _ in range(5)]
        nev = 0
        for (i, j) in pts:
            root = 1 - (Fraction(lam) * Fraction(ns[j])) ** 2 - (Fraction(lam) * Fraction(ms[i])) ** 2
            if root != 0 and abs(root) < Fraction(1, 10 ** 6):
                skipped += 1      # sqrt near 0 is ill-conditioned: excluded by the generator, counted
                continue
            if root < 0:
                nev += 1
            if root == 0:
                ctx.count("trans:root-exactly-0")
            g = complex(Gv[i, j])
            call = "GptR %s %d%%nat %s %s %s %s" % (rlit(lam), cfsp, optr(gf), rlit(d), rlit(ms[i]), rlit(ns[j]))
            goals.append("Rabs (fst (%s) - %s) <= 1e-9 /\\ Rabs (snd (%s) - %s) <= 1e-9" % (
                call, rlit(g.real), call, rlit(g.imag)))
            tacs.append("c17_neg" if root < 0 else "c17_pos")
            metas.append(dict(case=k, shape=[r, c], spacing=[sx, sy], origin=org, med_wavelen=lam, d=d, cfsp=cfsp,
                              gradient_filter=gf, m=ms[i], n=ns[j], impl=[g.real, g.imag], evanescent=bool(root < 0)))
        ctx.count("trans:cfsp=%d" % cfsp)
        ctx.count("trans:gf" if gf is not None else "trans:plain")
        ctx.count("trans:evanescent-points", nev)
        ctx.nontriv(("trans", k, nev > 0))
    ctx.count("trans:skipped-near-boundary", skipped)
    chunk = 12
    files = []
    for s in range(0, len(goals), chunk):
        text = IHEAD
        for q, g in enumerate(goals[s:s + chunk]):
            text += ("Goal True. first [ assert (%s) by (%s); "
                     "idtac \"C17OK %d\" | idtac \"C17BAD %d\" ]. exact I. Qed.\n" % (g, tacs[s + q], s + q, s + q))
        files.append(("tf_%04d" % (s // chunk), text))
    res = eval_files("C17t", files, jobs=JOBS)
    ctx.corr_cases += len(goals)
    seen = set()
    for name, rc, out in res:
        if rc != 0:
            ctx.violation("corr-eval-error", "interval evaluation failed: %s %s" % (name, out[-300:]),
                          dict(kind="coq-error", log=out[-2000:]), nofail=True)
            continue
        for line in out.split("\n"):
            if line.startswith("C17OK "):
                seen.add(int(line.split()[1]))
            elif line.startswith("C17BAD "):
                i = int(line.split()[1])
                seen.add(i)
                m = metas[i]
                opt = ("cfsp" if m["cfsp"] else "") + ("gf" if m["gradient_filter"] is not None else "") or "plain"
                ctx.disagree("corr:trans_func:%s:%s" % (opt, "evanescent" if m["evanescent"] else "propagating"),
                             "trans_func value differs from the model (closed real form, interval-evaluated)",
                             dict(kind="corr-trans", **m))
    if len(seen) != len(goals):
        ctx.violation("corr-eval-error", "interval run returned %d of %d verdicts" % (len(seen), len(goals)),
                      dict(kind="coq-error"), nofail=True)


# --- propagate (Q) --------------------------------------------------------------------

def stage_propagate(ctx):
    import numpy as np
    from holopy import propagate
    from holopy.propagation.convolution_propagation import trans_func
    from holopy.scattering.errors import MissingParameter
    rng = ctx.subrng("prop")
    exprs, metas = [], []
    prev = None
    for k in range(ctx.n(60, 400)):
        twin = prev is not None and k % 4 == 3
        if twin:
            # the next image on the SAME grid, propagated by the SAME distances with the same options, but recorded at another
            # wavelength / in another medium (stored in its metadata, no keyword arguments): a second colour channel, or the
            # next sample on the same camera
            r, c, sx, sy, cplx, org, cfsp, gf, islist, ds, darg, pmi, pwl = prev
            # one-factor siblings two times out of three: only the medium index, or only the vacuum wavelength, differs
            # from the previous image (a cache of transfer functions keyed without one of them serves the stale one)
            var = (k // 4) % 3
            if var == 0:
                mi0, wl0 = rng.choice([m for m in (1.0, 1.25, 1.33, 1.5) if m != pmi]), pwl
                ctx.count("prop:twin:only-medium-index-differs")
            elif var == 1:
                mi0, wl0 = pmi, rng.choice([w for w in (0.405, 0.5, 0.625, 0.66) if w != pwl])
                ctx.count("prop:twin:only-wavelength-differs")
            else:
                mi0, wl0 = rng.choice(MEDIA)
            seed = rng.randrange(1 << 30)
            a = gen_data(seed, (r, c), cplx)
            mode, mi_arg, wl_arg, mi_im, wl_im = "stored", None, None, mi0, wl0
            im = mk_image(a, sx, sy, mi_im, wl_im, origin=org)
            ctx.count("prop:twin-on-same-grid")
        else:
            r, c = gen_shape(rng, 2, 8 if rng.random() < 0.9 else 20)
            sx, sy = rng.choice(SPACINGS), rng.choice(SPACINGS)
            mi0, wl0 = rng.choice(MEDIA)
            cplx = rng.random() < 0.5
            seed = rng.randrange(1 << 30)
            a = gen_data(seed, (r, c), cplx)
            # metadata: stored in the image, overridden by arguments, or missing
            mode = rng.choice(["stored", "stored", "stored", "override", "arg-only", "missing"])
            mi_arg = wl_arg = None
            mi_im, wl_im = mi0, wl0
            if mode == "override":
                mi_arg, wl_arg = rng.choice(MEDIA)
                if rng.random() < 0.5:
                    wl_arg = None
            elif mode == "arg-only":
                mi_im = wl_im = None
                mi_arg, wl_arg = mi0, wl0
            elif mode == "missing":
                if rng.random() < 0.5:
                    mi_im = None
                else:
                    wl_im = None
            org = gen_origin(rng)
            im = mk_image(a, sx, sy, mi_im, wl_im, origin=org)
            ctx.count("prop:origin:%s" % ("zero" if org == [0, 0] else "offset"))
            cfsp = rng.choice([0, 0, 0, 1, 2, 3])
            gf = rng.choice([None, None, None, 0.25, -0.5])
            islist = rng.random() < 0.5
            if islist:
                ds = [gen_dist(rng) for _ in range(rng.choice([1, 2, 3]))]
                ds = list(dict.fromkeys(ds))
                nzero = rng.choice([0, 0, 1, 1, 2])
                for _ in range(nzero):
                    ds.insert(rng.randrange(len(ds) + 1), 0.0)
                darg = ds
            else:
                ds = [gen_dist(rng) if rng.random() < 0.9 else 0.0]
                darg = ds[0]
        prev = (r, c, sx, sy, cplx, org, cfsp, gf, islist, ds, darg, mi_im, wl_im) if mode == "stored" else prev
        meta = dict(case=k, shape=[r, c], spacing=[sx, sy], origin=org, data_seed=seed, complex=cplx, d=darg, cfsp=cfsp,
                    gradient_filter=gf, image_meta=[mi_im, wl_im], arg_meta=[mi_arg, wl_arg], mode=mode)
        try:
            res = propagate(im, darg, medium_index=mi_arg, illum_wavelen=wl_arg, cfsp=cfsp,
                            gradient_filter=(gf if gf is not None else False))
            got = "ok"
        except MissingParameter:
            got = "missing"
        ctx.count("prop:%s:%s" % ("list" if islist else "scalar", mode))
        ctx.count("prop:outcome:" + got)
        mi_eff = mi_arg if mi_arg is not None else mi_im
        wl_eff = wl_arg if wl_arg is not None else wl_im
        xs, ys = [float(v) for v in im.x.values], [float(v) for v in im.y.values]
        Fa = np.fft.fft2(a)
        tab = []
        nz = [d for d in ds if d != 0]
        if mi_eff is not None and wl_eff is not None and nz:
            lam = wl_eff / mi_eff
            G = trans_func(im, nz if islist else nz[0], lam, cfsp=cfsp, gradient_filter=(gf if gf is not None else 0))
            for i, d in enumerate(nz):
                tab.append("(%s, %s)" % (qlit(d), imglit(np.asarray(G.isel(z=i).transpose('m', 'n').values))))
        imlit = "(%s, %s, %s, (%s, %s, tt))" % (listlit([qlit(v) for v in xs]), listlit([qlit(v) for v in ys]),
                                                  imglit(a), optq(mi_im), optq(wl_im))
        common = "QO (fun _ => %s) (fun y => y) (fun _ _ _ _ _ d => lookup %s d)" % (imglit(Fa), listlit(tab))
        opts = "%s %s %d%%nat %s" % (optq(mi_arg), optq(wl_arg), cfsp, optq(gf))
        scale = float(np.abs(a).max()) * r * c * (8 if gf is not None else 1)
        tol = qlit(Fraction(TOL) * Fraction(scale))
        if got == "missing":
            if islist:
                e = "match propagate_list %s %s 0 %s %s with None => true | Some _ => false end" % (
                    common, imlit, listlit([qlit(d) for d in ds]), opts)
            else:
                e = "match propagate %s %s %s %s with None => true | Some _ => false end" % (common, imlit, qlit(ds[0]), opts)
        else:
            sl = xy(res)
            rx, ry = [float(v) for v in res.x.values], [float(v) for v in res.y.values]
            rmi, rwl = res.attrs.get("medium_index"), res.attrs.get("illum_wavelen")
            rmi = None if rmi is None else float(rmi)
            rwl = None if rwl is None else float(rwl)
            metaeq = ("option_eqb Qeq_bool mi' %s && option_eqb Qeq_bool wl' %s" % (optq(rmi), optq(rwl)))
            coordeq = "qlist_eqb xs' %s && qlist_eqb ys' %s" % (listlit([qlit(v) for v in rx]), listlit([qlit(v) for v in ry]))
            if islist:
                # zero-labelled slice is the input itself (compared raw); others in the F domain
                exp = listlit(["(%s, %s)" % (qlit(lab), imglit(v if lab == 0 else np.fft.fft2(v))) for lab, v in sl])
                e = ("match propagate_list %s %s 0 %s %s with None => false | Some (xs', ys', sl, (mi', wl', _)) => "
                     "%s && %s && list_all2 (fun a b => Qeq_bool (fst a) (fst b) && img_close %s (snd a) (snd b)) sl %s end" % (
                         common, imlit, listlit([qlit(d) for d in ds]), opts, coordeq, metaeq, tol, exp))
                ctx.nontriv(("list", len(ds), 0.0 in ds, ds.index(0.0) if 0.0 in ds else -1))
            else:
                v = sl[0][1]
                raw = (ds[0] == 0)
                e = ("match propagate %s %s %s %s with None => false | Some (xs', ys', v', (mi', wl', _)) => "
                     "%s && %s && img_close %s v' %s end" % (
                         common, imlit, qlit(ds[0]), opts, coordeq, metaeq, tol, imglit(v if raw else np.fft.fft2(v))))
                ctx.nontriv(("scalar", r % 2, c % 2, r == c, ds[0] > 0, cfsp, gf is not None))
        exprs.append(e)
        metas.append(dict(outcome=got, **meta))
        if k < 2:
            ctx.sample(meta)
    mism, errors, _ = run_sharded("C17p", REQ, exprs)
    ctx.corr_cases += len(exprs)
    for e in errors:
        ctx.violation("corr-eval-error", "model evaluation failed: " + e[:300], dict(kind="coq-error", log=e), nofail=True)
    for i in mism:
        m = metas[i]
        cls = "list" if isinstance(m["d"], list) else "scalar"
        if isinstance(m["d"], list) and 0.0 in m["d"]:
            cls = "list-with-zero"
        opt = ("cfsp" if m["cfsp"] else "") + ("gf" if m["gradient_filter"] is not None else "") or "plain"
        ctx.disagree("corr:propagate:%s:%s:%s" % (cls, opt, m["mode"] if m["mode"] in ("missing", "override") else "meta"),
                     "model and implementation disagree on propagate (%s distances, %s)" % (cls, m["mode"]),
                     dict(kind="corr-propagate", **m))


# --- direct exploration of the property on the implementation -----------------------------

def _relerr(a, b, scale):
    import numpy as np
    return float(np.abs(np.asarray(a) - np.asarray(b)).max()) / scale


def explore_roundtrip(ctx):
    import numpy as np
    from holopy.core.process import fft, ifft
    rng = ctx.subrng("rt")
    hi = ctx.n(12, 24)
    shapes = [(r, c) for r in range(2, hi + 1) for c in range(2, hi + 1)]
    shapes += [(rng.randint(hi + 1, 64), rng.randint(hi + 1, 64)) for _ in range(ctx.n(10, 60))] + [(64, 64), (63, 64), (2, 63)]
    for (r, c) in shapes:
        seed = rng.randrange(1 << 30)
        cplx = rng.random() < 0.5
        sx, sy = rng.choice(SPACINGS), rng.choice(SPACINGS)
        a = gen_data(seed, (r, c), cplx)
        im = mk_image(a, sx, sy, 1.33, 0.66, name="img")
        b = ifft(fft(im))
        ctx.explored += 1
        err = _relerr(b.transpose('z', 'x', 'y').values, im.values, float(np.abs(a).max()))
        odd = (r % 2 or c % 2)
        data = dict(kind="roundtrip", shape=[r, c], spacing=[sx, sy], complex=cplx, data_seed=seed)
        if not err < 1e-10:
            ctx.violation("ifft:odd-shape" if odd else "ifft:even-shape",
                          "ifft(fft(x)) != x for a %dx%d image (relative error %.3g)" % (r, c, err), dict(err=err, **data))
        cerr = max(float(np.abs(b.x.values - im.x.values).max()), float(np.abs(b.y.values - im.y.values).max()))
        if not cerr < 1e-10 * max(1.0, r * sx, c * sy) or b.dims != im.dims:
            ctx.violation("ifft:coords", "ifft(fft(x)) does not return the pixel coordinates of x (%dx%d)" % (r, c),
                          dict(coord_err=cerr, dims=list(b.dims), **data))
        if b.name != im.name or set(b.attrs) != set(im.attrs) or b.attrs["medium_index"] != 1.33:
            ctx.violation("ifft:metadata", "ifft(fft(x)) lost name/attrs", data)
        # the hypotheses the theorems put on the oracle pair, sampled on numpy itself
        a2 = gen_data(seed + 3, (r, c), True)
        Fa, Fa2 = np.fft.fft2(a), np.fft.fft2(a2)
        sc = float(np.abs(a).max() + np.abs(a2).max()) * r * c
        k1, k2 = complex(0.5, -1.25), complex(-2.0, 0.75)
        e0 = float((np.abs(a) ** 2).sum())
        okh = (_relerr(np.fft.ifft2(Fa), a, sc) < 1e-12 and _relerr(np.fft.fft2(np.fft.ifft2(a2)), a2, sc) < 1e-12
               and _relerr(np.fft.fft2(k1 * a + k2 * a2), k1 * Fa + k2 * Fa2, sc * 4) < 1e-12
               and abs(float((np.abs(Fa) ** 2).sum()) - r * c * e0) <= 1e-10 * r * c * e0
               and abs(r * c * float((np.abs(np.fft.ifft2(a2)) ** 2).sum()) - float((np.abs(a2) ** 2).sum()))
               <= 1e-10 * float((np.abs(a2) ** 2).sum()) and Fa.shape == a.shape)
        ctx.count("oracle-hypotheses-sampled")
        if not okh:
            ctx.violation("oracle:fft2-hypotheses", "numpy fft2/ifft2 violate inverse / linear / Parseval / shape hypotheses "
                          "for shape %dx%d" % (r, c), data)
    # 1-D
    for n in range(1, ctx.n(40, 130)):
        v = gen_data(n, (n,), True)
        ctx.explored += 1
        err = _relerr(ifft(fft(v)), v, float(np.abs(v).max()))
        if not err < 1e-10:
            ctx.violation("ifft:odd-shape" if n % 2 else "ifft:even-shape",
                          "1-D ifft(fft(x)) != x for length %d (relative error %.3g)" % (n, err),
                          dict(kind="roundtrip1d", n=n, data_seed=n, err=err))


def explore_deep_stacks(ctx):
    """reconstruction volumes of realistic size (pixels x distances beyond a million): the slice of a stack at distance d
    equals the single-distance result, for the plain propagator, cascaded free-space propagation and the gradient filter"""
    import numpy as np
    from holopy import propagate
    rng = ctx.subrng("deep")
    for k in range(ctx.n(3, 10)):
        n, nd = rng.choice([(64, 300), (96, 130), (128, 70), (48, 520)])
        cfsp = rng.choice([0, 0, 2])
        gf = [0.25, False, -0.5, 0.125][k % 4]
        sx = rng.choice(SPACINGS)
        mi, wl = rng.choice(MEDIA)
        seed = rng.randrange(1 << 30)
        a = gen_data(seed, (n, n), False)
        im = mk_image(a, sx, sx, mi, wl)
        ds = sorted(set(round(rng.uniform(-30, 60), 3) for _ in range(nd)) - {0.0})
        stack = propagate(im, ds, cfsp=cfsp, gradient_filter=gf)
        pick = rng.sample(range(len(ds)), 3)
        scale = float(np.abs(a).max()) * (8 if gf else 1)
        worst = 0.0
        for i in pick:
            one = propagate(im, ds[i], cfsp=cfsp, gradient_filter=gf)
            sl = stack.isel(z=i)
            err = _relerr(np.asarray(sl.transpose('x', 'y').values), np.asarray(one.squeeze().transpose('x', 'y').values), scale)
            worst = max(worst, err)
        ctx.explored += 1
        ctx.count("deep-stack:%dx%dx%d" % (n, n, len(ds)))
        ctx.nontriv(("deep", n, len(ds), cfsp, bool(gf)))
        if not worst < 1e-10 or [float(z) for z in stack.z.values] != [float(d) for d in ds]:
            ctx.violation("stack:deep:%s" % (("cfsp" if cfsp else "") + ("gf" if gf else "") or "plain"),
                          "a slice of a %d-distance reconstruction of a %dx%d image differs from the single-distance reconstruction "
                          "(relative %.3g; cfsp=%d, gradient_filter=%r)" % (len(ds), n, n, worst, cfsp, gf),
                          dict(kind="deep-stack", shape=[n, n], spacing=sx, medium=[mi, wl], data_seed=seed, distances=ds,
                               picked=pick, cfsp=cfsp, gradient_filter=gf, err=worst))


def gen_prop_case(rng, maxn):
    r, c = gen_shape(rng, 2, maxn)
    if rng.random() < 0.15:
        r, c = rng.randint(2, 64), rng.randint(2, 64)
    mi, wl = rng.choice(MEDIA)
    lam = wl / mi
    sx = rng.choice(SPACINGS + [lam / 2, lam / 2 * (1 + 2.0 ** -20), lam / 2 * (1 - 2.0 ** -20), lam])
    sy = sx if rng.random() < 0.6 else rng.choice(SPACINGS)
    return dict(shape=[r, c], spacing=[sx, sy], medium_index=mi, illum_wavelen=wl, complex=rng.random() < 0.5,
                data_seed=rng.randrange(1 << 30), cfsp=rng.choice([0, 0, 0, 1, 2, 4]),
                gradient_filter=rng.choice([None, None, None, 0.25, lam]),
                d1=gen_dist(rng), d2=gen_dist(rng), origin=gen_origin(rng))


def has_evanescent(case):
    lam = Fraction(case["illum_wavelen"]) / Fraction(case["medium_index"])
    sx, sy = Fraction(case["spacing"][0]), Fraction(case["spacing"][1])
    return lam * lam * (1 / (4 * sx * sx) + 1 / (4 * sy * sy)) > 1 - Fraction(1, 10 ** 9)


def check_prop_case(ctx, case):
    """evaluate every clause of the property on one generated configuration"""
    import numpy as np
    from holopy import propagate
    r, c = case["shape"]
    sx, sy = case["spacing"]
    a = gen_data(case["data_seed"], (r, c), case["complex"])
    a2 = gen_data(case["data_seed"] + 7, (r, c), case["complex"])
    org = case.get("origin", [0, 0])
    im = mk_image(a, sx, sy, case["medium_index"], case["illum_wavelen"], name="holo", origin=org)
    im2 = mk_image(a2, sx, sy, case["medium_index"], case["illum_wavelen"], name="holo", origin=org)
    kw = dict(cfsp=case["cfsp"], gradient_filter=(case["gradient_filter"] if case["gradient_filter"] is not None else False))
    plain = case["gradient_filter"] is None
    d1, d2 = case["d1"], case["d2"]
    scale = float(np.abs(a).max()) + float(np.abs(a2).max())
    opt = ("cfsp" if case["cfsp"] else "") + ("gf" if not plain else "") or "plain"
    par = "odd" if (r % 2 or c % 2) else "even"
    tol = 1e-9

    def P(x, d, **k):
        res = propagate(x, d, **k)
        return res, xy(res)

    def bad(clause, what, **extra):
        ctx.violation("%s:%s:%s%s" % (clause, opt, par, "" if list(org) == [0, 0] else ":offset-origin"), what,
                      dict(kind="explore", clause=clause, **case, **extra))

    ctx.explored += 1
    # zero
    z = propagate(im, 0, **kw)
    if not np.array_equal(z.values, im.values) or not np.array_equal(z.x.values, im.x.values):
        bad("zero", "propagate(x, 0) is not x")
    z2, z2v = P(im, [0.0], **kw)
    if not np.array_equal(z2v[0][1], a):
        bad("zero", "propagate(x, [0]) is not x")
    # single propagations
    r1, v1 = P(im, d1, **kw)
    # coordinates and metadata kept
    if not (np.array_equal(r1.x.values, im.x.values) and np.array_equal(r1.y.values, im.y.values)):
        bad("coords", "propagate changed the pixel coordinates")
    if [float(v) for v in r1.z.values] != [d1]:
        bad("coords", "z label of the result is not the distance", z=[float(v) for v in r1.z.values])
    if (r1.name != im.name or set(r1.attrs) != set(im.attrs) or r1.attrs["medium_index"] != im.attrs["medium_index"]
            or r1.attrs["illum_wavelen"] != im.attrs["illum_wavelen"] or r1.attrs["noise_sd"] != im.attrs["noise_sd"]
            or not np.array_equal(np.asarray(r1.attrs["illum_polarization"]), np.asarray(im.attrs["illum_polarization"]))):
        bad("metadata", "propagate changed name / attrs")
    if not np.array_equal(im.values[0], a):
        bad("metadata", "propagate modified its input")
    # energy (plain transfer function only: |G| <= 1; the gradient filter is a difference of two)
    if plain:
        e0, e1 = float((np.abs(a) ** 2).sum()), float((np.abs(v1[0][1]) ** 2).sum())
        if not e1 <= e0 * (1 + 1e-10):
            bad("energy", "propagation increased the total energy: %.17g -> %.17g" % (e0, e1), e0=e0, e1=e1)
    else:
        # gradient filter = difference of two plain propagations
        kk = dict(cfsp=case["cfsp"])
        if case["cfsp"] == 0:
            ref = P(im, d1, **kk)[1][0][1] - P(im, d1 + case["gradient_filter"], **kk)[1][0][1]
            err = _relerr(v1[0][1], ref, scale)
            if not err < tol:
                bad("gradient", "gradient-filtered result is not propagate(d) - propagate(d + g) (%.3g)" % err, err=err)
    # additivity: d1 then d2 == d1 + d2   (plain G only: (G(d1)-G(d1+g))(G(d2)-G(d2+g)) is not additive)
    if plain and d1 + d2 != 0:
        r12, v12 = P(r1, d2, **kw)
        rs, vs = P(im, d1 + d2, **kw)
        err = _relerr(v12[0][1], vs[0][1], scale)
        ctx.count("explore:additive")
        if not err < tol:
            bad("additive", "propagate by d1 then d2 != propagate by d1+d2 (relative error %.3g)" % err, err=err)
    # inverse: d then -d, demanded when no spatial frequency is evanescent
    if plain:
        rb, vb = P(r1, -d1, **kw)
        err = _relerr(vb[0][1], a, scale)
        if has_evanescent(case):
            ctx.count("explore:inverse:evanescent-regime:%s" % ("holds" if err < tol else "fails(not demanded)"))
        else:
            ctx.count("explore:inverse:coarse")
            if not err < tol:
                bad("inverse", "propagate by d then -d != input although no frequency is evanescent (%.3g)" % err, err=err)
    # cfsp: cascaded == direct
    if case["cfsp"] and plain:
        rd, vd = P(im, d1)
        err = _relerr(v1[0][1], vd[0][1], scale)
        if not err < tol:
            bad("cfsp", "cascaded propagation differs from direct propagation (%.3g)" % err, err=err)
    # linearity
    al, be = complex(0.5, -1.25), complex(-2.0, 0.75)
    if not case["complex"]:
        al, be = 0.5, -2.0
    imc = im.copy(data=al * im.values + be * im2.values)
    rc_, vc = P(imc, d1, **kw)
    r2, v2 = P(im2, d1, **kw)
    err = _relerr(vc[0][1], al * v1[0][1] + be * v2[0][1], scale * 4)
    if not err < tol:
        bad("linear", "propagate(a x + b y) != a propagate(x) + b propagate(y) (%.3g)" % err, err=err)
    # list = stack of singles (with zero at a random position)
    ds = [d1, d2] if d1 != d2 else [d1]
    pos = case["data_seed"] % (len(ds) + 2)
    if pos <= len(ds):
        ds = ds[:pos] + [0.0] + ds[pos:]
    rl, vl = P(im, ds, **kw)
    labels = [lab for lab, _ in vl]
    if sorted(labels) != sorted(ds):
        bad("stack", "z labels of the stack %s are not the requested distances %s" % (labels, ds), labels=labels, ds=ds)
    else:
        for lab, v in vl:
            ref = a if lab == 0 else (v1[0][1] if lab == d1 else P(im, lab, **kw)[1][0][1])
            err = _relerr(v, ref, scale)
            if not err < 1e-12:
                bad("stack", "slice z=%r of propagate(x, list) differs from propagate(x, %r) (%.3g)" % (lab, lab, err),
                    label=lab, ds=ds, err=err)
    if not (np.array_equal(rl.x.values, im.x.values) and np.array_equal(rl.y.values, im.y.values)) or rl.name != im.name \
            or set(rl.attrs) != set(im.attrs):
        bad("metadata", "propagate(x, list) changed coordinates / name / attrs", ds=ds)
    ctx.count("explore:%s:%s" % (opt, par))
    ctx.count("explore:origin:%s" % ("zero" if list(org) == [0, 0] else "offset"))
    ctx.count("explore:sampling:%s" % ("fine(evanescent)" if has_evanescent(case) else "coarse"))
    ctx.nontriv(("explore", r, c, opt, has_evanescent(case), d1 > 0))


def explore_propagate(ctx):
    rng = ctx.subrng("explore")
    for k in range(ctx.n(150, 1500)):
        case = gen_prop_case(rng, 12)
        check_prop_case(ctx, case)
    # exhaustive small shapes, one configuration each
    hi = ctx.n(7, 12)
    for r in range(2, hi + 1):
        for c in range(2, hi + 1):
            case = gen_prop_case(rng, 4)
            case["shape"] = [r, c]
            check_prop_case(ctx, case)


def timed(ctx, tag, fn, *a):
    import time
    t = time.time()
    r = guarded(ctx, tag, fn, *a)
    ctx.notes.append("stage %s: %.1f s" % (tag, time.time() - t))
    return r


FOURIER_PY = "holopy/core/process/fourier.py"
PROP_PY = "holopy/propagation/convolution_propagation.py"


def _src_items():
    from harness.lib import pysrc, pycx
    op = {"get_spacing(c)": "sp", "len(c)": "dim"}
    return [
        dict(file=FOURIER_PY, qualname="ft_coord", name="ft_coord_src",
             fn=lambda repo: pysrc.translate(repo, FOURIER_PY, "ft_coord", "ft_coord_src", [("c", "obj")], "list R", opaque_exprs=op)),
        dict(file=FOURIER_PY, qualname="ift_coord", name="ift_coord_src",
             fn=lambda repo: pysrc.translate(repo, FOURIER_PY, "ift_coord", "ift_coord_src", [("c", "obj")], "list R", opaque_exprs=op)),
        dict(file=PROP_PY, qualname="(header)", name="cpow_src", fn=lambda repo: pycx.HEADER),
        dict(file=PROP_PY, qualname="trans_func", name="trans_func_src",
             fn=lambda repo: pycx.translate(
                 repo, PROP_PY, "trans_func", "trans_func_src",
                 [("schema", "ignore"), ("d", "R"), ("med_wavelen", "R"), ("cfsp", "nat"), ("gradient_filter", "optR")], ["m", "n"],
                 opaque_calls={"ft_coord"}, identity_calls={"ensure_array"})),
    ]


def stage_srctie(ctx):
    from harness.lib import srctie
    ok = srctie.run(ctx, "C17", "From Coq Require Import Lia Psatz.\nFrom HV Require Import C17.Model C17.Lemmas C17.Props.\n",
                    _src_items())
    ctx.count("srctie:%s" % ("ok" if ok else "broken"))


def run(ctx):
    ctx.rule = ("image shapes 2..64 x 2..64: every shape 2..8 x 2..8 (thorough 2..12) with random real / complex data "
                "compared in Q at 1e-9, squares and n x (n+1) up to 16 (thorough 32) plus random / extreme shapes up to "
                "64 x 64 with integer-labelled spectra compared exactly (odd / even / non-square); spacings 1/16..1 on both "
                "sides of half the medium wavelength incl. exactly lam/2 (1 +- 2^-20), anisotropic; half of the images "
                "with a non-zero coordinate origin (subimage crops of a larger frame / shifted detector grids); distances of both signs from "
                "1/64 to 150; scalar and list distances with zeros at every position; cfsp 0..4; gradient filter; "
                "metadata stored / overridden / missing; non-trivial = distinct (shape) for the transforms, distinct "
                "(shape parity, options, regime, sign) for propagation")
    ctx.clauses_proved = [
        "ifftshift o fftshift = id and fftshift o ifftshift = id for every length and every 2-D shape (ragged too)",
        "fftshift moves element i to (i + n/2) mod n (1-D and 2-D)",
        "ifft (fft x) = x and fft (ifft y) = y at every carrier, given the oracle pair F, Finv are mutual inverses",
        "ift_coord (ft_coord c) = c - c0 for every uniform coordinate list of length >= 2; ft_coord closed form",
        "G(d1) G(d2) = G(d1+d2), G(d) G(-d) = 1 (code's clamp, or no evanescent frequency), |G| <= 1",
        "cfsp: G(d/c)^c = G(d) for every c >= 1; gradient filter = G(d) - G(d+f)",
        "propagate by 0 = input; d1 then d2 = d1+d2; d then -d = input (coarse sampling => no evanescent frequency)",
        "propagate is linear given a linear oracle pair; energy never increases given Parseval at the two images used",
        "list of distances = labelled stack of the single-distance results (+ the input once if a zero is present)",
        "coordinates kept; metadata = update_metadata of the input's; MissingParameter for a list iff for a scalar",
        "closed real form evaluated by Coq-Interval = generic model at R; Q instance of prop1 / propagate / "
        "propagate_list / ft_coord / ift_coord = R instance (link theorems)"]
    ctx.clauses_explored = [
        "numpy fft2/ifft2 satisfy the inverse-pair / linearity / Parseval / shape hypotheses (sampled every run)",
        "group laws, linearity, energy bound, stack, coordinates and metadata on the implementation (1e-9 relative)"]
    ctx.trusted += [
        "oracle: numpy.fft.fft2/ifft2/fft/ifft (hypotheses: mutual inverses, linear, Parseval, shape-preserving; "
        "sampled each run)",
        "oracle: numpy sqrt/exp/pi inside trans_func (model evaluated over R by Coq-Interval, 1e-9)",
        "xarray alignment / broadcasting by dimension name (observed through propagate's results)",
        "harness-side rounding of integer-labelled spectra (|value - label| < 1e-6) before the exact comparison"]
    ctx.clauses_proved.append(
        "source tie: trans_func (read per frequency pair: complex arithmetic, the clamp `root *= (root >= 0)`, the mask, cfsp and "
        "the gradient filter) and ft_coord / ift_coord, translated from the current source text on every run, are proved equal "
        "to the model's Gpt (code's clamp) for every distance, wavelength, cfsp, filter and frequency, and to the model's "
        "coordinate functions; G(d1) G(d2) = G(d1+d2), G(d) G(-d) = 1, |G| <= 1, cfsp invariance, gradient filter = difference and "
        "the coordinate round trip restated for the translated source")
    ctx.trusted.append("translators harness/lib/pycx.py / pysrc.py (an array read as its generic element, xarray broadcasting by "
                       "dimension name and DataArray wrapping ignored; complex numbers as real pairs with numpy's principal "
                       "square root and exp; get_spacing(c), len(c) and the frequency coordinates opaque; float rounding ignored)")
    timed(ctx, "prove", ctx.prove)
    timed(ctx, "source-tie", stage_srctie, ctx)
    boot.boot()
    timed(ctx, "shift", stage_shift, ctx)
    timed(ctx, "shift-labels", stage_shift_labels, ctx)
    timed(ctx, "roundtrip", explore_roundtrip, ctx)
    timed(ctx, "transfunc", stage_transfunc, ctx)
    ok = timed(ctx, "smoke", stage_smoke, ctx)
    if ok:
        timed(ctx, "propagate", stage_propagate, ctx)
        timed(ctx, "explore", explore_propagate, ctx)
        timed(ctx, "deep-stacks", explore_deep_stacks, ctx)
    else:
        ctx.notes.append("propagate stages skipped: the smoke call failed")


def replay(ctx, data):
    """re-run the stored failing case on the current tree"""
    boot.boot()
    d = data["data"]
    kind = d.get("kind")
    if kind == "tie":
        ctx.prove()
        stage_srctie(ctx)
        return
    if kind == "explore":
        case = {k: d[k] for k in ("shape", "spacing", "medium_index", "illum_wavelen", "complex", "data_seed", "cfsp",
                                  "gradient_filter", "d1", "d2")}
        case["origin"] = d.get("origin", [0, 0])
        print("replay: evaluating every clause of the property on the stored configuration")
        guarded(ctx, "replay-explore", check_prop_case, ctx, case)
    elif kind == "roundtrip":
        import numpy as np
        from holopy.core.process import fft, ifft
        r, c = d["shape"]
        a = gen_data(d["data_seed"], (r, c), d["complex"])
        im = mk_image(a, d["spacing"][0], d["spacing"][1], 1.33, 0.66, name="img")
        b = ifft(fft(im))
        err = _relerr(b.transpose('z', 'x', 'y').values, im.values, float(np.abs(a).max()))
        ctx.explored += 1
        print("replay: ifft(fft(x)) relative error %.3g for shape %s" % (err, d["shape"]))
        if not err < 1e-10:
            ctx.violation(data["key"], data["what"], d)
    elif kind == "smoke":
        stage_smoke(ctx)
    else:
        print("replay: re-running the whole check with the recorded seed")
        ctx.seed = data.get("seed", ctx.seed)
        run(ctx)

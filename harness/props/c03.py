"""C03 - energy conservation and the optical theorem.

 * proof obligations (coq/C03/Props.v);
 * correspondence: the Gallina model (reduced-Q instance, run by vm_compute inside coqc) on the
   implementation's OWN inputs / coefficients versus the implementation:
     lib    miescatlib.cross_sections / asymmetry_parameter on synthetic dyadic coefficient lists,
     coef   miescatlib.scatcoeffs versus the Bohren-Huffman model on the kernels' D_n, psi_n, chi_n
            (oracle values), incl. "D_n real for real m" and the cross-product hypothesis,
     mie    calc_cross_sections and calc_scat_matrix (theta = 0 and generic angles) versus the model
            sums / pi-tau recurrence / S assembly on Mie()._scat_coeffs output (uniform + layered),
     ms     Multisphere._calc_cscat / _calc_cext / raw_cross_sections assembly on synthetic and real
            expansion coefficients (the Fortran amplitude matrix and dblquad value are oracle inputs);
 * direct exploration of the property on the implementation (never called a proof):
     cext = cscat + cabs, cabs >= -tol, cabs = 0 for real index, cscat > 0, g in [-1, 1],
     optical theorem (Mie and Multisphere), Gauss-Legendre quadrature of |S|^2 for cscat and g,
     Rayleigh limit, Multisphere(one sphere) = Mie four numbers.
Tolerances were measured on the unchanged tree (max observed / tolerance is written to the evidence
notes each run)."""
import math
import re
import warnings

from harness.lib import boot
from harness.lib.coqrun import qlit, listlit, eval_files, parse_eval_blocks, HEADER
from harness.lib.ctx import guarded

REQ = "From HV Require Import Common.Generic C03.Model.\nOpen Scope Q_scope.\n"
JOBS = 10

# tolerances (relative to the stated scale).  Measured maxima on the unchanged tree are in brackets.
TOL_LIB = 1e-11       # miescatlib sums vs model, scale = sum of magnitudes            [<= 4e-16]
TOL_COEF = 1e-8       # scatcoeffs vs Bohren-Huffman model on the kernel values, per coefficient, times
#                       (1 + (0.1/x)^2) max(1, 0.1/|m-1|): the float numerator (D m + n/x) psi_n - psi_{n-1}
#                       cancels like 1/(x^2 |m-1|)  [<= 7e-12 in these units; 4e-9 absolute at x = 0.008, m = 0.985]
TOL_XSEC = 1e-9       # calc_cross_sections vs model on the same coefficients, / cext   [<= 1e-15]
TOL_S = 2e-6          # calc_scat_matrix vs model, scale = sum of |terms|; asm_mie_far forms (2n+1)/(n(n+1))
#                       in REAL*4, so each term carries a relative error up to 2^-24 = 6e-8  [<= 6e-8]
TOL_MSF = 1e-11       # Multisphere helper formulas vs model                            [<= 1e-15]
TOL_SPLIT = 1e-12     # |cext - cscat - cabs| / cext                                     [<= 2e-16]
TOL_ABS0 = 1e-10      # |cabs| / cext for a real index, uniform sphere                   [<= 4e-12]
TOL_ABSNEG = 1e-10    # cabs >= -tol * cext (absorbing, uniform sphere)                   [never negative]
TOL_ABS_LAY = 1e-4    # both, layered spheres with x >= 0.2: scatcoeffs_multi is not of the N/(N+iM) form and its
#                       rounding noise in Re(a) grows like x^-6 below x ~ 0.3 and slowly above x ~ 30
#                       [<= 5e-8 over 6000 layered real-index spheres, x in 0.2..500]
TOL_LAYSMALL = 1e-3   # layered, x <= 0.05, real index: |cabs| <= tol * cext and cext > 0 (property as stated)
TOL_OT = 2e-6         # optical theorem between the two entry points, relative          [<= 5e-8]
TOL_QUAD = 5e-6       # quadrature of |S|^2 vs cscat (rel) and g (abs)                    [<= 2e-7]
TOL_RAY = 1e-3        # Rayleigh formula, x <= 0.01, |m| <= 2.2                           [<= 2e-4]
TOL_MS = 1e-4         # Multisphere(1 sphere) vs Mie, / cext; g absolute                  [<= 3e-6]


import os
_TS = float(os.environ.get("C03_TOLSCALE", "1"))   # measurement aid: shrink the correspondence tolerances
TOL_LIB, TOL_COEF, TOL_XSEC, TOL_S, TOL_MSF = (TOL_LIB * _TS, TOL_COEF * _TS, TOL_XSEC * _TS, TOL_S * _TS, TOL_MSF * _TS)


class Stat:
    """max observed error / tolerance per check, written into the evidence notes"""
    def __init__(self):
        self.m = {}

    def see(self, key, err, tol):
        r = err / tol
        if r > self.m.get(key, 0.0):
            self.m[key] = r
        return r <= 1.0


STAT = Stat()


def run_codes(tag, exprs, chunk=40):
    """each expr is a Gallina term of type Z: 0 iff the model agrees with every embedded observation,
    otherwise a bit mask of the failing sub-checks.  Returns (codes list or None per case, errors)."""
    files = []
    for k in range(0, len(exprs), chunk):
        part = exprs[k:k + chunk]
        text = HEADER + REQ + "\n"
        text += "Definition cases : list Z :=\n " + listlit(["\n  (" + e + ")" for e in part]) + ".\n"
        text += "Eval vm_compute in cases.\n"
        files.append(("cases_%04d" % (k // chunk), text))
    res = eval_files(tag, files, jobs=JOBS)
    codes, errors = [], []
    for idx, (name, rc, out) in enumerate(res):
        n = min(chunk, len(exprs) - idx * chunk)
        if rc != 0:
            errors.append("%s: rc=%d %s" % (name, rc, out[-1500:]))
            codes += [None] * n
            continue
        blocks = parse_eval_blocks(out)
        vals = [int(x) for x in re.findall(r"-?\d+", blocks[-1].split(":")[0].replace("%Z", ""))] if blocks else []
        if len(vals) != n:
            errors.append("%s: expected %d values, got %d: %s" % (name, n, len(vals), out[-500:]))
            codes += [None] * n
            continue
        codes += vals
    return codes, errors


def bits(checks):
    """checks: list of Gallina bools -> Z bit mask of the false ones"""
    out = "0%Z"
    for i, c in enumerate(checks):
        out = "Z.add (if %s then 0%%Z else %d%%Z) (%s)" % (c, 1 << i, out)
    return out


def cq(z):
    z = complex(z)
    return "(%s, %s)" % (qlit(z.real), qlit(z.imag))


def coeflit(al, bl):
    return listlit(["(%s, %s)" % (cq(a), cq(b)) for a, b in zip(al, bl)])


def report(ctx, tag, exprs, metas, names, chunk=40):
    codes, errors = run_codes(tag, exprs, chunk=chunk)
    ctx.corr_cases += len(exprs)
    for e in errors:
        ctx.violation("corr-eval-error:" + tag, "model evaluation failed: " + e[:300],
                      dict(kind="coq-error", log=e), nofail=True)
    for code, m in zip(codes, metas):
        if code:
            failed = [names[i] for i in range(len(names)) if code >> i & 1]
            ctx.disagree("corr:%s:%s" % (m["stage"], failed[0]),
                         "model and implementation disagree on %s (%s)" % (", ".join(failed), m["stage"]),
                         dict(kind="corr", failed=failed, **m))


# ------------------------------------------------------------------------------------------
# generators

def loguni(rng, lo, hi):
    return math.exp(rng.uniform(math.log(lo), math.log(hi)))


def gen_index(rng, kind=None):
    """relative-ish sphere index: real (incl. < medium), weakly / strongly absorbing"""
    kind = kind or rng.choice(["real", "real", "weak", "strong"])
    nr = rng.choice([rng.uniform(1.34, 1.7), rng.uniform(1.7, 3.2), rng.uniform(1.0, 1.3)])
    if kind == "real":
        return nr, kind
    if kind == "weak":
        return complex(nr, loguni(rng, 1e-7, 1e-2)), kind
    return complex(rng.choice([nr, rng.uniform(0.2, 1.0)]), loguni(rng, 1e-2, 3.0)), kind


def gen_medium(rng):
    nm = rng.choice([1.0, 1.33, 1.5, round(rng.uniform(1.0, 1.7), 3)])
    wl = rng.choice([0.405, 0.532, 0.66, 1.064, round(rng.uniform(0.3, 1.2), 4)])
    return nm, wl


def gen_x(rng, xmax):
    r = rng.random()
    if r < 0.15:
        return loguni(rng, 1e-3, 1e-1)
    if r < 0.5:
        return loguni(rng, 0.1, min(5.0, xmax))
    return rng.uniform(min(5.0, xmax), xmax) if xmax > 5 else loguni(rng, 0.1, xmax)


EXP_OVERFLOW = 700.0   # exp() of a double overflows at 709.78; the layered-sphere recursion forms exp(Im(m_l x_l))


def nonfinite_key(desc, cls):
    """key of a non-finite cross section.  The recorded finding is specific: a LAYERED sphere with a layer whose
    Im(n_l / n_medium) * k * r_l exceeds the overflow threshold of exp().  Any other non-finite value keeps the
    generic key and is reported as a violation."""
    try:
        if desc.get("layers", 1) > 1:
            k = 2 * math.pi / (desc["wl"] / desc["nm"])
            ims = []
            for n, r in zip(desc["n"], desc["r"]):
                im = n["im"] if isinstance(n, dict) else complex(n).imag
                ims.append(im / desc["nm"] * k * r)
            # the recursion evaluates layer l at its inner radius too
            for (n, r) in zip(desc["n"][1:], desc["r"][:-1]):
                im = n["im"] if isinstance(n, dict) else complex(n).imag
                ims.append(im / desc["nm"] * k * r)
            if max(ims) > EXP_OVERFLOW:
                return "mie:nonfinite:layered:exp-overflow"
    except Exception:   # noqa
        pass
    return "mie:nonfinite:" + cls



def gen_sphere(rng, xmax, layered_p=0.25, kind=None):
    """-> (Sphere, nm, wl, k, x_outer, kind, description dict)"""
    import numpy as np
    from holopy.scattering import Sphere
    nm, wl = gen_medium(rng)
    k = 2 * np.pi / (wl / nm)
    x = gen_x(rng, xmax)
    if rng.random() < layered_p:
        # layered spheres with outer x < 0.2 are the class of the known accuracy defect of scatcoeffs_multi
        # (see stage_layered_small); here they start at 0.2
        if x < 0.2:
            x = loguni(rng, 0.2, min(5.0, xmax))
        nl = rng.choice([2, 2, 3])
        kinds, ns = [], []
        kd = kind or rng.choice(["real", "weak", "strong"])
        for _ in range(nl):
            n, _k = gen_index(rng, "real" if kd == "real" else rng.choice(["real", kd]))
            ns.append(n)
        fr = sorted(rng.uniform(0.2, 0.95) for _ in range(nl - 1)) + [1.0]
        rs = [f * x / k for f in fr]
        kd = "real" if all(isinstance(n, float) for n in ns) else kd
        s = Sphere(n=ns, r=rs, center=(0, 0, 0))
        return s, nm, wl, k, x, kd, dict(n=ns, r=rs, nm=nm, wl=wl, x=x, layers=nl)
    n, kd = gen_index(rng, kind)
    r = x / k
    s = Sphere(n=n, r=r, center=(0, 0, 0))
    return s, nm, wl, k, x, kd, dict(n=n, r=r, nm=nm, wl=wl, x=x, layers=1)


def gen_pol(rng):
    c = rng.random()
    if c < 0.25:
        return (1.0, 0.0)
    if c < 0.4:
        return (0.0, 1.0)
    a = rng.uniform(0, 2 * math.pi)
    return (math.cos(a), math.sin(a))


def pol_form(pol, form, amp=1.0):
    """the same polarisation direction in the forms the public functions accept: tuple, scaled tuple, 3-component list,
    ndarray, and the vector-labelled DataArray that HoloPy keeps in metadata (interface.to_vector hands that one on
    untouched, whatever its length)"""
    import numpy as np
    import xarray as xr
    if form == "tuple":
        return tuple(pol)
    if form == "scaled-tuple":
        return (pol[0] * amp, pol[1] * amp)
    if form == "list3":
        return [pol[0] * amp, pol[1] * amp, 0.0]
    if form == "ndarray":
        return np.array([pol[0] * amp, pol[1] * amp])
    return xr.DataArray([pol[0] * amp, pol[1] * amp, 0.0], dims="vector", coords={"vector": ["x", "y", "z"]})


POL_FORMS = ["tuple", "xarray", "scaled-tuple", "xarray", "list3", "ndarray"]


# ------------------------------------------------------------------------------------------
# correspondence stages

def dyc(rng, bits_=8, lo=-1.0, hi=1.0):
    s = 1 << bits_
    return complex(rng.randint(int(lo * s), int(hi * s)) / s, rng.randint(int(lo * s), int(hi * s)) / s)


def stage_lib(ctx):
    """miescatlib.cross_sections / asymmetry_parameter on synthetic dyadic lists (any complex values:
    the identities proved are for every list, not only for physical coefficients)"""
    import numpy as np
    from holopy.scattering.theory.mie_f import miescatlib
    rng = ctx.subrng("lib")
    exprs, metas = [], []
    for kcase in range(ctx.n(60, 600)):
        n = rng.choice([1, 1, 2, 3, 4, 5, 8, 13, 21])
        al = np.array([dyc(rng) for _ in range(n)])
        bl = np.array([dyc(rng) for _ in range(n)])
        if rng.random() < 0.15:
            bl = bl * 0
        cs3 = miescatlib.cross_sections(al, bl)
        asym = float(miescatlib.asymmetry_parameter(al, bl))
        mag = float(((2 * np.arange(1, n + 1) + 1) * (abs(al) + abs(bl))).sum()) + 1e-300
        lst = coeflit(al, bl)
        e = ("let cs := %s in " % lst) + bits([
            "near %s %s (cscat_sum QOr cs) %s" % (qlit(TOL_LIB), qlit(mag), qlit(float(cs3[0]))),
            "near %s %s (cext_sum QOr cs) %s" % (qlit(TOL_LIB), qlit(mag), qlit(float(cs3[1]))),
            "near %s %s (cback_sum QOr cs) %s" % (qlit(TOL_LIB), qlit(mag * mag), qlit(float(cs3[2]))),
            "near %s %s (asym_sum QOr cs) %s" % (qlit(TOL_LIB), qlit(mag), qlit(asym))])
        exprs.append(e)
        metas.append(dict(stage="lib", al=[complex(a) for a in al], bl=[complex(b) for b in bl],
                          impl=dict(cross_sections=[float(v) for v in cs3], asymmetry=asym)))
        ctx.count("lib:len%d" % n)
        ctx.nontriv(("lib", n, kcase % 7))
    report(ctx, "C03lib", exprs, metas, ["cscat_sum", "cext_sum", "cback_sum", "asym_sum"])


def stage_coef(ctx):
    """miescatlib.scatcoeffs vs the Bohren-Huffman model fed with the kernels' own D_n, psi_n, chi_n"""
    import numpy as np
    from holopy.scattering.theory.mie_f import miescatlib, mie_specfuncs
    from holopy.scattering.theory.mie_f.mieangfuncs import dn_1_down, lentz_dn1
    rng = ctx.subrng("coef")
    exprs, metas = [], []
    eps1, eps2 = 1e-2, 1e-16
    for kcase in range(ctx.n(40, 240)):
        m, kind = gen_index(rng)
        nm = rng.choice([1.0, 1.33, 1.5])
        m = m / nm
        x = gen_x(rng, ctx.n(40.0, 60.0))
        nstop = miescatlib.nstop(x)
        D = dn_1_down(m * x, nstop + 1, nstop, lentz_dn1(m * x, nstop + 1, eps1, eps2))
        psi, xi = mie_specfuncs.riccati_psi_xi(x, nstop)
        psi = np.real(psi)
        chi = np.imag(xi)
        got = miescatlib.scatcoeffs(m, x, nstop, eps1, eps2)
        ctx.explored += 1
        if kind == "real":
            # hypotheses of mie_real_index_cabs_zero, sampled: D_n exactly real, cross product = 1
            if np.any(np.imag(D) != 0):
                ctx.violation("oracle:Dn-real", "D_n(mx) has a non-zero imaginary part for real m",
                              dict(kind="oracle", m=m, x=x, D=[complex(d) for d in D]))
            cp = psi[1:] * chi[:-1] - psi[:-1] * chi[1:]
            if not STAT.see("oracle:cross-product", float(np.max(np.abs(cp - 1))), 1e-3):
                ctx.violation("oracle:cross-product", "psi_n chi_{n-1} - psi_{n-1} chi_n is not 1",
                              dict(kind="oracle", x=x, cross=[float(c) for c in cp]))
            # and the conclusion of bh_real_form on the implementation's coefficients: Re a = |a|^2
            for z in list(got[0]) + list(got[1]):
                if not STAT.see("coef:Re=|.|^2", abs(z.real - abs(z) ** 2), 1e-9 * abs(z) + 1e-300):
                    ctx.violation("coef:real-form", "Re a != |a|^2 for a real relative index",
                                  dict(kind="real-form", m=m, x=x, coef=complex(z)))
        tolc = TOL_COEF * (1.0 + (0.1 / x) ** 2) * max(1.0, 0.1 / abs(m - 1))
        e = ("coefs_near %s (scatcoeffs QOr %s %s %s %s %s) %s" % (
            qlit(tolc), cq(m), qlit(x), listlit([cq(d) for d in D]),
            listlit([qlit(float(p)) for p in psi]), listlit([qlit(float(c)) for c in chi]),
            coeflit(got[0], got[1])))
        exprs.append("if %s then 0%%Z else 1%%Z" % e)
        metas.append(dict(stage="coef", m=m, x=x, nstop=int(nstop),
                          impl=dict(a=[complex(z) for z in got[0]], b=[complex(z) for z in got[1]])))
        ctx.count("coef:" + kind)
        ctx.nontriv(("coef", kind, int(nstop)))
    report(ctx, "C03coef", exprs, metas, ["scatcoeffs"], chunk=max(2, len(exprs) // (3 * JOBS)))


def smat(S):
    return "(%s, %s, %s, %s)" % (cq(S[0, 0]), cq(S[0, 1]), cq(S[1, 0]), cq(S[1, 1]))


def stage_mie(ctx):
    """public entry points vs model on the implementation's own coefficients"""
    import numpy as np
    from holopy.scattering import Mie, calc_cross_sections, calc_scat_matrix
    from holopy.scattering.theory.mie_f import mieangfuncs
    from holopy.core.metadata import detector_points
    rng = ctx.subrng("mie")
    exprs, metas = [], []
    for kcase in range(ctx.n(60, 360)):
        s, nm, wl, k, x, kind, desc = gen_sphere(rng, ctx.n(60.0, 100.0 if kcase % 6 == 0 else 50.0))
        pol = gen_pol(rng)
        co = Mie()._scat_coeffs(s, k, nm)
        cs4 = [float(v) for v in calc_cross_sections(s, nm, wl, pol).values]
        # generic angles: cos(theta) is a SHORT dyadic mu (so that pi_n(mu), a degree n-1 polynomial, stays small in
        # Q); the implementation receives theta = arccos(mu) and forms dcos(theta) = mu (1 + O(1e-16))
        mus = [1.0] + [rng.randint(-31, 31) / 32.0 for _ in range(ctx.n(1, 2))]
        thetas = [math.acos(mu) for mu in mus]
        phis = [rng.uniform(0, 6.28) for _ in thetas]
        S = calc_scat_matrix(detector_points(theta=np.array(thetas), phi=np.array(phis)), s, nm, wl).values
        lst = coeflit(co[0], co[1])
        checks = ["near4 %s %s (calc_cross_sections_mie QOr %s %s %s cs) (%s, %s, %s, %s)" % (
            qlit(TOL_XSEC), qlit(cs4[2]), qlit(math.pi), qlit(nm), qlit(wl),
            qlit(cs4[0]), qlit(cs4[1]), qlit(cs4[2]), qlit(cs4[3]))]
        for mu, t, Si in zip(mus, thetas, S):
            assert abs(math.cos(t) - mu) < 1e-15
            # scale: sum of the magnitudes of the terms (pi_n, tau_n from the implementation, for the scale only)
            pis, taus = mieangfuncs.pisandtaus(co.shape[1], t)
            ns = np.arange(1, co.shape[1] + 1)
            sc = float(((2 * ns + 1) / (ns * (ns + 1)) * (np.abs(co[0]) + np.abs(co[1])) * (np.abs(pis) + np.abs(taus))).sum())
            checks.append("(let '(m00, m01, m10, m11) := asm_mie_far QOr cs %s in let '(i00, i01, i10, i11) := %s in "
                          "cnear %s %s m00 i00 && cnear %s %s m01 i01 && cnear %s %s m10 i10 && cnear %s %s m11 i11)" % (
                              qlit(mu), smat(Si), qlit(TOL_S), qlit(sc), qlit(TOL_S), qlit(sc),
                              qlit(TOL_S), qlit(sc), qlit(TOL_S), qlit(sc)))
        exprs.append(("let cs := %s in " % lst) + bits(checks))
        metas.append(dict(stage="mie", sphere=desc, pol=pol, thetas=thetas,
                          impl=dict(cross_sections=cs4, S=[[complex(v) for v in Si.ravel()] for Si in S])))
        ctx.count("mie:%s:%s" % ("layered" if desc["layers"] > 1 else "uniform", kind))
        ctx.count("mie:x<0.1" if x < 0.1 else "mie:x<5" if x < 5 else "mie:x>=5")
        ctx.nontriv(("mie", kind, desc["layers"], co.shape[1]))
        if kcase < 2:
            ctx.sample(dict(sphere=desc, cross_sections=cs4, S_forward=complex(S[0][0, 0]), n_coeffs=int(co.shape[1])))
    report(ctx, "C03mie", exprs, metas, ["calc_cross_sections", "scat_matrix(theta=0)", "scat_matrix(theta1)",
                                          "scat_matrix(theta2)"], chunk=max(2, len(exprs) // (3 * JOBS)))


def synth_amn(rng, lmax):
    import numpy as np
    lim = lmax * lmax + 2 * lmax
    amn = np.zeros((2, lim, 2), dtype=complex)
    for i in range(2):
        for j in range(lim):
            for p in range(2):
                amn[i, j, p] = dyc(rng, 6)
    return amn


def amn_rows(amn):
    """rows (A0, A1) over the first two axes in C order (the sums do not depend on the order)"""
    a0 = amn[:, :, 0].ravel()
    a1 = amn[:, :, 1].ravel()
    return listlit(["(%s, %s)" % (cq(u), cq(v)) for u, v in zip(a0, a1)])


def stage_ms_formulas(ctx):
    """Multisphere._calc_cscat / _calc_cext on synthetic expansion coefficients"""
    import numpy as np
    from holopy.scattering import Sphere, Multisphere
    from holopy.scattering.theory import multisphere as msmod
    from holopy.core.metadata import to_vector
    rng = ctx.subrng("msf")
    th = Multisphere()
    sph = Sphere(n=1.59, r=0.5, center=(0, 0, 0))
    exprs, metas = [], []
    node_pols = [(1.0, 0.0), (0.0, 1.0), (1.0, 1.0), (-1.0, 0.0), (0.0, -1.0), (-1.0, -1.0), (1.0, -1.0)]
    for kcase in range(ctx.n(40, 400)):
        lmax = rng.choice([1, 1, 2, 3])
        amn = synth_amn(rng, lmax)
        pol = node_pols[kcase] if kcase < len(node_pols) else gen_pol(rng)
        if kcase >= len(node_pols) and rng.random() < 0.3:
            pol = (pol[0] * 2.5, pol[1] * 2.5)      # not normalised: the code normalises
        k = rng.uniform(5.0, 25.0)
        polv = to_vector(pol)
        cscat = float(th._calc_cscat(sph, k, 1.33, polv, amn=amn, lmax=lmax))
        cext = float(th._calc_cext(sph, k, 1.33, polv, amn=amn, lmax=lmax))
        # oracle leaves, computed as the implementation computes them
        pn = msmod.normalize_polarization(polv)
        pn = [float(pn[0]), float(pn[1])]
        gamma = float(np.arctan2(pn[1], pn[0]))
        c2, s2 = float(np.cos(2. * gamma)), float(np.sin(2. * gamma))
        asm = msmod._asm_far(0., 0., amn, lmax)
        scale_s = 4 * math.pi / k ** 2 * float((np.abs(amn) ** 2).sum()) * 4
        scale_e = 4 * math.pi / k ** 2 * float(np.abs(asm).sum()) + 1e-300
        e = bits([
            "near %s %s (ms_cscat QOr %s %s %s %s %s) %s" % (
                qlit(TOL_MSF), qlit(scale_s), qlit(math.pi), qlit(k), amn_rows(amn), qlit(c2), qlit(s2), qlit(cscat)),
            "near %s %s (ms_cext QOr %s %s %s %s %s) %s" % (
                qlit(TOL_MSF), qlit(scale_e), qlit(math.pi), qlit(k), smat(asm), qlit(pn[0]), qlit(pn[1]), qlit(cext))])
        exprs.append(e)
        metas.append(dict(stage="msf", lmax=lmax, pol=pol, k=k, amn=[complex(v) for v in amn.ravel()],
                          impl=dict(cscat=cscat, cext=cext, gamma=gamma)))
        ctx.count("msf:lmax%d" % lmax)
        ctx.nontriv(("msf", lmax, round(gamma, 3)))
        # direct predicate on the implementation: the interpolation returns its nodes and is pi-periodic
        ctx.explored += 1
        q0 = float((np.abs(amn[:, :, 0] + amn[:, :, 1]) ** 2).sum()) * 4 * np.pi / k ** 2
        qp2 = float((np.abs(amn[:, :, 0] - amn[:, :, 1]) ** 2).sum()) * 4 * np.pi / k ** 2
        qp4 = float((np.abs(amn[:, :, 0] + 1j * amn[:, :, 1]) ** 2).sum()) * 4 * np.pi / k ** 2
        for p, want, nm_ in (((1, 0), q0, "0"), ((0, 1), qp2, "pi/2"), ((1, 1), qp4, "pi/4"), ((-1, 0), q0, "pi"),
                             ((-1, -1), qp4, "5pi/4")):
            v = float(th._calc_cscat(sph, k, 1.33, to_vector(p), amn=amn, lmax=lmax))
            if not STAT.see("msf:nodes", abs(v - want), 1e-12 * scale_s):
                ctx.violation("ms:cscat-node", "_calc_cscat at gamma = %s is not the node value" % nm_,
                              dict(kind="ms-node", pol=p, k=k, got=v, want=want, amn=[complex(z) for z in amn.ravel()],
                                   lmax=lmax))
        if cscat < -1e-12 * scale_s:
            ctx.violation("ms:cscat-negative", "_calc_cscat < 0", dict(kind="ms-neg", pol=pol, k=k, cscat=cscat))
    report(ctx, "C03msf", exprs, metas, ["_calc_cscat", "_calc_cext"])


# ------------------------------------------------------------------------------------------
# exploration on the implementation

def gl_cscat_g(s, nm, wl, k, npts, theory="auto"):
    """Gauss-Legendre quadrature in mu = cos(theta) of the unpolarised intensity (|S1|^2+|S2|^2)/2
    through the public calc_scat_matrix: cscat = pi/k^2 int (|S1|^2+|S2|^2) dmu, g likewise with mu."""
    import numpy as np
    from holopy.scattering import calc_scat_matrix
    from holopy.core.metadata import detector_points
    mu, w = np.polynomial.legendre.leggauss(npts)
    th = np.arccos(mu)
    S = calc_scat_matrix(detector_points(theta=th, phi=np.zeros_like(th)), s, nm, wl, theory=theory).values
    inten = np.abs(S[:, 0, 0]) ** 2 + np.abs(S[:, 1, 1]) ** 2 + np.abs(S[:, 0, 1]) ** 2 + np.abs(S[:, 1, 0]) ** 2
    cscat = np.pi / k ** 2 * float((w * inten).sum())
    g = np.pi / k ** 2 * float((w * inten * mu).sum()) / cscat
    return cscat, g


def forward_S(s, nm, wl, theory="auto"):
    import numpy as np
    from holopy.scattering import calc_scat_matrix
    from holopy.core.metadata import detector_points
    return calc_scat_matrix(detector_points(theta=np.array([0.0]), phi=np.array([0.0])), s, nm, wl,
                            theory=theory).values[0]


def stage_explore_mie(ctx):
    import numpy as np
    from holopy.scattering import Mie, calc_cross_sections
    rng = ctx.subrng("xmie")
    xmax = ctx.n(100.0, 500.0)
    for kcase in range(ctx.n(150, 3000)):
        s, nm, wl, k, x, kind, desc = gen_sphere(rng, xmax if rng.random() < 0.3 else 30.0)
        pol = gen_pol(rng)
        cscat, cabs, cext, g = [float(v) for v in calc_cross_sections(s, nm, wl, pol).values]
        ctx.explored += 1
        ctx.count("xmie:%s:%s" % ("layered" if desc["layers"] > 1 else "uniform", kind))
        ctx.nontriv(("xmie", kind, desc["layers"], round(math.log10(x), 1)))
        data = dict(kind="xmie", sphere=desc, pol=pol, cross_sections=[cscat, cabs, cext, g])
        cls = "%s:%s" % ("layered" if desc["layers"] > 1 else "uniform", kind)
        if not all(math.isfinite(v) for v in (cscat, cabs, cext, g)):
            ctx.violation(nonfinite_key(desc, cls), "calc_cross_sections returns a non-finite value", data)
            continue
        if not STAT.see("split", abs(cext - cscat - cabs), TOL_SPLIT * abs(cext)):
            ctx.violation("mie:split:" + cls, "cext != cscat + cabs", data)
        if not cscat > 0:
            ctx.violation("mie:cscat-positive:" + cls, "cscat is not positive", data)
        lay = desc["layers"] > 1
        if kind == "real":
            if not STAT.see("cabs=0(real m):" + ("layered" if lay else "uniform"), abs(cabs),
                            (TOL_ABS_LAY if lay else TOL_ABS0) * cext):
                ctx.violation("mie:cabs-real-index:" + cls, "absorption does not vanish for a real index", data)
        else:
            if not STAT.see("cabs>=0:" + ("layered" if lay else "uniform"), max(0.0, -cabs),
                            (TOL_ABS_LAY if lay else TOL_ABSNEG) * cext):
                ctx.violation("mie:cabs-negative:" + cls, "absorption cross section is negative", data)
        if not (-1.0 <= g <= 1.0):
            ctx.violation("mie:g-range:" + cls, "asymmetry parameter outside [-1, 1]", data)
        # optical theorem between the two public entry points
        S0 = forward_S(s, nm, wl)
        data["S_forward"] = [complex(v) for v in S0.ravel()]
        ot = 4 * np.pi / k ** 2 * S0[0, 0].real
        if not STAT.see("optical-theorem", abs(ot - cext), TOL_OT * cext):
            ctx.violation("mie:optical-theorem:" + cls, "4 pi / k^2 Re S(0) != cext", data)
        if not STAT.see("S(0) diagonal", abs(S0[0, 0] - S0[1, 1]) + abs(S0[0, 1]) + abs(S0[1, 0]), 1e-12 * abs(S0[0, 0])):
            ctx.violation("mie:forward-matrix:" + cls, "forward matrix is not a multiple of the identity", data)
        # integral forms (Gauss-Legendre; |S|^2 is a polynomial of degree <= 2 nstop in mu)
        if kcase % 3 == 0 or ctx.tier == "thorough":
            nco = Mie()._scat_coeffs(s, k, nm).shape[1]
            cq_, gq = gl_cscat_g(s, nm, wl, k, nco + 8)
            data["quadrature"] = [cq_, gq]
            ctx.count("xmie:quadrature")
            if not STAT.see("quadrature:cscat", abs(cq_ - cscat), TOL_QUAD * cscat):
                ctx.violation("mie:integral-cscat:" + cls, "cscat differs from the solid-angle integral of |S|^2", data)
            if not STAT.see("quadrature:g", abs(gq - g), TOL_QUAD):
                ctx.violation("mie:integral-g:" + cls, "asymmetry parameter differs from the integral form", data)


def stage_layered_small(ctx):
    """layered spheres with outer size parameter <= 0.05 and real indices: the property as stated
    (absorption vanishes, extinction positive).  scatcoeffs_multi loses Re(a_n), Re(b_n) to rounding there."""
    import numpy as np
    from holopy.scattering import Sphere, calc_cross_sections
    rng = ctx.subrng("laysmall")
    for kcase in range(ctx.n(30, 300)):
        nm, wl = gen_medium(rng)
        k = 2 * np.pi / (wl / nm)
        x = loguni(rng, 1e-3, 5e-2)
        nl = rng.choice([2, 2, 3])
        ns = [rng.uniform(1.0, 3.2) for _ in range(nl)]
        fr = sorted(rng.uniform(0.2, 0.95) for _ in range(nl - 1)) + [1.0]
        rs = [f * x / k for f in fr]
        s = Sphere(n=ns, r=rs, center=(0, 0, 0))
        cscat, cabs, cext, g = [float(v) for v in calc_cross_sections(s, nm, wl, (1, 0)).values]
        ctx.explored += 1
        ctx.count("layered-small")
        ctx.nontriv(("laysmall", nl, round(math.log10(x), 1)))
        data = dict(kind="xmie", sphere=dict(n=ns, r=rs, nm=nm, wl=wl, x=x, layers=nl), pol=(1, 0),
                    cross_sections=[cscat, cabs, cext, g])
        if not (math.isfinite(cext) and math.isfinite(cscat) and cscat > 0):
            ctx.violation("mie:layered-small-x:cscat", "layered sphere, real indices, size parameter <= 0.05: scattering cross "
                          "section not positive / not finite", data)
        elif not (cext > 0 and abs(cabs) <= TOL_LAYSMALL * cext):
            # recorded finding: Re(a_n) is lost to rounding in the layer recursion, so cext (sum of Re a_n, b_n) is
            # wrong while cscat (sum of |a_n|^2) is right; reported under its own key
            ctx.violation("mie:layered-small-x:cext-rounding", "layered sphere, real indices, size parameter <= 0.05: absorption "
                          "does not vanish (|cabs| > 1e-3 cext) or extinction <= 0 while cscat is positive", data)


def stage_layered_corners(ctx):
    """two further corners of the layered-sphere code, generated on purpose so that they are seen in every run:
    (a) weakly absorbing layers (Im n <= 1e-6) at size parameter <= 5e-3: cabs >= -1e-3 cext and cext > 0;
    (b) a strongly absorbing layer with Im(m x) > 709 (exp/sin overflow in log_der_13): results must be finite."""
    import numpy as np
    from holopy.scattering import Sphere, calc_cross_sections
    rng = ctx.subrng("laycorner")
    for kcase in range(ctx.n(60, 400)):
        nm, wl = gen_medium(rng)
        k = 2 * np.pi / (wl / nm)
        x = loguni(rng, 1e-3, 5e-3)
        nl = rng.choice([2, 3])
        ns = [complex(rng.uniform(1.0, 3.2), loguni(rng, 1e-7, 1e-6)) for _ in range(nl)]
        fr = sorted(rng.uniform(0.2, 0.95) for _ in range(nl - 1)) + [1.0]
        rs = [f * x / k for f in fr]
        s = Sphere(n=ns, r=rs, center=(0, 0, 0))
        cscat, cabs, cext, g = [float(v) for v in calc_cross_sections(s, nm, wl, (1, 0)).values]
        ctx.explored += 1
        ctx.count("layered-small-absorbing")
        if not (cext > 0 and cabs >= -TOL_LAYSMALL * cext):
            ctx.violation("mie:layered-small-x:cext-rounding:weakly-absorbing" if (math.isfinite(cscat) and cscat > 0) else "mie:layered-small-x-absorbing:cscat",
                          "layered sphere, Im(n) <= 1e-6, size parameter <= 5e-3: "
                          "negative absorption (cabs < -1e-3 cext) or extinction <= 0",
                          dict(kind="xmie", sphere=dict(n=ns, r=rs, nm=nm, wl=wl, x=x, layers=nl), pol=(1, 0),
                               cross_sections=[cscat, cabs, cext, g]))
    for kcase in range(ctx.n(6, 40)):
        nm, wl = gen_medium(rng)
        k = 2 * np.pi / (wl / nm)
        x = rng.uniform(300.0, 480.0)
        ns = [complex(rng.uniform(1.3, 3.0), rng.choice([0.0, 0.5])) * nm, complex(rng.uniform(0.2, 1.5), rng.uniform(2.5, 3.0)) * nm]
        rs = [rng.uniform(0.2, 0.9) * x / k, x / k]
        s = Sphere(n=ns, r=rs, center=(0, 0, 0))
        vals = [float(v) for v in calc_cross_sections(s, nm, wl, (1, 0)).values]
        ctx.explored += 1
        ctx.count("layered-overflow-corner")
        data = dict(kind="xmie", sphere=dict(n=ns, r=rs, nm=nm, wl=wl, x=x, layers=2), pol=(1, 0), cross_sections=vals)
        if not all(math.isfinite(v) for v in vals):
            ctx.violation(nonfinite_key(data["sphere"], "layered:strong"), "calc_cross_sections returns a non-finite value", data)
        elif not (abs(vals[2] - vals[0] - vals[1]) <= TOL_SPLIT * vals[2] and vals[1] >= 0 and vals[0] > 0
                  and -1 <= vals[3] <= 1 and 1.5 < vals[2] / (np.pi * rs[1] ** 2) < 2.5):
            ctx.violation("mie:layered-large-absorbing", "large absorbing layered sphere: energy bookkeeping, ranges or "
                          "the extinction-paradox limit (cext ~ 2 pi r^2) violated", data)


def stage_rayleigh(ctx):
    import numpy as np
    from holopy.scattering import Sphere, calc_cross_sections
    rng = ctx.subrng("ray")
    for kcase in range(ctx.n(40, 400)):
        nm, wl = gen_medium(rng)
        k = 2 * np.pi / (wl / nm)
        x = loguni(rng, 1e-3, 1e-2)
        absorbing = rng.random() < 0.5
        m = complex(rng.uniform(0.6, 2.0), loguni(rng, 1e-3, 0.8) if absorbing else 0.0)
        n = m * nm
        r = x / k
        s = Sphere(n=(n if absorbing else n.real), r=r, center=(0, 0, 0))
        cscat, cabs, cext, g = [float(v) for v in calc_cross_sections(s, nm, wl, (1, 0)).values]
        al = (m * m - 1) / (m * m + 2)
        area = np.pi * r * r
        cs_ray = 8.0 / 3.0 * x ** 4 * abs(al) ** 2 * area
        ca_ray = 4.0 * x * al.imag * area
        ctx.explored += 1
        ctx.count("rayleigh:" + ("absorbing" if absorbing else "real"))
        ctx.nontriv(("ray", absorbing, kcase))
        data = dict(kind="rayleigh", n=n, nm=nm, wl=wl, r=r, x=x, cross_sections=[cscat, cabs, cext, g],
                    rayleigh=[cs_ray, ca_ray])
        if not STAT.see("rayleigh:cscat", abs(cscat - cs_ray), TOL_RAY * cs_ray):
            ctx.violation("mie:rayleigh-cscat", "cscat does not follow the Rayleigh formula at x <= 0.01", data)
        if absorbing and not STAT.see("rayleigh:cabs", abs(cabs - ca_ray), TOL_RAY * ca_ray):
            ctx.violation("mie:rayleigh-cabs", "cabs does not follow the Rayleigh formula at x <= 0.01", data)
        if not STAT.see("rayleigh:g", abs(g), 1e-3):
            ctx.violation("mie:rayleigh-g", "asymmetry parameter is not ~0 in the Rayleigh limit", data)


def stage_media_series(ctx):
    """the same particle (same absolute index, same radius) in a series of media with the wavelength chosen so that the
    size parameter k*r is bit-identical (lambda = n_medium * lambda_0), computed one after the other in one process: each
    has to follow the Rayleigh formula for ITS relative index (x <= 0.01) and, at x ~ 1-6, to agree with the one-sphere
    cluster theory.  A memo of the expansion coefficients keyed on (size parameter, particle index) alone fails here."""
    import numpy as np
    from holopy.scattering import Sphere, Multisphere, Mie, calc_cross_sections
    rng = ctx.subrng("media")
    for kcase in range(ctx.n(8, 40)):
        # binary fractions: lambda = n_medium * lambda_0 and k = 2 pi n_medium / lambda are then exact, so the wave
        # vector in the medium is bit-identical along the series
        lam0 = rng.choice([0.5, 0.625, 0.75]) if kcase % 4 < 3 else rng.choice([0.4, 0.66])
        # one theory OBJECT reused along the series (a user's `theory = Mie()` at the top of a script) every other
        # case; the default (a fresh object per call) otherwise
        shared = Mie() if kcase % 4 >= 2 else None
        small = kcase % 2 == 0
        x = loguni(rng, 2e-3, 1e-2) if small else rng.uniform(1.0, 6.0)
        n = complex(rng.uniform(1.6, 2.2), rng.choice([0.0, loguni(rng, 1e-3, 0.3)]))
        r = x * lam0 / (2 * np.pi)
        media = [1.0, 1.25, 1.5, 1.0][::rng.choice([1, -1])]
        for nm in media:
            wl = nm * lam0
            s = Sphere(n=(n if n.imag else n.real), r=r, center=(0, 0, 0))
            if shared is not None:
                cscat, cabs, cext, g = [float(v) for v in calc_cross_sections(s, nm, wl, (1, 0), theory=shared).values]
            else:
                cscat, cabs, cext, g = [float(v) for v in calc_cross_sections(s, nm, wl, (1, 0)).values]
            ctx.explored += 1
            ctx.count("media-series:%s:%s" % ("rayleigh" if small else "vs-multisphere", "shared-theory" if shared is not None else "default-theory"))
            ctx.nontriv(("media", small, nm, kcase))
            data = dict(kind="media", n=n, nm=nm, wl=wl, r=r, x=x, series=media, cross_sections=[cscat, cabs, cext, g])
            if small:
                m = n / nm
                al = (m * m - 1) / (m * m + 2)
                area = np.pi * r * r
                cs_ray, ca_ray = 8.0 / 3.0 * x ** 4 * abs(al) ** 2 * area, 4.0 * x * al.imag * area
                data["rayleigh"] = [cs_ray, ca_ray]
                if not STAT.see("media:rayleigh:cscat", abs(cscat - cs_ray), TOL_RAY * cs_ray):
                    ctx.violation("mie:rayleigh-cscat:media-series", "cscat does not follow the Rayleigh formula for a particle computed "
                                  "after the same particle in another medium (same size parameter)", data)
                if n.imag and not STAT.see("media:rayleigh:cabs", abs(cabs - ca_ray), TOL_RAY * ca_ray):
                    ctx.violation("mie:rayleigh-cabs:media-series", "cabs does not follow the Rayleigh formula for a particle computed "
                                  "after the same particle in another medium (same size parameter)", data)
            else:
                with warnings.catch_warnings():
                    warnings.simplefilter("ignore")
                    ms4 = [float(v) for v in calc_cross_sections(s, nm, wl, (1, 0), theory=Multisphere(qeps1=1e-9, qeps2=1e-9)).values]
                data["multisphere"] = ms4
                err = max(abs(a - b) / cext for a, b in zip(ms4[:3], (cscat, cabs, cext)))
                if not STAT.see("media:ms-vs-mie", err, TOL_MS):
                    ctx.violation("ms:one-sphere-vs-mie:media-series", "Multisphere(one sphere) and Mie cross sections differ for a particle "
                                  "computed after the same particle in another medium (same size parameter)", data)


def stage_multisphere(ctx):
    """one-sphere cluster vs single-sphere theory; optical theorem and assembly for Multisphere"""
    import numpy as np
    from holopy.scattering import Sphere, Multisphere, calc_cross_sections
    from holopy.scattering.theory import multisphere as msmod
    from holopy.core.metadata import to_vector
    rng = ctx.subrng("ms")
    exprs, metas = [], []
    for kcase in range(ctx.n(14, 120)):
        xmax = 3.0 if (ctx.tier != "thorough" and kcase >= 4) else ctx.n(8.0, 20.0)
        s, nm, wl, k, x, kind, desc = gen_sphere(rng, xmax, layered_p=0.0)
        pol = gen_pol(rng)
        # default truncation tolerances (qeps1 = 1e-5) miss narrow high-order resonances of high-index spheres
        # (measured: 1e-2 at m = 1.845, x = 10.98; 3e-7 with qeps1 = 1e-8), so outside (x <= 5 or Re m <= 1.5)
        # the documented accuracy knobs are tightened
        n_out = desc["n"]
        if x > 5 and complex(n_out).real / nm > 1.5:
            th = Multisphere(qeps1=1e-9, qeps2=1e-9)
            ctx.count("ms:tight-qeps")
        else:
            th = Multisphere()
        form = POL_FORMS[kcase % len(POL_FORMS)]
        amp = rng.choice([0.5, 2.5, 3.0, 0.125])
        mie4 = [float(v) for v in calc_cross_sections(s, nm, wl, pol_form(pol, form, amp)).values]
        with warnings.catch_warnings():
            warnings.simplefilter("ignore")
            ms4 = [float(v) for v in calc_cross_sections(s, nm, wl, pol_form(pol, form, amp), theory=th).values]
        ctx.explored += 1
        ctx.count("ms:" + kind)
        ctx.count("ms:polarisation-form:" + form)
        ctx.nontriv(("ms", kind, round(x, 2)))
        data = dict(kind="ms", sphere=desc, pol=pol, pol_form=form, pol_amplitude=amp, mie=mie4, multisphere=ms4)
        sc = mie4[2]
        err = max(abs(ms4[i] - mie4[i]) / sc for i in range(3))
        if not STAT.see("ms-vs-mie:cross-sections", err, TOL_MS):
            ctx.violation("ms:one-sphere-vs-mie:" + kind, "Multisphere(one sphere) cross sections differ from Mie", data)
        if not STAT.see("ms-vs-mie:g", abs(ms4[3] - mie4[3]), TOL_MS):
            ctx.violation("ms:one-sphere-vs-mie-g:" + kind, "Multisphere(one sphere) asymmetry differs from Mie", data)
        if not STAT.see("ms:split", abs(ms4[2] - ms4[0] - ms4[1]), TOL_SPLIT * ms4[2]):
            ctx.violation("ms:split", "Multisphere: cext != cscat + cabs", data)
        if not (ms4[0] > 0 and -1 <= ms4[3] <= 1):
            ctx.violation("ms:ranges", "Multisphere: cscat <= 0 or g outside [-1, 1]", data)
        # optical theorem through the public scattering matrix of the cluster theory
        S0 = forward_S(s, nm, wl, theory=th)
        pn = np.array(pol) / math.hypot(*pol)
        a = pn * np.array([1., -1.])
        ot = 4 * np.pi / k ** 2 * float(np.dot(pn, np.dot(S0, a) * np.array([1., -1.])).real)
        data["S_forward"] = [complex(v) for v in S0.ravel()]
        if not STAT.see("ms:optical-theorem", abs(ot - ms4[2]), 1e-9 * ms4[2]):
            ctx.violation("ms:optical-theorem", "Multisphere: cext != 4 pi/k^2 Re(pol . S(0) pol)", data)
        # assembly of raw_cross_sections versus the model (quick: small spheres only, dblquad is slow)
        if x < 1.5 or ctx.tier == "thorough" and kcase % 4 == 0:
            polv = to_vector(pol)
            amn, lmax = th._scsmfo_setup(s, medium_wavevec=k, medium_index=nm)
            ce = float(th._calc_cext(s, k, nm, polv, amn=amn, lmax=lmax))
            csq = float(th._calc_cscat(s, k, nm, polv, amn=amn, lmax=lmax))
            ai = float(th._calc_asym(k, polv, amn, lmax))
            pnn = msmod.normalize_polarization(polv)
            gamma = float(np.arctan2(float(pnn[1]), float(pnn[0])))
            asm = msmod._asm_far(0., 0., amn, lmax)
            e = ("near4 %s %s (ms_raw_cross_sections QOr (ms_cext QOr %s %s %s %s %s) (ms_cscat QOr %s %s %s %s %s) %s) "
                 "(%s, %s, %s, %s)" % (
                     qlit(1e-9), qlit(ms4[2]), qlit(math.pi), qlit(k), smat(asm), qlit(float(pnn[0])), qlit(float(pnn[1])),
                     qlit(math.pi), qlit(k), amn_rows(amn), qlit(float(np.cos(2. * gamma))), qlit(float(np.sin(2. * gamma))),
                     qlit(ai), qlit(ms4[0]), qlit(ms4[1]), qlit(ms4[2]), qlit(ms4[3])))
            exprs.append("if %s then 0%%Z else 1%%Z" % e)
            metas.append(dict(stage="ms", sphere=desc, pol=pol, impl=dict(cross_sections=ms4, cext=ce, cscat=csq, asym_int=ai)))
            ctx.count("ms:assembly")
    report(ctx, "C03ms", exprs, metas, ["raw_cross_sections"])


def stage_clusters(ctx):
    """energy bookkeeping of the cluster theory on clusters WITHOUT mirror symmetry about the polarisation (dimers and
    trimers lying obliquely in the x-y plane, polarisation off the axes): for real indices the absorption vanishes
    (scattering from the coefficient sums = extinction from the optical theorem), for absorbing ones it is positive.
    (The solid-angle integral of a CLUSTER's public scattering matrix is not compared: the property asks for the integral
    forms for spheres; on the unchanged tree it differs from the coefficient sum by ~1e-3 for dimers.)"""
    import numpy as np
    from holopy.scattering import Sphere, Spheres, Multisphere, calc_cross_sections, calc_scat_matrix
    from holopy.core.metadata import detector_points
    rng = ctx.subrng("clusters")
    for kcase in range(ctx.n(8, 40)):
        nm, wl = gen_medium(rng)
        k = 2 * np.pi / (wl / nm)
        nsph = rng.choice([2, 2, 3])
        absorbing = kcase % 4 == 3
        r = [rng.uniform(1.5, 4.0) / k for _ in range(nsph)]
        ang = rng.uniform(0, 2 * np.pi)
        cs = [(0.0, 0.0, 0.0)]
        for i in range(1, nsph):
            d = (r[i - 1] + r[i]) * rng.uniform(1.05, 1.6)
            a = ang + rng.uniform(-0.9, 0.9)
            cs.append((cs[-1][0] + d * np.cos(a), cs[-1][1] + d * np.sin(a), cs[-1][2] + rng.uniform(-0.3, 0.3) * d))
        ns = [complex(rng.uniform(1.15, 1.5) * nm, (rng.uniform(0.005, 0.05) if absorbing else 0.0)) for _ in range(nsph)]
        sc = Spheres([Sphere(n=(n if n.imag else n.real), r=rr, center=c) for n, rr, c in zip(ns, r, cs)], warn=False)
        g = rng.uniform(0, np.pi)
        pol = (float(np.cos(g)), float(np.sin(g)))
        with warnings.catch_warnings():
            warnings.simplefilter("ignore")
            try:
                cscat, cabs, cext, asym = [float(v) for v in calc_cross_sections(sc, nm, wl, pol, theory=Multisphere(qeps1=1e-9, qeps2=1e-9)).values]
            except Exception as e:  # noqa
                if type(e).__name__ == "MultisphereFailure":
                    ctx.count("clusters:no-convergence")
                    continue
                raise
        ctx.explored += 1
        ctx.count("clusters:%d:%s" % (nsph, "absorbing" if absorbing else "real"))
        ctx.nontriv(("cluster", nsph, absorbing, kcase))
        data = dict(kind="cluster", n=ns, r=r, centers=cs, nm=nm, wl=wl, pol=pol, cross_sections=[cscat, cabs, cext, asym])
        if not all(math.isfinite(v) for v in (cscat, cabs, cext, asym)) or not (cscat > 0 and -1 <= asym <= 1):
            ctx.violation("ms:cluster:ranges", "cluster cross sections not finite / cscat <= 0 / g outside [-1, 1]", data)
            continue
        if not absorbing:
            if not STAT.see("cluster:cabs=0(real)", abs(cabs), 5e-4 * cext):   # solver accuracy: <= 5e-5 measured with tight qeps
                ctx.violation("ms:cluster-cabs", "a cluster of real-index spheres lying obliquely to the polarisation has a non-zero "
                              "absorption cross section (%.3g of cext): scattering from the coefficient sums and extinction from the "
                              "optical theorem disagree" % (cabs / cext), data)
        elif not cabs > 0:
            ctx.violation("ms:cluster-cabs-negative", "a cluster of absorbing spheres has cabs <= 0", data)

def stage_multisphere_large(ctx):
    """one-sphere cluster vs single-sphere theory near the upper end of the cluster code's single-sphere range
    (size parameter 14-19, moderate index so that the default truncation tolerances are adequate): all four numbers,
    and the reported asymmetry against the solid-angle integral of the cluster theory's own scattering matrix"""
    import numpy as np
    from holopy.scattering import Sphere, Multisphere, calc_cross_sections
    rng = ctx.subrng("ms-large")
    for kcase in range(ctx.n(4, 12)):
        nm, wl = gen_medium(rng)
        k = 2 * np.pi / (wl / nm)
        x = rng.uniform(14.0, 19.0)
        n = complex(rng.uniform(1.15, 1.5), rng.choice([0.0, 0.0, loguni(rng, 1e-4, 1e-2)])) * nm
        if n.imag == 0:
            n = n.real
        s = Sphere(n=n, r=x / k, center=(0, 0, 0))
        pol = gen_pol(rng)
        mie4 = [float(v) for v in calc_cross_sections(s, nm, wl, pol).values]
        with warnings.catch_warnings():
            warnings.simplefilter("ignore")
            ms4 = [float(v) for v in calc_cross_sections(s, nm, wl, pol, theory=Multisphere()).values]
        ctx.explored += 1
        ctx.count("ms-large")
        ctx.nontriv(("ms-large", round(x, 1)))
        data = dict(kind="ms", sphere=dict(n=n, r=x / k, nm=nm, wl=wl, x=x, layers=1), pol=pol, mie=mie4, multisphere=ms4)
        err = max(abs(ms4[i] - mie4[i]) / mie4[2] for i in range(3))
        if not STAT.see("ms-vs-mie:cross-sections", err, TOL_MS):
            ctx.violation("ms:one-sphere-vs-mie:large", "Multisphere(one sphere) cross sections differ from Mie (size parameter 14-19)", data)
        if not STAT.see("ms-vs-mie:g", abs(ms4[3] - mie4[3]), TOL_MS):
            ctx.violation("ms:one-sphere-vs-mie-g:large", "Multisphere(one sphere) asymmetry differs from Mie (size parameter 14-19)", data)


def stage_quadrature_large(ctx):
    """integral forms at large size parameter, where the Gauss-Legendre rule needs several hundred nodes (one
    calc_scat_matrix call with 300-600 angles), and independence of a scattering-matrix entry from the batch it was
    computed in (the same angles asked for in a small batch)"""
    import numpy as np
    from holopy.scattering import Mie, calc_cross_sections, calc_scat_matrix
    from holopy.core.metadata import detector_points
    rng = ctx.subrng("quad-large")
    for kcase in range(ctx.n(5, 30)):
        s, nm, wl, k, x, kind, desc = gen_sphere(rng, 30.0, layered_p=0.3)
        # rescale the generated sphere to a large size parameter
        xt = rng.uniform(230.0, 470.0) if kcase % 5 else rng.uniform(90.0, 130.0)
        f = xt / x
        from holopy.scattering import Sphere
        rr = [float(v) * f for v in np.atleast_1d(s.r)]
        s = Sphere(n=s.n, r=rr if len(rr) > 1 else rr[0], center=(0, 0, 0))
        desc = dict(desc, r=rr, x=xt)
        if nonfinite_key(dict(desc, n=[complex(v) for v in np.atleast_1d(s.n)]), "").endswith("exp-overflow"):
            continue    # the recorded overflow finding; layered-corners reports it
        cscat, cabs, cext, g = [float(v) for v in calc_cross_sections(s, nm, wl, (1, 0)).values]
        if not all(math.isfinite(v) for v in (cscat, cabs, cext, g)):
            continue    # reported by the other stages under their own keys
        nco = Mie()._scat_coeffs(s, k, nm).shape[1]
        npts = max(nco + 8, 300)
        if kcase % 2 == 0:
            npts = max(npts, rng.choice([2100, 2600, 4200]))      # a few thousand angles in one call (an image-sized detector)
        cq_, gq = gl_cscat_g(s, nm, wl, k, npts)
        ctx.explored += 1
        ctx.count("quad-large")
        ctx.nontriv(("quad-large", kind, desc["layers"], round(xt, -1)))
        data = dict(kind="xmie", sphere=desc, pol=(1, 0), cross_sections=[cscat, cabs, cext, g], quadrature=[cq_, gq], nodes=npts)
        cls = "%s:%s" % ("layered" if desc["layers"] > 1 else "uniform", kind)
        if not STAT.see("quadrature-large:cscat", abs(cq_ - cscat), TOL_QUAD * cscat):
            ctx.violation("mie:integral-cscat:large:" + cls, "cscat differs from the solid-angle integral of |S|^2 (size parameter > 90, "
                          "%d quadrature angles in one call)" % npts, data)
        if not STAT.see("quadrature-large:g", abs(gq - g), TOL_QUAD):
            ctx.violation("mie:integral-g:large:" + cls, "asymmetry parameter differs from the integral form (size parameter > 90)", data)
        # an entry does not depend on the batch: 5 of the angles again, alone
        mu, w = np.polynomial.legendre.leggauss(npts)
        th = np.arccos(mu)
        big = calc_scat_matrix(detector_points(theta=th, phi=np.zeros_like(th)), s, nm, wl).values
        idx = sorted(rng.sample(range(npts), 5))
        small = calc_scat_matrix(detector_points(theta=th[idx], phi=np.zeros(5)), s, nm, wl).values
        dev = float(np.abs(big[idx] - small).max() / np.abs(big).max())
        if not STAT.see("smatrix:batch-independence", dev, 1e-9):
            ctx.violation("mie:smatrix-batch:" + cls, "scattering-matrix entries depend on how many angles are requested in one call "
                          "(max relative deviation %.2e)" % dev, dict(data, angles_idx=idx))


MIESCATLIB = "holopy/scattering/theory/mie_f/miescatlib.py"
_ARR = [("al", "C"), ("bl", "C")]


def _src_items():
    from harness.lib import pyarr
    return [
        dict(file=MIESCATLIB, qualname="(header)", name="asum", fn=lambda repo: pyarr.HEADER),
        dict(file=MIESCATLIB, qualname="cross_sections", name="cross_sections_src",
             fn=lambda repo: pyarr.translate(repo, MIESCATLIB, "cross_sections", "cross_sections_src", _ARR)),
        dict(file=MIESCATLIB, qualname="asymmetry_parameter", name="asym_src",
             fn=lambda repo: pyarr.translate(repo, MIESCATLIB, "asymmetry_parameter", "asym_src", _ARR)),
        dict(file="holopy/scattering/theory/mie.py", qualname="Mie.raw_cross_sections", name="raw_cross_sections_src",
             fn=lambda repo: pyarr.translate_mixed(
                 repo, "holopy/scattering/theory/mie.py", "Mie.raw_cross_sections", "raw_cross_sections_src",
                 [("medium_wavevec", "R")], _ARR, {"self._scat_coeffs"},
                 {"miescatlib.cross_sections": ("cross_sections_src", 3)},
                 {"miescatlib.asymmetry_parameter": "asym_src"})),
        dict(file=MIESCATLIB, qualname="scatcoeffs (an, bn)", name="scat_elem_src",
             fn=lambda repo: pyarr.translate_elementwise(
                 repo, MIESCATLIB, "scatcoeffs", "scat_elem_src",
                 [("Dnmx", "C"), ("psi", "R"), ("xi", "C"), ("psishift", "R"), ("xishift", "C")], [("m", "C"), ("x", "R")], ["an", "bn"],
                 ["m", "x", "nstop", "eps1", "eps2"], opaque={"Dnmx": 0, "psi": 1, "xi": 2, "psishift": 3, "xishift": 4},
                 opaque_calls={"dn_1_down", "mie_specfuncs.riccati_psi_xi", "np.concatenate"}, len_exprs={"nstop + 1"})),
    ]


def stage_srctie(ctx):
    from harness.lib import srctie
    ok = srctie.run(ctx, "C03", "From Coq Require Import Psatz.\nFrom HV Require Import C03.Model C03.Lemmas C03.Props.\n",
                    _src_items())
    ctx.count("srctie:%s" % ("ok" if ok else "broken"))


def run(ctx):
    ctx.rule = ("spheres: size parameter 1e-3..100 (exploration to 500 in the thorough tier), relative index real "
                "(incl. < 1), weakly and strongly absorbing, 1-3 layers, media 1.0-1.7, wavelengths 0.3-1.2, random "
                "polarisations; synthetic dyadic coefficient lists of length 1-21 for the library sums and the "
                "multisphere formulas; non-trivial = distinct (index class, layers, expansion order / size decade)")
    ctx.clauses_proved = [
        "cext = cscat + cabs (Mie and Multisphere assembly)",
        "real relative index: Bohren-Huffman coefficients have the form N/(N+iM) => sum(2l+1)Re(a+b) = "
        "sum(2l+1)(|a|^2+|b|^2) for every expansion order => cabs = 0 identically",
        "cscat >= 0; > 0 when some coefficient is non-zero",
        "pi_n(1) = tau_n(1) = n(n+1)/2 for every n by the code's recurrence; S1(0) = S2(0) = 1/2 sum(2l+1)(a+b)",
        "optical theorem 4pi/k^2 Re S(0) = cext for every coefficient list; Multisphere._calc_cext on a "
        "sphere-like forward matrix gives the same value for every unit polarisation",
        "gamma interpolation of Multisphere._calc_cscat: nodes 0, pi/2, pi/4, pi-periodic, sum of squares (>= 0)",
        "wavevector formula; s^2 scaling of the three cross sections, invariance of g and of the size parameter",
        "executed Q instance = R instance on the sums"]
    ctx.clauses_explored = [
        "cabs >= 0 for absorbing spheres (analytic property of Mie coefficients; sampled)",
        "|g| <= 1 (sampled)",
        "cscat and g equal the solid-angle integrals of |S|^2 (Gauss-Legendre quadrature through calc_scat_matrix)",
        "Rayleigh limit for x <= 0.01 (1e-3 relative)",
        "Multisphere(one sphere) reports the same four numbers as Mie (1e-4), x <= 20 (the cluster code truncates "
        "single-sphere expansions at order nod = 32, i.e. x < ~27)",
        "numerical optical theorem on the implementation (Mie 2e-6: asm_mie_far forms its prefactor in REAL*4; "
        "Multisphere 1e-9)",
        "D_n(mx) exactly real and psi_n chi_{n-1} - psi_{n-1} chi_n = 1 for real arguments (hypotheses of "
        "mie_real_index_cabs_zero, sampled)"]
    ctx.trusted += [
        "oracle: pi (math.pi), cos(theta) inside pisandtaus, cos/sin(2 gamma), arctan2, sqrt in normalize_polarization",
        "oracle: D_n(mx) from lentz_dn1/dn_1_down, psi_n, chi_n from scipy riccati_jn/riccati_yn "
        "(hypothesis row_ok: D_n real, cross product non-zero; sampled each run)",
        "oracle: multilayer recursion (Yang 2003) producing H^a, H^b; only its last Bohren-Huffman step is modelled",
        "oracle: scsmfo_min.amncalc expansion coefficients, uts_scsmfo.asm forward matrix, scipy dblquad in _calc_asym",
        "oracle: numpy.polynomial.legendre.leggauss nodes/weights (exploration only)"]
    import time
    times = []

    def timed(tag, fn, *a):
        t = time.time()
        guarded(ctx, tag, fn, *a)
        times.append("%s=%.0fs" % (tag, time.time() - t))
    ctx.clauses_proved.append(
        "source tie: miescatlib.cross_sections, miescatlib.asymmetry_parameter (numpy vector code read elementwise) and "
        "Mie.raw_cross_sections, translated from the current source text on every run, are proved equal to the model's sums "
        "for every coefficient list; cabs = cext - cscat, cscat >= 0, cabs = 0 for real-form coefficients and the optical "
        "theorem restated for the translated source; the two formula lines of miescatlib.scatcoeffs (Bohren-Huffman 4.88), read "
        "elementwise, are the model's bh_pair at every order for every value of D_n, psi_n, chi_n, hence the whole coefficient "
        "list; 'real relative index => zero absorption for every order' restated through the translated formulas")
    ctx.trusted.append("translator harness/lib/pyarr.py (numpy elementwise arithmetic over equally long 1-D arrays and .sum() read "
                       "as list folds over R; float rounding ignored; input guards `if isinstance(..): raise` dropped)")
    timed("prove", ctx.prove)
    timed("source-tie", stage_srctie, ctx)
    boot.boot()
    timed("lib", stage_lib, ctx)
    timed("coef", stage_coef, ctx)
    timed("mie", stage_mie, ctx)
    timed("ms-formulas", stage_ms_formulas, ctx)
    timed("explore-mie", stage_explore_mie, ctx)
    timed("rayleigh", stage_rayleigh, ctx)
    timed("layered-small", stage_layered_small, ctx)
    timed("layered-corners", stage_layered_corners, ctx)
    timed("media-series", stage_media_series, ctx)
    timed("multisphere", stage_multisphere, ctx)
    timed("multisphere-large", stage_multisphere_large, ctx)
    timed("clusters", stage_clusters, ctx)
    timed("quadrature-large", stage_quadrature_large, ctx)
    ctx.notes.append("stage wall times: " + ", ".join(times))
    ctx.notes.append("max observed error / tolerance per check: " +
                     ", ".join("%s=%.2g" % kv for kv in sorted(STAT.m.items())))


def replay(ctx, data):
    """re-run the stored failing case on the current tree"""
    import numpy as np
    boot.boot()
    d = data["data"]
    kind = d.get("kind")
    if kind == "tie":
        ctx.prove()
        stage_srctie(ctx)
        return
    if kind in ("xmie", "ms", "rayleigh"):
        from holopy.scattering import Sphere, Multisphere, calc_cross_sections
        if kind == "rayleigh":
            n, r, nm, wl, pol = _cplx(d["n"]), d["r"], d["nm"], d["wl"], (1, 0)
            n = n.real if n.imag == 0 else n
        else:
            sp = d["sphere"]
            n = [_num(v) for v in sp["n"]] if isinstance(sp["n"], list) else _num(sp["n"])
            r, nm, wl, pol = sp["r"], sp["nm"], sp["wl"], tuple(d["pol"])
        s = Sphere(n=n, r=r, center=(0, 0, 0))
        k = 2 * np.pi / (wl / nm)
        cs = [float(v) for v in calc_cross_sections(s, nm, wl, pol).values]
        S0 = forward_S(s, nm, wl)
        print("replay: Mie cross sections (cscat, cabs, cext, g) = %r" % (cs,))
        print("replay: 4pi/k^2 Re S(0) = %r" % (4 * np.pi / k ** 2 * S0[0, 0].real))
        if kind == "ms":
            polarg = pol_form(pol, d.get("pol_form", "tuple"), d.get("pol_amplitude", 1.0))
            ms = [float(v) for v in calc_cross_sections(s, nm, wl, polarg, theory=Multisphere()).values]
            print("replay: Multisphere cross sections (polarisation given as %s) = %r" % (d.get("pol_form", "tuple"), ms,))
        print("replay: recorded = %r" % {k_: d[k_] for k_ in d if k_ in ("cross_sections", "mie", "multisphere", "rayleigh")})
    print("replay: re-running the whole check with the recorded seed to re-evaluate the failing predicate")
    ctx.seed = data.get("seed", ctx.seed)
    ctx.tier = data.get("tier", ctx.tier)
    run(ctx)


def _cplx(v):
    return complex(v["re"], v["im"]) if isinstance(v, dict) else complex(v)


def _num(v):
    z = _cplx(v)
    return z.real if z.imag == 0 else z

"""C07 - pixel value depends only on position: grids, points, crops, subsets agree.

Proof obligations (coq/C07/Props.v) + exact correspondence of the index / coordinate / selection
model with the implementation (observed through public entry points and a mock ScatteringTheory,
the documented extension point) + direct exploration with the real theories and of input purity."""
import math

from harness.lib import boot
from harness.lib.coqrun import qlit, zlit, blit, listlit, run_mismatch_cases
from harness.lib.coqrun import strlit as _strlit
from harness.lib.ctx import guarded

REQ = ("From HV Require Import Common.Generic Common.Cmp C07.Model.\n"
       "Open Scope Q_scope.\n")
DEFS = """
Definition q3_eqb (a b : Q * Q * Q) : bool :=
  let '(a1, a2, a3) := a in let '(b1, b2, b3) := b in Qeq_bool a1 b1 && Qeq_bool a2 b2 && Qeq_bool a3 b3.
Definition poslist_eqb := list_eqb q3_eqb.
Definition axes_eqb (a b : axes Q) : bool :=
  let '(x, y, z) := a in let '(x', y', z') := b in qlist_eqb x x' && qlist_eqb y y' && qlist_eqb z z'.
Definition c_close (tol : Q) (a b : Q * Q) : bool := qclose tol (fst a) (fst b) && qclose tol (snd a) (snd b).
Definition f_close (tol : Q) (a b : field Q) : bool :=
  let '(a1, a2, a3) := a in let '(b1, b2, b3) := b in c_close tol a1 b1 && c_close tol a2 b2 && c_close tol a3 b3.
Definition flist_close (tol : Q) := list_eqb (f_close tol).
Definition F (a b c : Q) : list (pos Q) -> list (field Q) := map (mock_f QO a b c).
Definition od_eqb (a b : list (string * list Q)) : bool :=
  list_eqb (fun x y => String.eqb (fst x) (fst y) && qlist_eqb (snd x) (snd y)) a b.
Definition av_eqb (a b : option (list Q)) : bool := option_eqb qlist_eqb a b.
Definition attrs_eqb (a b : attrs Q) : bool :=
  list_eqb (fun x y => String.eqb (fst x) (fst y) && av_eqb (snd x) (snd y)) a b.
Arguments RVals {T V W}. Arguments RSub {T V W}. Arguments RDet {T V W}.
Definition det_eqb (d : detector Q Q) (ax : axes Q) (vals : list Q) (at_ : attrs Q) : bool :=
  axes_eqb (d_axes d) ax && qlist_eqb (d_vals d) vals && attrs_eqb (d_attrs d) at_.
Definition rdet_eqb (r : result Q Q (field Q)) (ax : axes Q) (vals : list Q) (at_ : attrs Q) : bool :=
  match r with RDet d => det_eqb d ax vals at_ | _ => false end.
Definition rflat_eqb (r : result Q Q (field Q)) (coords : list (pos Q)) (vals : list Q) : bool :=
  match r with RDet d => poslist_eqb (flat_coords (d_axes d)) coords && qlist_eqb (d_vals d) vals | _ => false end.
Definition rvals_close (tol : Q) (ph : Q * Q) (r : result Q Q (field Q)) (w : list (field Q)) : bool :=
  match r with RVals v => flist_close tol (map (fphase QO ph) v) w | _ => false end.
Definition rsub_eqb (r : result Q Q (field Q)) (vals : list Q) (coords : list (pos Q))
                    (od : list (string * list Q)) (at_ : attrs Q) : bool :=
  match r with
  | RSub s => qlist_eqb (ss_vals s) vals && poslist_eqb (ss_coords s) coords && od_eqb (ss_orig s) od
              && attrs_eqb (ss_attrs s) at_
  | _ => false end.
"""
TOL_ROUND = "(1 # 1000000000000)"     # 1e-12 relative: where numpy rounds (hypot, phase product)
TOL_EXACT = "0"


def strlit(s):
    return _strlit(s) + "%string"


def dy(rng, lo, hi, bits=3):
    s = 1 << bits
    return rng.randint(int(lo * s), int(hi * s)) / s


def poslit(p):
    return "(%s, %s, %s)" % tuple(qlit(float(x)) for x in p)


def qlist(v):
    return listlit([qlit(float(x)) for x in v])


def zlist(v):
    return listlit([zlit(int(x)) for x in v])


def axeslit(xs, ys, zs):
    return "(%s, %s, %s)" % (qlist(xs), qlist(ys), qlist(zs))


def fieldlit(e):
    """e: 3 complex numbers"""
    return "((%s, %s), (%s, %s), (%s, %s))" % tuple(
        qlit(float(v)) for c in e for v in (complex(c).real, complex(c).imag))


def fieldlist(arr):
    return listlit([fieldlit(e) for e in arr])


# ---------------------------------------------------------------------------------------------
# implementation-side helpers

def snap(obj):
    """deep, order-sensitive snapshot of an input object (for the purity clause)"""
    import numpy as np
    import xarray as xr
    if isinstance(obj, xr.DataArray):
        coords = []
        for k, v in obj.coords.items():
            vals = np.asarray(v.values)
            body = repr(vals.tolist()) if vals.dtype == object else vals.tobytes()
            coords.append((str(k), tuple(v.dims), vals.dtype.str, body))
        return ("DA", obj.name, tuple(obj.dims), obj.dtype.str, obj.shape, np.asarray(obj.values).tobytes(),
                tuple(coords), tuple((k, snap(v)) for k, v in obj.attrs.items()))
    if isinstance(obj, np.ndarray):
        return ("ND", obj.dtype.str, obj.shape, obj.tobytes())
    if isinstance(obj, dict):
        return ("D", tuple((k, snap(v)) for k, v in obj.items()))
    if isinstance(obj, (list, tuple)):
        return (type(obj).__name__, tuple(snap(v) for v in obj))
    return repr(obj)


def make_mock():
    import numpy as np
    from holopy.scattering.theory.scatteringtheory import ScatteringTheory

    class MockTheory(ScatteringTheory):
        """exact polynomial of the (cartesian) position; records what it is handed"""
        desired_coordinate_system = 'cartesian'

        def __init__(self, a=1.0, b=1.0, c=1.0):
            self.a, self.b, self.c = a, b, c
            self.log = []

        def can_handle(self, scatterer):
            return True

        def raw_fields(self, pos, scatterer, medium_wavevec, medium_index, illum_polarization):
            pos = np.array(pos, dtype=float)
            self.log.append((pos.copy(), float(medium_wavevec)))
            X, Y, Z = pos
            a, b, c = self.a, self.b, self.c
            ex = (a * X + b * (Y * Z)) + 1j * (c * Y)
            ey = (b * Z + a * (X * Y)) + 1j * X
            ez = (c + X) + 1j * Z
            return np.array([ex, ey, ez])
    return MockTheory


# exact wavevectors: 2*pi/(wl/n) with wl a power-of-two multiple of the float pi
def wave_choices():
    return [(1.0, 2 * math.pi, 1.0), (1.0, math.pi, 2.0), (2.0, math.pi, 4.0), (1.0, 4 * math.pi, 0.5),
            (2.0, 2 * math.pi, 2.0)]


def gen_layout(rng, small=False):
    hi = 6 if small else 9
    mode = rng.random()
    if mode < 0.15:
        nx, ny = 1, rng.randint(1, hi)
    elif mode < 0.3:
        nx, ny = rng.randint(1, hi), 1
    else:
        nx, ny = rng.randint(1, hi), rng.randint(1, hi)
    sx = rng.choice([0.125, 0.25, 0.5, 0.75, 1.0, 1.5, 2.0])
    sy = sx if rng.random() < 0.3 else rng.choice([0.125, 0.25, 0.5, 0.75, 1.0, 1.5, 2.0])
    return nx, ny, sx, sy


def flat_order_values(res, kind):
    """per-pixel values of a result, read BY LABEL in the order (x, y, z) / point / flat"""
    import numpy as np
    if kind == "grid":
        dims = [d for d in ('x', 'y', 'z') if d in res.dims]
        rest = [d for d in res.dims if d not in dims]
        v = res.transpose(*(dims + rest)).values
        n = int(np.prod([res.sizes[d] for d in dims]))
    else:
        d0 = 'point' if 'point' in res.dims else 'flat'
        rest = [d for d in res.dims if d != d0]
        v = res.transpose(d0, *rest).values
        n = res.sizes[d0]
    return v.reshape((n,) + v.shape[len(v.shape) - len(rest):]) if rest else v.reshape(n)


# ---------------------------------------------------------------------------------------------
# stage: coordinates, flat order, stored values, detector_points

def stage_coords(ctx):
    import numpy as np
    from holopy.core.metadata import detector_grid, detector_points, data_grid, flat, from_flat
    rng = ctx.subrng("coords")
    exprs, metas = [], []
    for k in range(ctx.n(120, 1200)):
        nx, ny, sx, sy = gen_layout(rng)
        nz = rng.choice([1, 1, 1, 2, 3])
        if nz == 1:
            z = rng.choice([0, 0, dy(rng, -4, 4)])
            arr = np.array([[float(rng.randint(-50, 50)) for _ in range(ny)] for _ in range(nx)])
            if rng.random() < 0.3 and z == 0:
                arr0 = np.zeros((nx, ny))
                d = detector_grid((nx, ny) if (nx != ny or rng.random() < 0.5) else nx,
                                  (sx, sy) if (sx != sy or rng.random() < 0.5) else sx)
                arr = arr0
            else:
                d = data_grid(arr, spacing=(sx, sy), z=z)
            zs = [z]
            store = arr.reshape(1, nx, ny)
        else:
            zs = sorted(set(dy(rng, -4, 4) for _ in range(nz)))
            nz = len(zs)
            store = np.array([[[float(rng.randint(-50, 50)) for _ in range(ny)] for _ in range(nx)]
                              for _ in range(nz)])
            d = data_grid(store, spacing=(sx, sy), z=zs)
        before = snap(d)
        f = flat(d)
        xs, ys, zz = d.x.values, d.y.values, d.z.values
        ctx.count("shape:%s" % ("1xN" if nx == 1 else "Nx1" if ny == 1 else "NxM"))
        ctx.count("nz:%d" % nz)
        ctx.nontriv(("layout", nx, ny, nz, sx, sy))
        mk = ("make_coords QO %s %s %s %s %s" % (zlit(nx), zlit(ny), qlit(sx), qlit(sy), qlit(float(zs[0])))
              if nz == 1 else "(arange_mul QO %s %s, arange_mul QO %s %s, %s)" % (
                  zlit(nx), qlit(sx), zlit(ny), qlit(sy), qlist(zs)))
        e1 = "axes_eqb (%s) %s" % (mk, axeslit(xs, ys, zz))
        fc = list(zip(f.x.values, f.y.values, f.z.values))
        e2 = "poslist_eqb (flat_coords (%s)) %s" % (mk, listlit([poslit(p) for p in fc]))
        e3 = "qlist_eqb (stack_vals 0 %s %s %s %s) %s" % (zlit(nx), zlit(ny), zlit(nz),
                                                         qlist(np.asarray(d.values).ravel()), qlist(f.values))
        # from_flat(flat(d)) read by label at (i,j,l) = element flat_index of the flat list
        back = from_flat(f)
        bl = flat_order_values(back, "grid")
        e4 = ("qlist_eqb (map (fun ijl : Z * Z * Z => let '(i, j, l) := ijl in unstack_at 0 %s %s %s i j l) "
              "(product3 (zrange %s) (zrange %s) (zrange %s))) %s" % (
                  zlit(ny), zlit(nz), qlist(f.values), zlit(nx), zlit(ny), zlit(nz), qlist(bl)))
        for tag, e in (("make_coords", e1), ("flat-coords", e2), ("flat-values", e3), ("from_flat", e4)):
            exprs.append(e)
            metas.append(dict(what=tag, shape=[nx, ny, nz], spacing=[sx, sy], z=list(map(float, zs)),
                              stored=np.asarray(d.values).ravel().tolist(),
                              impl=dict(x=xs.tolist(), y=ys.tolist(), z=[float(v) for v in zz],
                                        flat_values=f.values.tolist())))
        ctx.explored += 1
        if snap(d) != before:
            ctx.violation("purity:flat", "flat()/from_flat() modified its input", dict(kind="purity", op="flat",
                          shape=[nx, ny, nz], spacing=[sx, sy]))
        if k < 2:
            ctx.sample(dict(shape=[nx, ny, nz], spacing=[sx, sy], flat_xyz=[list(map(float, p)) for p in fc[:4]]))
    # detector_points incl. repetition of length-1 coordinates and the z default
    for k in range(ctx.n(40, 400)):
        n = rng.randint(1, 8)
        xs = [dy(rng, -4, 4) for _ in range(rng.choice([n, n, 1]))]
        ys = [dy(rng, -4, 4) for _ in range(rng.choice([n, n, 1]))]
        zmode = rng.choice(["none", "scalar", "list"])
        zs = None if zmode == "none" else [dy(rng, -4, 4)] if zmode == "scalar" else [dy(rng, -4, 4) for _ in range(n)]
        if max(len(xs), len(ys), len(zs or [0])) != n and not (len(xs) == len(ys) == 1 and zmode != "list"):
            xs = [dy(rng, -4, 4) for _ in range(n)]
        p = detector_points(x=xs if len(xs) > 1 else xs[0], y=ys if len(ys) > 1 else ys[0],
                            z=None if zs is None else (zs if len(zs) > 1 else zs[0]))
        got = list(zip(p.x.values, p.y.values, p.z.values))
        e = "poslist_eqb (det_points %s %s %s) %s" % (qlist(xs), qlist(ys), qlist(zs if zs is not None else [0]),
                                                     listlit([poslit(q) for q in got]))
        exprs.append(e)
        metas.append(dict(what="detector_points", x=xs, y=ys, z=zs, impl=[list(map(float, q)) for q in got]))
        ctx.count("points:z-%s" % zmode)
    mism, errors, _ = run_mismatch_cases("C07a", REQ, exprs, defs=DEFS)
    ctx.corr_cases += len(exprs)
    for e in errors:
        ctx.violation("corr-eval-error", "model evaluation failed: " + e[:300], dict(kind="coq-error", log=e), nofail=True)
    for i in mism:
        m = metas[i]
        ctx.disagree("corr:%s" % m["what"], "model and implementation disagree on %s" % m["what"],
                     dict(kind="corr-coords", **m))


# ---------------------------------------------------------------------------------------------
# stage: calculations through calc_field / calc_holo / calc_intensity with the mock theory

def stage_calc(ctx):
    import numpy as np
    from holopy.core.metadata import detector_grid, detector_points, data_grid, flat, make_subset_data, to_vector
    from holopy.core.process import subimage
    from holopy.scattering import Sphere, calc_field, calc_holo, calc_intensity
    Mock = make_mock()
    rng = ctx.subrng("calc")
    exprs, metas = [], []

    def add(tag, variant, e, meta):
        exprs.append(e)
        metas.append(dict(what=tag, variant=variant, **meta))

    for k in range(ctx.n(70, 700)):
        nx, ny, sx, sy = gen_layout(rng)
        mi, wl, kvec = rng.choice(wave_choices())
        c = [dy(rng, -3, 3), dy(rng, -3, 3), rng.choice([0.0, 0.0, dy(rng, 1, 6)])]
        a, b, cc = float(rng.randint(-3, 3)), float(rng.randint(-3, 3)), float(rng.randint(-3, 3))
        pol = rng.choice([(1, 0), (0, 1), (1, 0), (3, 4)])
        scaling = rng.choice([1.0, 0.5, 2.0])
        sph = Sphere(n=1.5, r=0.5, center=tuple(c))
        th = Mock(a, b, cc)
        ph = complex(np.exp(-1j * kvec * c[2]))            # oracle: the phase factor
        tol = TOL_EXACT if c[2] == 0.0 else TOL_ROUND
        phl = "(%s, %s)" % (qlit(ph.real), qlit(ph.imag))
        pv = to_vector(pol).values                          # oracle: normalisation (sqrt)
        Fl = "(F %s %s %s)" % (qlit(a), qlit(b), qlit(cc))
        kl, cl = qlit(kvec), poslit(c)
        z0 = rng.choice([0, 0, dy(rng, -2, 2)])
        base = data_grid(np.zeros((nx, ny)), spacing=(sx, sy), z=z0)
        mk = "make_coords QO %s %s %s %s %s" % (zlit(nx), zlit(ny), qlit(sx), qlit(sy), qlit(float(z0)))
        meta0 = dict(shape=[nx, ny], spacing=[sx, sy], z=float(z0), center=c, wavevec=kvec, medium_index=mi,
                     illum_wavelen=wl, pol=list(pol), scaling=scaling, coef=[a, b, cc])
        variants = ["grid"]
        variants += rng.sample(["shift", "volume", "points", "subset", "crop"], 3)
        full_field = None
        for var in variants:
            ctx.count("calc:" + var)
            sel = None
            if var == "grid":
                det, ax, kind = base, mk, "grid"
            elif var == "shift":
                t = [dy(rng, -8, 8), dy(rng, -8, 8), dy(rng, -2, 2)]
                det = base.assign_coords(x=base.x + t[0], y=base.y + t[1], z=base.z + t[2])
                ax, kind = "shift_axes QO (%s) %s" % (mk, poslit(t)), "grid"
            elif var == "volume":
                zs = sorted(set(dy(rng, -3, 3) for _ in range(rng.choice([2, 3]))))
                det = data_grid(np.zeros((len(zs), nx, ny)), spacing=(sx, sy), z=zs)
                ax, kind = "(arange_mul QO %s %s, arange_mul QO %s %s, %s)" % (
                    zlit(nx), qlit(sx), zlit(ny), qlit(sy), qlist(zs)), "grid"
            elif var == "points":
                f = flat(base)
                order = list(range(nx * ny))
                rng.shuffle(order)
                order = order[:rng.randint(1, nx * ny)]
                px_, py_ = f.x.values[order], f.y.values[order]
                zmode = rng.choice(["same", "none", "list"])
                if zmode == "same":
                    pz = [float(z0)]
                    det = detector_points(x=px_, y=py_, z=float(z0))
                elif zmode == "none":
                    pz = [0.0]
                    det = detector_points(x=px_, y=py_)
                else:
                    pz = [dy(rng, -2, 2) for _ in order]
                    det = detector_points(x=px_, y=py_, z=pz)
                if len(order) == 1:
                    pz = pz[:1]
                ax, kind = "det_points %s %s %s" % (qlist(px_), qlist(py_), qlist(pz)), "points"
            elif var == "subset":
                npix = rng.choice([1, nx * ny, rng.randint(1, nx * ny)])
                seed = rng.choice([0, 1, rng.randint(0, 10 ** 6)])
                det, sel = make_subset_data(base, pixels=npix, return_selection=True, seed=seed)
                sel = [int(s) for s in sel]
                ax, kind = mk, "subset"
                ctx.nontriv(("subset", nx, ny, npix, seed))
            else:  # crop
                c2x, c2y = rng.randint(0, 2 * nx), rng.randint(0, 2 * ny)
                s = rng.choice([2, 2, 4, 4, 6, 1, 3])
                det = subimage(base, (c2x / 2.0, c2y / 2.0), s)
                if det.sizes['x'] == 0 or det.sizes['y'] == 0:
                    ctx.count("calc:crop-empty")
                    continue
                ax = "crop_axes QO (%s) (crop_idx %s %s %s) (crop_idx %s %s %s)" % (
                    mk, zlit(nx), zlit(c2x), zlit(s), zlit(ny), zlit(c2y), zlit(s))
                kind = "grid"
            before = (snap(det), repr(sph))
            th.log = []
            fld = calc_field(det, sph, mi, wl, pol, theory=th)
            handed = th.log[-1][0].T
            hol = calc_holo(det, sph, mi, wl, pol, theory=th, scaling=scaling)
            inten = calc_intensity(det, sph, mi, wl, pol, theory=th)
            after = (snap(det), repr(sph))
            ctx.explored += 1
            if before != after:
                ctx.violation("purity:calc:%s" % var, "calc_field/calc_holo/calc_intensity modified the detector "
                              "or scatterer it was given (%s detector)" % var,
                              dict(kind="purity", op="calc", variant=var, **meta0))
            if abs(th.log[-1][1] - kvec) > 0:
                ctx.violation("oracle:wavevec", "wavevector is not the exact value the generator intended",
                              dict(kind="oracle", got=th.log[-1][1], want=kvec))
            gk = "grid" if kind == "grid" else "flat"
            fv = flat_order_values(fld, gk)
            hv = flat_order_values(hol, gk)
            iv = flat_order_values(inten, gk)
            if kind == "grid":
                coords_e = "flat_coords (%s)" % ax
                calc_e = "calc_grid QO %s %s %s (%s)" % (Fl, kl, cl, ax)
            elif kind == "points":
                coords_e = ax
                calc_e = "calc_points QO %s %s %s (%s)" % (Fl, kl, cl, ax)
            else:
                coords_e = "subset (0, 0, 0) %s (flat_coords (%s))" % (zlist(sel), ax)
                calc_e = "calc_subset QO %s %s %s (%s) %s" % (Fl, kl, cl, ax, zlist(sel))
            meta = dict(meta0, selection=sel, detector=repr(det.coords)[:400],
                        impl=dict(field=[[complex(v).real, complex(v).imag] for e in fv for v in e][:60],
                                  holo=hv.tolist()[:40]))
            add("positions", var, "poslist_eqb (positions QO %s %s (%s)) %s" % (
                kl, cl, coords_e, listlit([poslit(p) for p in handed])), meta)
            add("field", var, "flist_close %s (map (fphase QO %s) (%s)) %s" % (tol, phl, calc_e, fieldlist(fv)), meta)
            add("holo", var, "qlist_close %s (map (fun E => holo_px QO %s %s %s (fphase QO %s E)) (%s)) %s" % (
                TOL_ROUND, qlit(float(pv[0])), qlit(float(pv[1])), qlit(scaling), phl, calc_e, qlist(hv)), meta)
            add("intensity", var, "qlist_close %s (map (fun E => inten_px QO (fphase QO %s E)) (%s)) %s" % (
                TOL_ROUND, phl, calc_e, qlist(iv)), meta)
            # result carries the detector's own coordinates (grids and subsets)
            ctx.explored += 1
            if kind == "grid":
                ok = all(np.array_equal(hol[d_].values, det[d_].values) and
                         np.array_equal(fld[d_].values, det[d_].values) for d_ in "xyz")
            elif kind == "subset":
                ok = all(np.array_equal(hol[d_].values, det[d_].values) for d_ in "xyz") and \
                    "original_dims" in hol.attrs
            else:
                ok = True
            if not ok:
                ctx.violation("coords:result:%s" % var, "result of a calculation does not carry the detector's "
                              "coordinates (%s detector)" % var, dict(kind="result-coords", variant=var, **meta0))
            # direct predicate, independent of the model: same position => same value as on the full grid
            if var == "grid":
                full_field = (fv, hv)
            elif full_field is not None and var in ("subset", "crop") or (var == "points" and full_field is not None
                                                                         and zmode == "same"):
                ctx.explored += 1
                # look the pixels up BY POSITION on the full grid (no assumption on index conventions)
                xi = {float(v): i for i, v in enumerate(base.x.values)}
                yj = {float(v): j for j, v in enumerate(base.y.values)}
                try:
                    if kind == "grid":
                        idx = [xi[float(x)] * ny + yj[float(y)] for x in fld.x.values for y in fld.y.values]
                    else:
                        src = fld if "x" in fld.coords else det     # results on detector_points keep only the point index
                        idx = [xi[float(x)] * ny + yj[float(y)] for x, y in zip(src.x.values, src.y.values)]
                    same = np.array_equal(full_field[0][idx], fv) and np.array_equal(full_field[1][idx], hv)
                except (KeyError, IndexError):   # the detector's coordinates do not even lie on the full grid
                    idx, same = None, False
                if not same:
                    ctx.violation("values:mock:%s" % var, "value at a pixel differs between the full grid and the "
                                  "%s detector (mock theory, exact arithmetic)" % var,
                                  dict(kind="mock-values", variant=var, index=idx, **meta0))
        if k < 2:
            ctx.sample(dict(meta0, holo=full_field[1].tolist()[:6]))
    mism, errors, _ = run_mismatch_cases("C07b", REQ, exprs, defs=DEFS, chunk=150)
    ctx.corr_cases += len(exprs)
    for e in errors:
        ctx.violation("corr-eval-error", "model evaluation failed: " + e[:300], dict(kind="coq-error", log=e), nofail=True)
    for i in mism:
        m = metas[i]
        ctx.disagree("corr:%s:%s" % (m["what"], m["variant"]),
                     "model and implementation disagree on %s of a calculation on a %s detector" % (m["what"], m["variant"]),
                     dict(kind="corr-calc", **m))


# ---------------------------------------------------------------------------------------------
# stage: make_subset_data and subimage on images carrying data and metadata

def attr_lit(v):
    import numpy as np
    if v is None:
        return "None"
    return "(Some %s)" % qlist(np.atleast_1d(np.asarray(getattr(v, "values", v), dtype=float)))


def attrs_lit(attrs, skip=("original_dims",)):
    return listlit(["(%s, %s)" % (strlit(k), attr_lit(v)) for k, v in attrs.items() if k not in skip])


def gen_image(rng, small=False):
    import numpy as np
    from holopy.core.metadata import data_grid
    nx, ny, sx, sy = gen_layout(rng, small)
    arr = np.array([[float(rng.randint(-99, 99)) for _ in range(ny)] for _ in range(nx)])
    kw = {}
    if rng.random() < 0.8:
        kw["medium_index"] = rng.choice([1.0, 1.33, 1.5])
    if rng.random() < 0.8:
        kw["illum_wavelen"] = rng.choice([0.5, 0.66, 1.0])
    if rng.random() < 0.7:
        kw["illum_polarization"] = rng.choice([(1, 0), (0, 1)])
    if rng.random() < 0.5:
        kw["noise_sd"] = rng.choice([0.125, 0.25])
    z = rng.choice([0, 0, dy(rng, -2, 2)])
    im = data_grid(arr, spacing=(sx, sy), z=z, **kw)
    if rng.random() < 0.3:
        tx, ty = dy(rng, -8, 8), dy(rng, -8, 8)
        im = im.assign_coords(x=im.x + tx, y=im.y + ty)
    return im, dict(shape=[nx, ny], spacing=[sx, sy], z=float(z), values=arr.ravel().tolist(),
                    x=im.x.values.tolist(), y=im.y.values.tolist(), attrs={k: repr(v) for k, v in kw.items()})


def subset_cases(ctx, rng):
    """(image, meta, pixels, seed) stream: random + (thorough) bounded-exhaustive shapes x all sizes"""
    for _ in range(ctx.n(120, 600)):
        im, meta = gen_image(rng)
        n = meta["shape"][0] * meta["shape"][1]
        yield im, meta, rng.choice([1, n, rng.randint(1, n), rng.randint(1, n)]), rng.choice(
            [0, 0, 1, rng.randint(0, 2 ** 31 - 1)])
    if ctx.tier == "thorough":
        for nx in range(1, 7):
            for ny in range(1, 7):
                for npix in range(1, nx * ny + 1):
                    im, meta = gen_image(rng, small=True)
                    import numpy as np
                    from holopy.core.metadata import data_grid
                    arr = np.arange(nx * ny, dtype=float).reshape(nx, ny) - 7
                    im = data_grid(arr, spacing=(0.5, 0.25), medium_index=1.33)
                    meta = dict(shape=[nx, ny], spacing=[0.5, 0.25], z=0.0, values=arr.ravel().tolist(),
                                x=im.x.values.tolist(), y=im.y.values.tolist(), attrs={"medium_index": "1.33"})
                    yield im, meta, npix, rng.randint(0, 99)


def stage_subset(ctx):
    import numpy as np
    from holopy.core.metadata import make_subset_data, flat
    rng = ctx.subrng("subset")
    exprs, metas = [], []
    for im, meta, npix, seed in subset_cases(ctx, rng):
        nx, ny = meta["shape"]
        n = nx * ny
        before = snap(im)
        np.random.seed(12345)
        junk = np.random.random(rng.randint(0, 5))            # some other history of the global RNG
        sub, sel = make_subset_data(im, pixels=npix, return_selection=True, seed=seed)
        sel = [int(s) for s in sel]
        np.random.random(rng.randint(0, 5))
        sub2, sel2 = make_subset_data(im, pixels=npix, return_selection=True, seed=seed)
        sub3 = make_subset_data(im, pixels=npix, seed=seed)
        same_obj = make_subset_data(im) is im
        after = snap(im)
        ctx.count("subset:%s" % ("one" if npix == 1 else "all" if npix == n else "some"))
        ctx.count("seed:%s" % ("0" if seed == 0 else "pos"))
        ctx.nontriv(("sub", nx, ny, npix, seed))
        m = dict(meta, pixels=npix, seed=seed, selection=sel)
        # --- direct predicates of the property on the implementation
        ctx.explored += 1
        if before != after:
            ctx.violation("purity:make_subset_data", "make_subset_data modified the image it was given",
                          dict(kind="subset", clause="purity", **m))
        if len(set(sel)) != len(sel) or len(sel) != npix or min(sel) < 0 or max(sel) >= n:
            ctx.violation("subset:distinct", "make_subset_data did not draw %d distinct pixels of the image" % npix,
                          dict(kind="subset", clause="distinct", **m))
        if sel != [int(s) for s in sel2] or not np.array_equal(sub.values, sub2.values) or \
                not np.array_equal(sub.values, sub3.values):
            ctx.violation("subset:seed", "make_subset_data is not reproducible for seed=%r" % seed,
                          dict(kind="subset", clause="seed", selection2=[int(s) for s in sel2], **m))
        if not same_obj:
            ctx.violation("subset:none", "make_subset_data(pixels=None) does not return the image",
                          dict(kind="subset", clause="none", **m))
        fx = flat(im)
        keep_ok = (np.array_equal(sub.values, fx.values[sel]) and np.array_equal(sub.x.values, fx.x.values[sel])
                   and np.array_equal(sub.y.values, fx.y.values[sel]) and np.array_equal(sub.z.values, fx.z.values[sel])
                   and all(k in sub.attrs and snap(sub.attrs[k]) == snap(v) for k, v in im.attrs.items())
                   and sub.name == im.name)
        od = sub.attrs.get("original_dims")
        od_ok = (isinstance(od, dict) and list(od.keys()) == list(im.dims)
                 and all(np.array_equal(od[k_], im[k_].values) for k_ in im.dims))
        if not keep_ok:
            ctx.violation("subset:keeps", "subset does not keep values / coordinates / metadata of the selected pixels",
                          dict(kind="subset", clause="keeps", **m))
        if not od_ok:
            ctx.violation("subset:original_dims", "subset does not remember the original axes",
                          dict(kind="subset", clause="original_dims", **m))
        # --- model: RNG contract on the oracle's output, and what make_subset builds from it
        axl = axeslit(im.x.values, im.y.values, im.z.values)
        exprs.append("sel_ok (tot_pix %s %s) %s %s" % (qlist(im.x.values), qlist(im.y.values), zlit(npix), zlist(sel)))
        metas.append(dict(what="rng-contract", **m))
        odl = listlit(["(%s, %s)" % (strlit(k_), qlist(v)) for k_, v in (od or {}).items()]) if isinstance(od, dict) else "[]"
        e = ("(let s := make_subset QO 0 %s (stack_vals 0 %s %s 1 %s) %s %s in "
             "qlist_eqb (ss_vals s) %s && poslist_eqb (ss_coords s) %s && od_eqb (ss_orig s) %s "
             "&& attrs_eqb (ss_attrs s) %s)" % (
                 axl, zlit(nx), zlit(ny), qlist(np.asarray(im.values).ravel()), attrs_lit(im.attrs), zlist(sel),
                 qlist(sub.values), listlit([poslit(p) for p in zip(sub.x.values, sub.y.values, sub.z.values)]),
                 odl, attrs_lit(sub.attrs)))
        exprs.append(e)
        metas.append(dict(what="make_subset_data", **m))
    # every pixel of the image can be drawn (the range handed to the RNG is the whole image, no off-by-one):
    # union of single-pixel draws over 25*n seeds (deterministic; chance of a miss on correct code ~ n*e^-25)
    from holopy.core.metadata import data_grid
    for nx, ny in [(1, 5), (4, 1), (2, 3), (3, 3)] + ([(5, 4), (1, 1), (6, 6)] if ctx.tier == "thorough" else []):
        n = nx * ny
        im = data_grid(np.arange(n, dtype=float).reshape(nx, ny), spacing=(0.5, 0.25))
        seen_sel, seen_val = set(), set()
        for seed in range(25 * n):
            sub, sel = make_subset_data(im, pixels=1, return_selection=True, seed=seed)
            seen_sel.add(int(sel[0]))
            seen_val.add(float(sub.values[0]))
        ctx.explored += 1
        ctx.count("subset:coverage")
        if seen_sel != set(range(n)) or seen_val != set(float(v) for v in range(n)):
            ctx.violation("subset:coverage", "some pixels of a %dx%d image are never drawn by make_subset_data "
                          "(single-pixel subsets, seeds 0..%d)" % (nx, ny, 25 * n - 1),
                          dict(kind="subset-coverage", shape=[nx, ny], never=sorted(set(range(n)) - seen_sel)))
    mism, errors, _ = run_mismatch_cases("C07c", REQ, exprs, defs=DEFS)
    ctx.corr_cases += len(exprs)
    for e in errors:
        ctx.violation("corr-eval-error", "model evaluation failed: " + e[:300], dict(kind="coq-error", log=e), nofail=True)
    for i in mism:
        ctx.disagree("corr:%s" % metas[i]["what"], "model and implementation disagree on %s" % metas[i]["what"],
                     dict(kind="corr-subset", **metas[i]))


def stage_subset_large(ctx):
    """camera-sized images (several hundred pixels a side) with sparse and dense subsets: the same predicates as
    stage_subset, evaluated directly (no model evaluation: the selection lists are long)"""
    import numpy as np
    from holopy.core.metadata import make_subset_data, detector_grid, flat
    rng = ctx.subrng("subset-large")
    for k in range(ctx.n(4, 16)):
        nx, ny = rng.choice([(512, 512), (600, 520), (768, 700), (300, 1024), (1024, 257)])
        n = nx * ny
        npix = rng.choice([n // 64, n // 100, 3000, n // 300, 5000, n // 7])
        seed = rng.choice([0, 1, rng.randint(2, 9999)])
        im = detector_grid((nx, ny), 0.1)
        im.values[...] = np.arange(n, dtype=float).reshape(im.shape)
        sub, sel = make_subset_data(im, pixels=npix, return_selection=True, seed=seed)
        sub2, sel2 = make_subset_data(im, pixels=npix, return_selection=True, seed=seed)
        sel = np.asarray(sel).astype(int)
        ctx.explored += 1
        ctx.count("subset-large:%dx%d" % (nx, ny))
        ctx.nontriv(("sub-large", nx, ny, npix))
        m = dict(kind="subset-large", shape=[nx, ny], pixels=npix, seed=seed)
        if len(np.unique(sel)) != npix or len(sel) != npix or sel.min() < 0 or sel.max() >= n:
            ctx.violation("subset:distinct:large", "make_subset_data(%d x %d image, pixels=%d) did not draw %d distinct pixels "
                          "(%d distinct)" % (nx, ny, npix, npix, len(np.unique(sel))), dict(clause="distinct", **m))
            continue
        if not np.array_equal(sel, np.asarray(sel2).astype(int)) or not np.array_equal(sub.values, sub2.values):
            ctx.violation("subset:seed:large", "make_subset_data is not reproducible for seed=%r on a %d x %d image" % (seed, nx, ny),
                          dict(clause="seed", **m))
        fx = flat(im)
        if not (np.array_equal(sub.values, fx.values[sel]) and np.array_equal(sub.x.values, fx.x.values[sel])
                and np.array_equal(sub.y.values, fx.y.values[sel])):
            ctx.violation("subset:keeps:large", "subset of a %d x %d image does not keep values / coordinates of the selected pixels"
                          % (nx, ny), dict(clause="keeps", **m))
        od = sub.attrs.get("original_dims")
        if not (isinstance(od, dict) and all(np.array_equal(od[k_], im[k_].values) for k_ in im.dims)):
            ctx.violation("subset:original_dims:large", "subset of a large image does not remember the original axes",
                          dict(clause="original_dims", **m))


def stage_subset_many_draws(ctx):
    """distinctness under many draws: subset sizes around N^(2/3) of a camera-sized image are where a sampler that draws with
    replacement and repairs collisions once (or not at all) most probably ends with a repeated pixel; dozens of seeds per size"""
    import numpy as np
    from holopy.core.metadata import make_subset_data, detector_grid
    rng = ctx.subrng("subset-draws")
    nx, ny = rng.choice([(512, 512), (480, 640)])
    n = nx * ny
    im = detector_grid((nx, ny), 0.1)
    base = int(round(n ** (2.0 / 3.0)))
    for npix in (base // 2, base, n // 50 - 1, n // 50 + 1, 2 * base, 4 * base):
        for k in range(ctx.n(6, 30)):
            seed = rng.randint(0, 99999)
            _, sel = make_subset_data(im, pixels=npix, return_selection=True, seed=seed)
            sel = np.asarray(sel).astype(int)
            ctx.explored += 1
            ctx.count("subset-draws:%d-of-%d" % (npix, n))
            if len(np.unique(sel)) != npix or len(sel) != npix or sel.min() < 0 or sel.max() >= n:
                ctx.violation("subset:distinct:large", "make_subset_data(%d x %d image, pixels=%d, seed=%d) did not draw %d distinct pixels "
                              "(%d distinct)" % (nx, ny, npix, seed, npix, len(np.unique(sel))),
                              dict(kind="subset-large", clause="distinct", shape=[nx, ny], pixels=npix, seed=seed))
                return
        ctx.nontriv(("subset-draws", nx, ny, npix))


def stage_crop_meta(ctx):
    import numpy as np
    from holopy.core.metadata import flat, update_metadata, to_vector
    from holopy.core.process import subimage
    rng = ctx.subrng("crop")
    exprs, metas = [], []
    for k in range(ctx.n(150, 1500)):
        im, meta = gen_image(rng)
        nx, ny = meta["shape"]
        c2x, c2y = rng.randint(-2, 2 * nx + 2), rng.randint(-2, 2 * ny + 2)
        s = rng.choice([2, 2, 4, 4, 6, 8, 1, 3, 5])
        before = snap(im)
        cr = subimage(im, (c2x / 2.0, c2y / 2.0), s)
        after = snap(im)
        ctx.explored += 1
        if before != after:
            ctx.violation("purity:subimage", "subimage modified the image it was given",
                          dict(kind="purity", op="subimage", center=[c2x / 2.0, c2y / 2.0], size=s, **meta))
        empty = cr.sizes['x'] == 0 or cr.sizes['y'] == 0
        ctx.count("crop:%s" % ("empty" if empty else "clipped" if (cr.sizes['x'] < s or cr.sizes['y'] < s) else "full"))
        if not empty:
            ctx.nontriv(("crop", nx, ny, c2x, c2y, s))
        xi = "(crop_idx %s %s %s)" % (zlit(nx), zlit(c2x), zlit(s))
        yj = "(crop_idx %s %s %s)" % (zlit(ny), zlit(c2y), zlit(s))
        axl = axeslit(im.x.values, im.y.values, im.z.values)
        cv = cr.transpose('x', 'y', 'z').values.ravel()
        e = ("axes_eqb (crop_axes QO %s %s %s) %s && qlist_eqb (subset 0 (crop_sel %s 1 %s %s [0%%Z]) "
             "(stack_vals 0 %s %s 1 %s)) %s" % (
                 axl, xi, yj, axeslit(cr.x.values, cr.y.values, cr.z.values), zlit(ny), xi, yj,
                 zlit(nx), zlit(ny), qlist(np.asarray(im.values).ravel()), qlist(cv)))
        exprs.append(e)
        metas.append(dict(what="subimage", center=[c2x / 2.0, c2y / 2.0], size=s,
                          impl=dict(x=cr.x.values.tolist(), y=cr.y.values.tolist(), values=cv.tolist()), **meta))
        ctx.explored += 1
        if not all(snap(cr.attrs[k_]) == snap(v) for k_, v in im.attrs.items()):
            ctx.violation("crop:attrs", "subimage does not keep the metadata", dict(kind="crop-attrs", **meta))
    # update_metadata: works on a copy
    for k in range(ctx.n(60, 600)):
        im, meta = gen_image(rng)
        upd = [rng.choice([None, 1.0, 1.33]), rng.choice([None, 0.5, 0.75]), rng.choice([None, (1, 0), (0, 1), (3, 4)]),
               rng.choice([None, 0.125])]
        if rng.random() < 0.35:
            upd = [None, None, None, None]                     # nothing to update (the usual call inside a fit)
        dropped = [k_ for k_ in ("medium_index", "illum_wavelen", "illum_polarization", "noise_sd")
                   if rng.random() < 0.3]
        for k_ in dropped:                                     # data without some of the standard keys
            del im.attrs[k_]
        ctx.count("meta:%s:%s" % ("noargs" if all(u is None for u in upd) else "args",
                                  "missing-keys" if dropped else "all-keys"))
        before = snap(im)
        attrs_before = attrs_lit(im.attrs)                     # literal of the input as it was BEFORE the call
        out = update_metadata(im, *upd)
        after = snap(im)
        ctx.explored += 1
        if before != after:
            ctx.violation("purity:update_metadata", "update_metadata modified the image it was given",
                          dict(kind="purity", op="update_metadata", update=repr(upd), dropped=dropped, **meta))
        if out is im:
            ctx.violation("alias:identity:update_metadata", "update_metadata returned its input, not a copy",
                          dict(kind="purity", op="update_metadata", update=repr(upd), dropped=dropped, **meta))
        ul = [attr_lit(upd[0]), attr_lit(upd[1]), attr_lit(None if upd[2] is None else to_vector(upd[2])),
              attr_lit(upd[3])]
        e = "(let '(a0, a1) := update_metadata %s %s %s %s %s in attrs_eqb a0 %s && attrs_eqb a1 %s)" % (
            attrs_before, ul[0], ul[1], ul[2], ul[3], attrs_lit(im.attrs), attrs_lit(out.attrs))
        exprs.append(e)
        metas.append(dict(what="update_metadata", update=repr(upd), dropped=dropped,
                          impl=repr(dict(out.attrs))[:300], **meta))
        ctx.count("meta")
    mism, errors, _ = run_mismatch_cases("C07d", REQ, exprs, defs=DEFS)
    ctx.corr_cases += len(exprs)
    for e in errors:
        ctx.violation("corr-eval-error", "model evaluation failed: " + e[:300], dict(kind="coq-error", log=e), nofail=True)
    for i in mism:
        ctx.disagree("corr:%s" % metas[i]["what"], "model and implementation disagree on %s" % metas[i]["what"],
                     dict(kind="corr-crop", **metas[i]))


# ---------------------------------------------------------------------------------------------
# stage: real theories (exploration only) and histories sharing one detector

THEORY_TOL = {"mie": 1e-11, "mie-sup": 1e-11, "multisphere": 1e-11, "tmatrix": 1e-11, "mielens": 1e-8, "lens": 1e-8}


def build_real(name, p):
    from holopy.scattering import Sphere, Spheres, Spheroid, Mie, Multisphere, Tmatrix, MieLens
    from holopy.scattering.theory import Lens
    c = tuple(p["center"])
    if name == "mie":
        return Sphere(n=p["n"], r=p["r"], center=c), Mie()
    if name == "mie-sup":
        return Spheres([Sphere(n=p["n"], r=p["r"], center=c),
                        Sphere(n=1.45, r=0.3, center=(c[0] + 2.5, c[1] - 1.5, c[2] + 1))]), Mie()
    if name == "multisphere":
        return Spheres([Sphere(n=p["n"], r=p["r"], center=c),
                        Sphere(n=1.45, r=0.3, center=(c[0] + 1.0, c[1] + 0.5, c[2] + 0.5))]), Multisphere()
    if name == "tmatrix":
        return Spheroid(n=p["n"], r=(p["r"] * 0.8, p["r"] * 1.2), rotation=(0.1, 0.4, 0.3), center=c), Tmatrix()
    if name == "mielens":
        return Sphere(n=p["n"], r=p["r"], center=c), MieLens(lens_angle=0.8)
    return Sphere(n=p["n"], r=p["r"], center=c), Lens(0.8, Mie())


def mk_points(x, y, z, form):
    """the same explicit points handed over in each documented call form of detector_points"""
    from holopy.core.metadata import detector_points
    if form == "dict":
        return detector_points({"x": x, "y": y, "z": z})
    if form == "dict-z":
        return detector_points({"z": z}, x=x, y=y)
    if form == "positional-dict":
        return detector_points(dict(x=x, y=y), z=z)
    return detector_points(x=x, y=y, z=z)


def real_case(p):
    """evaluate the property's own predicate on the implementation for one configuration;
    returns list of (variant, maxdiff, scale)"""
    import numpy as np
    from holopy.core.metadata import detector_grid, detector_points, make_subset_data, flat
    from holopy.core.process import subimage
    from holopy.scattering import calc_holo, calc_field
    name = p["theory"]
    scat, th = build_real(name, p)
    kw = dict(medium_index=1.33, illum_wavelen=0.66, illum_polarization=tuple(p["pol"]), theory=th)
    nx, ny = p["shape"]
    d = detector_grid((nx, ny), tuple(p["spacing"]))
    if p.get("shift"):
        t = p["shift"]
        d = d.assign_coords(x=d.x + t[0], y=d.y + t[1])
    if p.get("zshift"):
        d = d.assign_coords(z=d.z + p["zshift"])          # a detector plane that is not z = 0
    form = p.get("pts_form", "keywords")
    calc = calc_field if p.get("field") else calc_holo
    out = []
    snaps = (snap(d), repr(scat))
    h = calc(d, scat, **kw)
    hv = flat_order_values(h, "grid")
    scale = float(np.abs(hv).max())
    f = flat(d)
    pts = mk_points(f.x.values, f.y.values, f.z.values, form)
    out.append(("points", float(np.abs(flat_order_values(calc(pts, scat, **kw), "flat") - hv).max()), scale))
    sub, sel = make_subset_data(d, pixels=p["pixels"], return_selection=True, seed=p["seed"])
    hs = calc(sub, scat, **kw)
    # pixels are looked up BY POSITION on the full grid (no assumption on what a selection index means)
    xi = {float(v): i for i, v in enumerate(d.x.values)}
    yj = {float(v): j for j, v in enumerate(d.y.values)}
    try:
        where = [xi[float(x)] * ny + yj[float(y)] for x, y in zip(hs.x.values, hs.y.values)]
        out.append(("subset", float(np.abs(flat_order_values(hs, "flat") - hv[where]).max()), scale))
    except KeyError:
        out.append(("subset", float("inf"), scale))
    if nx >= 2 and ny >= 2:
        cc = (p["crop"][0], p["crop"][1])
        a = subimage(h, cc, 2)
        if a.sizes['x'] and a.sizes['y']:
            b = calc(subimage(d, cc, 2), scat, **kw)
            out.append(("crop", float(np.abs(flat_order_values(a, "grid") - flat_order_values(b, "grid")).max()), scale))
    # a second grid of the same shape, spacing and z at another origin, computed right after the first: against its
    # own point list
    tw = p.get("twin_shift") or [0.35, -0.2]
    d2 = d.assign_coords(x=d.x + tw[0], y=d.y + tw[1])
    f2 = flat(d2)
    pts2 = mk_points(f2.x.values, f2.y.values, f2.z.values, form)
    hv2 = flat_order_values(calc(d2, scat, **kw), "grid")
    out.append(("shifted-twin", float(np.abs(flat_order_values(calc(pts2, scat, **kw), "flat") - hv2).max()), scale))
    # a second calculation on the same detector object gives the same answer (history)
    h2 = calc(d, scat, **kw)
    out.append(("repeat", float(np.abs(flat_order_values(h2, "grid") - hv).max()), scale))
    out.append(("purity", 0.0 if snaps == (snap(d), repr(scat)) else 1.0, 1.0))
    return out


def gen_real(rng, name, large=False):
    nx, ny, sx, sy = gen_layout(rng, small=True)
    if large:
        # several hundred pixels in one call (a detector of ordinary size): a value must not depend on how many
        # other pixels are computed with it
        nx, ny = rng.choice([(19, 23), (1, 300), (310, 1), (17, 17), (24, 12)])
        sx, sy = rng.choice([0.125, 0.25]), rng.choice([0.125, 0.25])
    n = nx * ny
    return dict(theory=name, shape=[nx, ny], spacing=[sx * 0.4, sy * 0.4],
                center=[dy(rng, -1, 3, 4), dy(rng, -1, 3, 4), dy(rng, 4, 9, 4)], n=rng.choice([1.45, 1.59]),
                r=rng.choice([0.3, 0.5, 0.7]), pol=rng.choice([[1, 0], [1, 0], [0, 1]]) if name != "tmatrix" else [1, 0],
                shift=rng.choice([None, [dy(rng, -3, 3), dy(rng, -3, 3)]]),
                zshift=rng.choice([None, 0.5, -0.75, 1.25]), pts_form=rng.choice(["keywords", "dict", "dict-z", "positional-dict"]),
                pixels=(rng.choice([1, n, rng.randint(1, n)]) if not large else rng.randint(2, 9)),
                seed=rng.choice([0, rng.randint(0, 9999)]),
                crop=[rng.randint(0, nx), rng.randint(0, ny)], field=rng.random() < 0.3)


def report_real(ctx, p, res):
    tol = THEORY_TOL[p["theory"]]
    for var, diff, scale in res:
        ctx.explored += 1
        if var == "purity":
            if diff:
                ctx.violation("purity:calc:%s" % p["theory"], "a calculation with %s modified the detector or "
                              "scatterer" % p["theory"], dict(kind="real", variant=var, config=p))
        elif not (diff <= tol * max(scale, 1e-30)):
            ctx.violation("values:%s:%s" % (p["theory"], var),
                          "hologram/field value at the same position differs between the full grid and the %s "
                          "detector for %s: |diff|=%.3g (scale %.3g)" % (var, p["theory"], diff, scale),
                          dict(kind="real", variant=var, diff=diff, scale=scale, config=p))


def stage_real(ctx):
    rng = ctx.subrng("real")
    names = ["mie", "mie-sup", "multisphere", "tmatrix", "mielens", "lens"]
    nlarge = ctx.n(6, 36)
    for k in range(ctx.n(48, 600)):
        name = names[k % len(names)]
        p = gen_real(rng, name, large=(k < nlarge))
        ctx.count("real:" + name + (":large" if k < nlarge else ""))
        ctx.nontriv(("real", name, tuple(p["shape"]), p["pixels"]))
        res = real_case(p)
        report_real(ctx, p, res)
        if k < 2:
            ctx.sample(dict(config=p, diffs=[(v, d) for v, d, _ in res]))


def stage_history(ctx):
    """random sequences of API calls sharing ONE detector (and one scatterer / theory object):
    inputs never change and every result equals the result on a freshly built detector"""
    import numpy as np
    from holopy.core.metadata import make_subset_data, flat, update_metadata
    from holopy.core.process import subimage
    from holopy.scattering import Sphere, Mie, calc_holo, calc_field, calc_intensity
    Mock = make_mock()
    rng = ctx.subrng("history")
    for k in range(ctx.n(40, 400)):
        seed_img = rng.randint(0, 10 ** 9)
        import random as _r

        drop_key = rng.random() < 0.5

        def fresh():
            im, meta = gen_image(_r.Random(seed_img))
            im = update_metadata(im, medium_index=1.0, illum_wavelen=2 * math.pi, illum_polarization=(1, 0))
            if drop_key:                      # data that lacks a standard metadata key (older file, hand-built)
                del im.attrs["noise_sd"]
            return im, meta
        im, meta = fresh()
        nx, ny = meta["shape"]
        use_real = rng.random() < 0.4
        sph = Sphere(n=1.5, r=0.5, center=(dy(rng, -2, 2), dy(rng, -2, 2), dy(rng, 3, 6)))
        th = Mie() if use_real else Mock(1.0, 2.0, -1.0)
        ops = [rng.choice(["holo", "field", "intensity", "subset", "subset-calc", "crop", "crop-calc", "meta", "flat"])
               for _ in range(rng.randint(2, 6))]
        s0 = (snap(im), repr(sph))
        for j, op in enumerate(ops):
            arg = (rng.randint(1, nx * ny), rng.randint(0, 99), rng.randint(0, nx), rng.randint(0, ny))

            def do(det):
                if op == "holo":
                    return calc_holo(det, sph, theory=th)
                if op == "field":
                    return calc_field(det, sph, theory=th)
                if op == "intensity":
                    return calc_intensity(det, sph, theory=th)
                if op == "subset":
                    return make_subset_data(det, pixels=arg[0], seed=arg[1])
                if op == "subset-calc":
                    return calc_holo(make_subset_data(det, pixels=arg[0], seed=arg[1]), sph, theory=th)
                if op == "crop":
                    return subimage(det, (arg[2], arg[3]), 2)
                if op == "crop-calc":
                    c = subimage(det, (arg[2], arg[3]), 2)
                    return calc_holo(c, sph, theory=th) if c.sizes['x'] and c.sizes['y'] else c
                if op == "meta":
                    return update_metadata(det, medium_index=1.5, noise_sd=0.25)
                return flat(det)
            r1 = do(im)
            r2 = do(fresh()[0])
            ctx.explored += 1
            ctx.count("history:" + op)
            data = dict(kind="history", image_seed=seed_img, ops=ops[:j + 1], theory="mie" if use_real else "mock", **meta)
            if (snap(im), repr(sph)) != s0:
                ctx.violation("purity:history:%s" % op, "after the call sequence %s the shared detector / scatterer "
                              "object has changed" % ops[:j + 1], data)
                s0 = (snap(im), repr(sph))
            if snap(r1) != snap(r2):
                ctx.violation("history:%s" % op, "result of %s on a detector that was used before differs from the "
                              "result on a fresh detector (sequence %s)" % (op, ops[:j + 1]), data)
        ctx.nontriv(("hist", tuple(ops)))


def stage_run(ctx):
    """the model's [run] (the object of theorem inputs_unchanged) against the implementation: a sequence of API
    calls on ONE image; every result and the image left behind are compared with what [run] computes"""
    import numpy as np
    from holopy.core.metadata import make_subset_data, flat, update_metadata, to_vector
    from holopy.core.process import subimage
    from holopy.scattering import Sphere, calc_field
    Mock = make_mock()
    rng = ctx.subrng("run")
    exprs, metas = [], []

    def det_lits(im):
        f = flat(im)
        return (axeslit(im.x.values, im.y.values, im.z.values), qlist(f.values), attrs_lit(im.attrs))

    for k in range(ctx.n(40, 400)):
        im, meta = gen_image(rng)
        mi, wl, kvec = rng.choice(wave_choices())
        im = update_metadata(im, medium_index=mi, illum_wavelen=wl, illum_polarization=rng.choice([(1, 0), (0, 1)]))
        nx, ny = meta["shape"]
        c = [dy(rng, -3, 3), dy(rng, -3, 3), rng.choice([0.0, 0.0, dy(rng, 1, 6)])]
        a, b, cc = float(rng.randint(-3, 3)), float(rng.randint(-3, 3)), float(rng.randint(-3, 3))
        sph = Sphere(n=1.5, r=0.5, center=tuple(c))
        th = Mock(a, b, cc)
        ph = complex(np.exp(-1j * kvec * c[2]))
        tol = TOL_EXACT if c[2] == 0.0 else TOL_ROUND
        phl = "(%s, %s)" % (qlit(ph.real), qlit(ph.imag))
        ax0, vals0, at0 = det_lits(im)
        names = [rng.choice(["field", "subset", "crop", "meta", "flat"]) for _ in range(rng.randint(2, 5))]
        before = snap(im)
        ops, checks = [], []
        for j, op in enumerate(names):
            r = "r%d" % j
            if op == "field":
                fld = calc_field(im, sph, theory=th)
                ops.append("OpField %s %s" % (qlit(kvec), poslit(c)))
                checks.append("rvals_close %s %s %s %s" % (tol, phl, r, fieldlist(flat_order_values(fld, "grid"))))
            elif op == "subset":
                npix = rng.choice([1, nx * ny, rng.randint(1, nx * ny)])
                sub, sel = make_subset_data(im, pixels=npix, return_selection=True, seed=rng.randint(0, 999))
                od = sub.attrs["original_dims"]
                ops.append("OpSubset %s" % zlist([int(v) for v in sel]))
                checks.append("rsub_eqb %s %s %s %s %s" % (
                    r, qlist(sub.values), listlit([poslit(p) for p in zip(sub.x.values, sub.y.values, sub.z.values)]),
                    listlit(["(%s, %s)" % (strlit(k_), qlist(v)) for k_, v in od.items()]), attrs_lit(sub.attrs)))
            elif op == "crop":
                c2x, c2y = rng.randint(-1, 2 * nx + 1), rng.randint(-1, 2 * ny + 1)
                sz = rng.choice([2, 2, 4, 1, 3])
                cr = subimage(im, (c2x / 2.0, c2y / 2.0), sz)
                ops.append("OpCrop (crop_idx %s %s %s) (crop_idx %s %s %s)" % (
                    zlit(nx), zlit(c2x), zlit(sz), zlit(ny), zlit(c2y), zlit(sz)))
                checks.append("rdet_eqb %s %s %s %s" % (
                    r, axeslit(cr.x.values, cr.y.values, cr.z.values),
                    qlist(cr.transpose('x', 'y', 'z').values.ravel()), attrs_lit(cr.attrs)))
            elif op == "meta":
                upd = [rng.choice([None, 1.0, 1.33]), rng.choice([None, 0.5, 0.75]),
                       rng.choice([None, (1, 0), (3, 4)]), rng.choice([None, 0.125])]
                out = update_metadata(im, *upd)
                ops.append("OpMeta %s %s %s %s" % (attr_lit(upd[0]), attr_lit(upd[1]),
                                                  attr_lit(None if upd[2] is None else to_vector(upd[2])), attr_lit(upd[3])))
                oa, ov, oat = det_lits(out)
                checks.append("rdet_eqb %s %s %s %s" % (r, oa, ov, oat))
            else:
                f = flat(im)
                ops.append("OpFlat")
                checks.append("rflat_eqb %s %s %s" % (
                    r, listlit([poslit(p) for p in zip(f.x.values, f.y.values, f.z.values)]), qlist(f.values)))
            ctx.count("run:" + op)
        ax1, vals1, at1 = det_lits(im)          # the image as the call sequence left it
        ctx.explored += 1
        if snap(im) != before:
            ctx.violation("purity:run", "after the call sequence %s the shared image has changed" % names,
                          dict(kind="purity", op="run", ops=names, **meta))
        rs = "; ".join("r%d" % j for j in range(len(names)))
        e = ("(let '(d1, rs) := run QO 0 (F %s %s %s) (mkDet %s %s %s) %s in det_eqb d1 %s %s %s && "
             "match rs with [%s] => %s | _ => false end)" % (
                 qlit(a), qlit(b), qlit(cc), ax0, vals0, at0, listlit(["(%s)" % o for o in ops]), ax1, vals1, at1,
                 rs, " && ".join("(%s)" % ch for ch in checks)))
        exprs.append(e)
        metas.append(dict(what="run", ops=names, center=c, wavevec=kvec, coef=[a, b, cc], **meta))
        ctx.nontriv(("run", tuple(names), nx, ny))
    mism, errors, _ = run_mismatch_cases("C07e", REQ, exprs, defs=DEFS, chunk=60)
    ctx.corr_cases += len(exprs)
    for e in errors:
        ctx.violation("corr-eval-error", "model evaluation failed: " + e[:300], dict(kind="coq-error", log=e), nofail=True)
    for i in mism:
        ctx.disagree("corr:run", "model [run] and implementation disagree on the results of the call sequence %s "
                     "or on the image it leaves behind" % metas[i]["ops"], dict(kind="corr-run", **metas[i]))


def shared_state(res, det):
    """names of mutable attrs (and 'values') of res that are the same object / share memory with det's"""
    import numpy as np
    import xarray as xr
    out = []
    try:
        if np.shares_memory(np.asarray(res.values), np.asarray(det.values)):
            out.append("values")
    except Exception:
        pass
    for k, v in res.attrs.items():
        w = det.attrs.get(k)
        if w is None or not isinstance(v, (xr.DataArray, np.ndarray, dict, list)):
            continue
        if v is w:
            out.append(k)
        elif hasattr(v, "values") and hasattr(w, "values") and np.shares_memory(np.asarray(v.values), np.asarray(w.values)):
            out.append(k)
    return out


def scribble(res):
    """edit every mutable metadata object of a RESULT in place (relabel polarisation, overwrite arrays)"""
    import numpy as np
    import xarray as xr
    n = 0
    for k, v in list(res.attrs.items()):
        if isinstance(v, xr.DataArray) and v.values.size and v.values.dtype.kind == "f":
            v.values[...] = np.roll(v.values, 1) * 0.5 + 0.25
            n += 1
        elif isinstance(v, np.ndarray) and v.size and v.dtype.kind == "f":
            v[...] = v[::-1] + 1.0
            n += 1
        elif isinstance(v, dict):
            for vv in v.values():
                if isinstance(vv, np.ndarray) and vv.size and vv.dtype.kind == "f":
                    vv[...] = vv + 1.0
                    n += 1
    res.attrs["scribbled"] = True
    return n


def build_alias_detector(p):
    """detectors that carry their optics in attrs (so that NO override is passed to the calculation)"""
    import numpy as np
    import xarray as xr
    from holopy.core.metadata import data_grid, detector_points, flat, to_vector, make_subset_data
    nx, ny = p["shape"]
    sx, sy = p["spacing"]
    optics = dict(medium_index=p["mi"], illum_wavelen=p["wl"], illum_polarization=tuple(p["pol"]))
    arr = np.arange(nx * ny, dtype=float).reshape(nx, ny) - 3
    kind = p["kind"]
    if kind in ("image", "image-delkey", "subset"):
        d = data_grid(arr, spacing=(sx, sy), z=p["z"], noise_sd=p["noise_sd"], **optics)
        for k in p["missing"] if kind == "image-delkey" else []:
            del d.attrs[k]
        if kind == "subset":
            d = make_subset_data(d, pixels=p["pixels"], seed=p["seed"])
        return d
    f = flat(data_grid(arr, spacing=(sx, sy), z=p["z"]))
    if kind == "points":
        d = detector_points(x=f.x.values, y=f.y.values, z=f.z.values)
    else:  # "raw": a plain DataArray with the dims / coords of an image
        d = xr.DataArray(arr.reshape(1, nx, ny), dims=["z", "x", "y"],
                         coords={"z": [float(p["z"])], "x": np.arange(nx) * sx, "y": np.arange(ny) * sy})
    have = {"medium_index": p["mi"], "illum_wavelen": p["wl"], "illum_polarization": to_vector(tuple(p["pol"])),
            "noise_sd": p["noise_sd"]}
    d.attrs.update({k: v for k, v in have.items() if k not in p["missing"]})     # metadata attached by hand
    return d


def alias_case(p):
    """purity / aliasing predicates for calls WITHOUT optics overrides; returns list of (key, what)"""
    import numpy as np
    from holopy.core.metadata import update_metadata
    from holopy.scattering import Sphere, Mie, calc_holo, calc_field, calc_intensity
    bad = []
    sph = Sphere(n=1.5, r=0.5, center=tuple(p["center"]))
    th = Mie() if p["theory"] == "mie" else make_mock()(1.0, 2.0, -1.0)
    det = build_alias_detector(p)
    can_calc = not any(k in p["missing"] for k in ("medium_index", "illum_wavelen", "illum_polarization"))
    calls = [("update_metadata", lambda d: update_metadata(d))]
    if can_calc:
        calls += [("calc_holo", lambda d: calc_holo(d, sph, theory=th)),
                  ("calc_field", lambda d: calc_field(d, sph, theory=th)),
                  ("calc_intensity", lambda d: calc_intensity(d, sph, theory=th))]
    order = p["order"]
    calls = [calls[i % len(calls)] for i in order]
    first = {}
    for name, fn in calls:
        before = snap(det)
        res = fn(det)
        if snap(det) != before:
            bad.append(("purity:noargs:%s" % name, "%s without metadata overrides modified the %s detector it was "
                        "given (attrs before: %s, after: %s)" % (name, p["kind"], before[-1] and
                                                                  [k for k, _ in before[-1]], list(det.attrs))))
            before = snap(det)
        if res is det:
            bad.append(("alias:identity:%s" % name, "%s without metadata overrides returned its input object" % name))
            continue
        sh = shared_state(res, det)
        if sh:
            bad.append(("alias:shared:%s" % name, "result of %s shares mutable state %s with the detector it was "
                        "given" % (name, sh)))
        # a result is the caller's: editing its metadata in place must not reach the detector or later calls
        vals = np.array(res.values, copy=True)
        scribble(res)
        if snap(det) != before:
            bad.append(("alias:edit-result:%s" % name, "editing the metadata of the result of %s in place changed "
                        "the detector" % name))
        if name in first and not np.array_equal(first[name], vals, equal_nan=True):
            bad.append(("history:noargs:%s" % name, "a second %s on the same detector (after the first result's "
                        "metadata was edited in place) differs from the first" % name))
        first.setdefault(name, vals)
        if name != "update_metadata":
            ref = fn(build_alias_detector(p))              # the same call on a freshly built detector
            if not np.array_equal(np.asarray(ref.values), vals, equal_nan=True):
                bad.append(("history:noargs:%s" % name, "%s on a detector that was used before differs from the "
                            "result on a fresh detector" % name))
    return bad


def gen_alias(rng):
    nx, ny, sx, sy = gen_layout(rng, small=True)
    kind = rng.choice(["image", "image-delkey", "points", "raw", "subset", "points", "raw"])
    std = ["medium_index", "illum_wavelen", "illum_polarization", "noise_sd"]
    if kind in ("image", "subset"):
        missing = []
    else:
        missing = ["noise_sd"] if rng.random() < 0.6 else [k for k in std if rng.random() < 0.4]
    return dict(kind=kind, shape=[nx, ny], spacing=[sx * 0.4, sy * 0.4], z=rng.choice([0.0, dy(rng, -1, 1)]),
                mi=rng.choice([1.0, 1.33]), wl=rng.choice([0.5, 0.66]), pol=rng.choice([[1, 0], [0, 1], [3, 4]]),
                noise_sd=rng.choice([None, 0.125]), missing=missing, pixels=rng.randint(1, nx * ny),
                seed=rng.randint(0, 99), center=[dy(rng, -1, 2), dy(rng, -1, 2), dy(rng, 4, 8)],
                theory=rng.choice(["mock", "mock", "mie"]), order=[rng.randint(0, 3) for _ in range(rng.randint(2, 5))])


def report_alias(ctx, p, bad):
    for key, what in bad:
        ctx.violation(key, what, dict(kind="alias", config=p))


def stage_alias(ctx):
    """calls that pass NO optics overrides (the detector carries them), on detectors with all / some / none of the
    standard metadata keys: input untouched, result is a new object sharing no mutable state with the input,
    in-place edits of a result never reach the detector or a later calculation"""
    rng = ctx.subrng("alias")
    for k in range(ctx.n(60, 500)):
        p = gen_alias(rng)
        ctx.count("alias:%s:%s" % (p["kind"], "missing-keys" if p["missing"] else "all-keys"))
        ctx.nontriv(("alias", p["kind"], tuple(p["missing"]), tuple(p["order"]), tuple(p["shape"])))
        bad = alias_case(p)
        ctx.explored += 1 + len(p["order"])
        report_alias(ctx, p, bad)
        if k < 1:
            ctx.sample(dict(alias_config=p, violations=[b[0] for b in bad]))


# source tie: make_coords / data_grid / make_subset_data of core/metadata.py as written now
def _src_items():
    from harness.lib import pygrid
    f = "holopy/core/metadata.py"
    return [dict(file=f, qualname="make_coords", name="make_coords_src", fn=pygrid.make_coords),
            dict(file=f, qualname="data_grid", name="data_grid_src", fn=pygrid.data_grid),
            dict(file=f, qualname="make_subset_data", name="subset_src", fn=pygrid.make_subset_data)]


def stage_srctie(ctx):
    from harness.lib import srctie
    ok = srctie.run(ctx, "C07", "From Coq Require Import Permutation Lia.\nFrom HV Require Import C07.Model C07.Lemmas C07.Props.\n",
                    _src_items())
    ctx.count("srctie:%s" % ("ok" if ok else "broken"))


def run(ctx):
    ctx.rule = ("layouts: shapes 1..9 x 1..9 (15% 1xN, 15% Nx1), 7 dyadic spacings (anisotropic 70%), z offset, "
                "shifted origins, volumes nz<=3; detectors: grid / shifted grid / volume / explicit points (shuffled, "
                "z None|scalar|list) / random subset (1, all, random size; seeds incl. 0) / crop (centres on half "
                "pixels, sizes 1..8 incl. odd, clipped and empty); non-trivial = distinct (shape, spacing, nz) "
                "layouts, distinct (shape, pixels, seed) subsets, non-empty crops, distinct real-theory "
                "configurations, distinct call sequences; model [run] vs implementation on sequences of 2-5 calls "
                "(field / subset / crop / meta / flat) on one image; single-pixel draws over 25*n seeds (coverage); "
                "no-override calls on image / image with deleted keys / hand-attributed points / raw DataArray / subset "
                "detectors with result metadata scribbled between calls")
    ctx.clauses_proved = [
        "flat index <-> (i,j,l) bijection with ranges for every shape (incl. 1xN, Nx1, volumes) "
        "[flat_unflat, unflat_flat, flat_index_in_range, unflat_in_range]",
        "element flat_index(i,j,l) of the stacked coordinate list is (x_i, y_j, z_l) for arbitrary axes (any spacing, "
        "anisotropy, origin), every flat pixel is such an element; make_coords pixel (i,j) = (i*sx, j*sy, z) "
        "[grid_flat_order, grid_every_flat_pixel, grid_size, make_coords_pixel]",
        "flat(): flat element flat_index(i,j,l) is stored pixel (l,i,j); from_flat(flat(.)) returns it "
        "[flat_value_is_stored_pixel, from_flat_of_flat]",
        "for ANY theory a grid and the explicit point list of its coordinates hand over the same positions; "
        "detector_points broadcasting of a scalar z [grid_eq_points, detector_points_roundtrip, detector_points_scalar_z]",
        "for every pointwise theory: equal positions => equal values between any two detectors; value at a grid pixel = "
        "f(position) [value_depends_only_on_position, grid_pixel_value]",
        "selection commutes with the calculation for EVERY selection (subset, crop, permutation) "
        "[select_commutes, subset_calc_commutes, subset_calc_pixel]",
        "a crop is the subset crop_sel of the full image (coordinates and calculated values); subimage's half-even / "
        "python-slice index arithmetic always yields valid distinct pixels [crop_is_subset, crop_calc_commutes, "
        "crop_indices_valid, crop_inside_even, crop_selection_valid]",
        "under the RNG contract (distinct, in range): subset keeps values / coordinates / attrs, remembers all axes, "
        "selected positions are pairwise distinct; size = all pixels => a permutation of the image "
        "[rng_contract_meaning, subset_keeps, subset_of_all_pixels_is_permutation]",
        "model operations leave the detector unchanged for every call sequence and results are history independent "
        "[inputs_unchanged]; update_metadata leaves its input attrs alone: value overwrites, None never overwrites, "
        "missing standard keys created as None, other keys kept [update_metadata_semantics]",
        "translating grid and scatterer together hands any theory the same positions (over R) [translate_together]",
        "Q instance executed = R instance of the theorems [to_theory_agrees_on_Q, make_coords_agrees_on_Q, "
        "holo_px_agrees_on_Q]"]
    ctx.clauses_explored = [
        "agreement grid = points = subset = crop for the real theories (Mie, Mie superposition, Multisphere, "
        "T-matrix: they are pointwise only by inspection; MieLens / Lens: interpolation windows depend on the point set)",
        "np.random.choice honours its contract and make_subset_data is reproducible for a given seed (incl. seed 0, "
        "after unrelated use of the global RNG); every pixel of the image can be drawn",
        "input purity of the Python objects (deep snapshots around every call, call sequences on one detector; calls "
        "without metadata overrides on detectors with all / some / none of the standard keys; result is a new object "
        "sharing no mutable state with the input for update_metadata / calc_*; in-place edits of a result never reach "
        "the detector or a later calculation)"]
    ctx.trusted += [
        "oracle: scattering theory F : positions -> values, hypothesis 'pointwise' (F = map f); true by inspection "
        "for Mie/Multisphere/T-matrix kernels, sampled by stage real",
        "oracle: np.random.choice(n, m, replace=False) with contract sel_ok (distinct, in range, length m) - "
        "evaluated in Coq on every observed selection",
        "oracle: np.exp phase factor and to_vector normalisation (values handed to the model)",
        "xarray stack/unstack/isel/copy: modelled (product3 / subset), correspondence sampled",
        "harness mock theory (subclass of the public ScatteringTheory) used to observe positions exactly"]
    ctx.trusted.append("source reader harness/lib/pygrid.py (an axis read as its generic element over np.arange's index; python floats / "
                       "ints read as reals; call arguments compared as text) for the source tie")
    ctx.clauses_proved.append(
        "source tie: make_coords of core/metadata.py, read from the current source text on every run, builds exactly the model's axes "
        "from arr.shape = (nz, nx, ny) for every shape / spacing / height; data_grid's dims list, its np.expand_dims axis and the "
        "shape indices make_coords uses agree (two cooperating sites); pixel (i,j) = (i sx, j sy, z), grid size and grid = points "
        "restated for the source; make_subset_data draws from tot_pix = len(x) len(y) without replacement and takes the pixels "
        "from the x-major stacked image [make_coords_src_is_model, dims_match_shape_indices, src_make_coords_pixel, "
        "src_grid_size, src_grid_eq_points, subset_src_is_model]")
    guarded(ctx, "prove", ctx.prove)
    guarded(ctx, "source-tie", stage_srctie, ctx)
    boot.boot()
    guarded(ctx, "coords", stage_coords, ctx)
    guarded(ctx, "calc", stage_calc, ctx)
    guarded(ctx, "subset", stage_subset, ctx)
    guarded(ctx, "subset-large", stage_subset_large, ctx)
    guarded(ctx, "subset-draws", stage_subset_many_draws, ctx)
    guarded(ctx, "crop_meta", stage_crop_meta, ctx)
    guarded(ctx, "real", stage_real, ctx)
    guarded(ctx, "history", stage_history, ctx)
    guarded(ctx, "run", stage_run, ctx)
    guarded(ctx, "alias", stage_alias, ctx)


def replay(ctx, data):
    """re-run the stored failing case on the current tree"""
    boot.boot()
    d = data["data"]
    kind = d.get("kind")
    if kind == "real":
        res = real_case(d["config"])
        print("replay:", [(v, diff) for v, diff, _ in res])
        report_real(ctx, d["config"], res)
    elif kind == "alias":
        bad = alias_case(d["config"])
        print("replay:", bad)
        ctx.explored += 1
        report_alias(ctx, d["config"], bad)
    elif kind == "subset":
        import numpy as np
        from holopy.core.metadata import data_grid, make_subset_data
        nx, ny = d["shape"]
        im = data_grid(np.array(d["values"]).reshape(nx, ny), spacing=tuple(d["spacing"]), z=d["z"])
        s1, sel1 = make_subset_data(im, pixels=d["pixels"], return_selection=True, seed=d["seed"])
        s2, sel2 = make_subset_data(im, pixels=d["pixels"], return_selection=True, seed=d["seed"])
        ctx.explored += 1
        sel1 = [int(s) for s in sel1]
        print("replay: selection", sel1, [int(s) for s in sel2], "attrs of input:", list(im.attrs))
        bad = (len(set(sel1)) != len(sel1) or sel1 != [int(s) for s in sel2] or "original_dims" in im.attrs
               or "original_dims" not in s1.attrs or not np.array_equal(s1.values, im.values.reshape(-1)[sel1]))
        if bad:
            ctx.violation(data["key"], data["what"], d)
    else:
        print("replay: re-running the whole check with the recorded seed")
        ctx.seed = data.get("seed", ctx.seed)
        run(ctx)

"""C15 - HoloPy objects survive save -> load: proof obligations, a class table / configuration
regenerated from the code on every run and checked against `table_ok` inside Coq, exact
correspondence of the model's to_node / from_node with yaml.dump / hp.load on generated objects,
and direct exploration of the property (file and stream targets, 1-3 cycles, models)."""
import inspect
import io
import os
import re
import shutil
import struct
import tempfile
import types
import warnings

from harness.lib import boot
from harness.lib.coqrun import RUN_ROOT
from harness.lib.coqrun import zlit, blit, listlit, strlit, run_mismatch_cases, eval_files, parse_eval_blocks
from harness.lib.ctx import guarded

REQ = "From HV Require Import C15.Model.\nOpen Scope string_scope.\n"
ALL_NP_KINDS = ["float16", "float32", "float64", "int8", "int16", "int32", "int64",
                "uint8", "uint16", "uint32", "uint64", "bool", "complex64", "complex128"]


def wf_example(i, n):
    """module-level (hence importable, hence serialisable) CMA weight function"""
    return (i + 1) <= n / 2


def next_dist_example(result):
    return None


# ---------------------------------------------------------------------------------------------
# attribute-state trees.  A tree is a tuple:
#  ("none",) ("bool",k,b) ("int",k,z) ("float",k,bits) ("cplx",k,re,im) ("str",s) ("atom",tag,name)
#  ("seq",ckind,[..]) ("map",[(k,v)..]) ("obj",cls,[(a,v)..])         k: None (python) or dtype name

class Unencodable(Exception):
    pass


def f64bits(x):
    return struct.unpack("<Q", struct.pack("<d", float(x)))[0]


class Trees:
    def __init__(self, table):
        self.table = table   # name -> dict(args=[...], custom=bool, stored={a:bool})

    def tree(self, x, reloaded=False):
        import numpy as np
        from holopy.core.holopy_object import HoloPyObject, SerializableMetaclass
        if x is None:
            return ("none",)
        if isinstance(x, (bool, np.bool_)):
            return ("bool", None if isinstance(x, bool) else "bool", bool(x))
        if isinstance(x, np.generic):
            k = np.dtype(type(x)).name
            if isinstance(x, np.integer):
                return ("int", k, int(x))
            if isinstance(x, np.floating):
                if k == "longdouble":
                    raise Unencodable("longdouble")
                return ("float", k, f64bits(x))
            if isinstance(x, np.complexfloating):
                return ("cplx", k, f64bits(x.real), f64bits(x.imag))
            raise Unencodable(k)
        if isinstance(x, int):
            return ("int", None, x)
        if isinstance(x, float):
            return ("float", None, f64bits(x))
        if isinstance(x, complex):
            return ("cplx", None, f64bits(x.real), f64bits(x.imag))
        if isinstance(x, str):
            return ("str", x)
        if isinstance(x, np.ufunc):
            return ("atom", "ufunc", x.__name__)
        if isinstance(x, SerializableMetaclass):
            return ("atom", "class", "%s.%s" % (x.__module__, x.__name__))
        if isinstance(x, (types.FunctionType, types.BuiltinFunctionType, type)):
            return ("atom", "pyname", "%s.%s" % (x.__module__, x.__qualname__))
        if isinstance(x, list):
            return ("seq", "list", [self.tree(v, reloaded) for v in x])
        if isinstance(x, tuple):
            return ("seq", "tuple", [self.tree(v, reloaded) for v in x])
        if isinstance(x, np.ndarray):
            if x.ndim == 0 or x.dtype == object:
                raise Unencodable("0-d / object array")
            return ("seq", "arr:" + x.dtype.name, [self.tree(v, reloaded) for v in x])
        if isinstance(x, dict):
            if not all(isinstance(k, str) for k in x):
                raise Unencodable("non-string dict key")
            return ("map", [(k, self.tree(x[k], reloaded)) for k in sorted(x)])   # yaml.dump sorts keys
        if isinstance(x, HoloPyObject):
            name = type(x).__name__
            ent = self.table.get(name)
            if ent is None or ent["custom"]:
                raise Unencodable("custom class " + name)
            out = []
            for a in ent["args"]:
                if reloaded and not ent["stored"].get(a, True):
                    out.append((a, ("none",)))   # the model does not predict attributes the constructor does not keep
                else:
                    out.append((a, self.tree(getattr(x, a, None), reloaded)))
            return ("obj", name, out)
        raise Unencodable(type(x).__name__)


def norm(t):
    k = t[0]
    if k in ("bool", "int", "float"):
        return (k, None, t[2])
    if k == "cplx":
        return (k, None, t[2], t[3])
    if k == "seq":
        return ("seq", "list", [norm(v) for v in t[2]])
    if k == "map":
        return ("map", [(a, norm(v)) for a, v in t[1]])
    if k == "obj":
        return ("obj", t[1], [(a, norm(v)) for a, v in t[2]])
    return t


def loose(t):
    """value of a tree with numbers compared numerically (1 == 1.0 == 1+0j) and containers as lists: the relation
    'the constructor kept what it was given' (ensure_array promotes mixed int/float/complex sequences)"""
    k = t[0]
    if k == "int":
        return ("num", complex(t[2]))
    if k == "float":
        return ("num", complex(struct.unpack("<d", struct.pack("<Q", t[2]))[0]))
    if k == "cplx":
        return ("num", complex(struct.unpack("<d", struct.pack("<Q", t[2]))[0], struct.unpack("<d", struct.pack("<Q", t[3]))[0]))
    if k == "bool":
        return ("bool", t[2])
    if k == "seq":
        return ("seq", [loose(v) for v in t[2]])
    if k == "map":
        return ("map", [(a, loose(v)) for a, v in t[1]])
    if k == "obj":
        return ("obj", t[1], [(a, loose(v)) for a, v in t[2]])
    return t


def plain(t):
    k = t[0]
    if k in ("bool", "int", "float", "cplx"):
        return t[1] is None
    if k == "seq":
        return t[1] == "list" and all(plain(v) for v in t[2])
    if k == "map":
        return all(plain(v) for _, v in t[1])
    if k == "obj":
        return all(plain(v) for _, v in t[2])
    return True


def has_nan(t):
    k = t[0]
    if k == "float":
        return (t[2] & 0x7ff0000000000000) == 0x7ff0000000000000 and (t[2] & 0xfffffffffffff) != 0
    if k == "cplx":
        return any((b & 0x7ff0000000000000) == 0x7ff0000000000000 and (b & 0xfffffffffffff) != 0 for b in t[2:])
    if k == "seq":
        return any(has_nan(v) for v in t[2])
    if k == "map":
        return any(has_nan(v) for _, v in t[1])
    if k == "obj":
        return any(has_nan(v) for _, v in t[2])
    return False


def np_kinds(t, out=None):
    out = set() if out is None else out
    k = t[0]
    if k in ("bool", "int", "float", "cplx") and t[1] is not None:
        out.add(t[1])
    elif k == "seq":
        for v in t[2]:
            np_kinds(v, out)
    elif k == "map":
        for _, v in t[1]:
            np_kinds(v, out)
    elif k == "obj":
        for _, v in t[2]:
            np_kinds(v, out)
    return out


def klit(k):
    return "KPy" if k is None else "(KNp %s)" % strlit(k)


def olit(t):
    k = t[0]
    if k == "none":
        return "ONone"
    if k == "bool":
        return "(OBool %s %s)" % (klit(t[1]), blit(t[2]))
    if k == "int":
        return "(OInt %s %s)" % (klit(t[1]), zlit(t[2]))
    if k == "float":
        return "(OFloat %s %s)" % (klit(t[1]), zlit(t[2]))
    if k == "cplx":
        return "(OCplx %s %s %s)" % (klit(t[1]), zlit(t[2]), zlit(t[3]))
    if k == "str":
        return "(OStr %s)" % strlit(t[1])
    if k == "atom":
        return "(OAtom %s %s)" % (strlit(t[1]), strlit(t[2]))
    if k == "seq":
        c = {"list": "CList", "tuple": "CTuple"}.get(t[1]) or "(CArr %s)" % strlit(t[1][4:])
        return "(OSeq %s %s)" % (c, listlit([olit(v) for v in t[2]]))
    if k == "map":
        return "(OMap %s)" % listlit(["(%s, %s)" % (strlit(a), olit(v)) for a, v in t[1]])
    if k == "obj":
        return "(OObj %s %s)" % (strlit(t[1]), listlit(["(%s, %s)" % (strlit(a), olit(v)) for a, v in t[2]]))
    raise ValueError(k)


# ---------------------------------------------------------------------------------------------
# yaml text -> node literal (PyYAML's scalar formatting/resolution is the oracle)

def node_lit(text):
    import yaml
    from holopy.core.holopy_object import FullLoader
    ld = FullLoader(text)
    try:
        root = ld.get_single_node()

        def go(n):
            tag = n.tag
            if isinstance(n, yaml.ScalarNode):
                if tag.startswith("tag:yaml.org,2002:python/object"):
                    return "NOpaque"
                if tag.startswith("tag:yaml.org,2002:python/name:"):
                    return "(NAtom %s %s)" % (strlit("pyname"), strlit(tag[len("tag:yaml.org,2002:python/name:"):]))
                if tag == "!ufunc":
                    return "(NAtom %s %s)" % (strlit("ufunc"), strlit(n.value))
                if tag == "!class":
                    return "(NAtom %s %s)" % (strlit("class"), strlit(n.value))
                if tag == "!complex":
                    v = complex(n.value)
                    return "(NCplx TagHolo %s %s)" % (zlit(f64bits(v.real)), zlit(f64bits(v.imag)))
                v = ld.construct_object(n, deep=True)
                if tag == "tag:yaml.org,2002:python/complex":
                    return "(NCplx TagPy %s %s)" % (zlit(f64bits(v.real)), zlit(f64bits(v.imag)))
                if v is None:
                    return "NNull"
                if isinstance(v, bool):
                    return "(NBool %s)" % blit(v)
                if isinstance(v, int):
                    return "(NInt %s)" % zlit(v)
                if isinstance(v, float):
                    return "(NFloat %s)" % zlit(f64bits(v))
                if isinstance(v, str):
                    return "(NStr %s)" % strlit(v)
                return "NOpaque"
            if isinstance(n, yaml.SequenceNode):
                if tag.startswith("tag:yaml.org,2002:python/object"):
                    return "NOpaque"
                return "(NSeq %s)" % listlit([go(c) for c in n.value])
            if isinstance(n, yaml.MappingNode):
                if tag.startswith("tag:yaml.org,2002:python/object"):
                    return "NOpaque"
                items = ["(%s, %s)" % (strlit(k.value), go(v)) for k, v in n.value]
                if tag == "tag:yaml.org,2002:map":
                    return "(NMap %s)" % listlit(items)
                return "(NObj %s %s)" % (strlit(tag[1:]), listlit(items))
            return "NOpaque"
        return go(root)
    finally:
        ld.dispose()


def strip_aliases(text):
    """the same document with every alias expanded (node tree re-serialised without anchors)"""
    import yaml
    from holopy.core.holopy_object import FullLoader

    class D(yaml.Dumper):
        def ignore_aliases(self, data):
            return True

    def unalias(n):
        if isinstance(n, yaml.ScalarNode):
            return yaml.ScalarNode(n.tag, n.value, style=n.style)
        if isinstance(n, yaml.SequenceNode):
            return yaml.SequenceNode(n.tag, [unalias(c) for c in n.value], flow_style=n.flow_style)
        return yaml.MappingNode(n.tag, [(unalias(k), unalias(v)) for k, v in n.value], flow_style=n.flow_style)
    return yaml.serialize(unalias(yaml.compose(text, Loader=FullLoader)))


# ---------------------------------------------------------------------------------------------
# what is read off the code: configuration and class table

def all_subclasses(c):
    out = []
    for s in c.__subclasses__():
        if s not in out:
            out.append(s)
        for t in all_subclasses(s):
            if t not in out:
                out.append(t)
    return out


_PROBE = {}


def probe_class():
    from holopy.core.holopy_object import HoloPyObject
    if "cls" not in _PROBE:
        class C15SkipProbe(HoloPyObject):
            def __init__(self, a="x", b=None):
                self.a = a
                self.b = b
        _PROBE["cls"] = C15SkipProbe
    return _PROBE["cls"]


def read_config():
    import numpy as np
    import yaml
    from holopy.core.io import serialize
    P = probe_class()
    d = P(a=None)._dict
    cfg = {"skip": "SkipNoneIfDefaultNone" if "a" in d else "SkipNone", "b_skipped": "b" not in d}
    sup = []
    for k in ALL_NP_KINDS:
        v = getattr(np, "bool_" if k == "bool" else k)(1)
        try:
            txt = yaml.dump([v], default_flow_style=True)
            r = serialize.load(io.BytesIO(txt.encode()))[0]
            if type(r) in (bool, int, float, complex) and r == 1:
                sup.append(k)
        except Exception:
            pass
    cfg["np_supported"] = sup
    cfg["py_cplx_tag"] = "TagHolo" if yaml.dump(1 + 2j).startswith("!complex") else "TagPy"
    return cfg


def cfg_lit(cfg):
    return "{| skip := %s; np_supported := %s; py_cplx_tag := %s |}" % (
        cfg["skip"], listlit([strlit(k) for k in cfg["np_supported"]]), cfg["py_cplx_tag"])


def import_everything():
    import holopy  # noqa
    import holopy.scattering  # noqa
    import holopy.inference  # noqa
    import holopy.core.mapping  # noqa
    import holopy.core.utils  # noqa
    import holopy.scattering.imageformation  # noqa
    import holopy.inference.result  # noqa
    import holopy.scattering.theory.lens  # noqa
    import holopy.scattering.theory.dda  # noqa


def static_stored(cls, a):
    """fallback when no instance could be probed: 'self.a = ...a...' occurs in an __init__ of the mro, or a
    property / attribute of that name exists on the class"""
    if hasattr(cls, a):
        return True
    for k in cls.__mro__:
        f = k.__dict__.get("__init__")
        if f is None or not hasattr(f, "__code__"):
            continue
        try:
            src = inspect.getsource(f)
        except (OSError, TypeError):
            continue
        if re.search(r"self\.%s\s*=[^=\n]*\b%s\b" % (re.escape(a), re.escape(a)), src):
            return True
    return False


def build_table(ctx, gens):
    """gens: name -> generator of kwargs. Returns (table dict for Trees, list of entries for Coq)."""
    from holopy.core.holopy_object import HoloPyObject
    import_everything()
    base_iter = HoloPyObject.__dict__["_iteritems"]
    base_from = HoloPyObject.__dict__["from_yaml"]
    entries = []
    for c in all_subclasses(HoloPyObject):
        if c.__name__ == "C15SkipProbe":
            continue
        init = c.__init__
        if not hasattr(init, "__code__"):
            continue
        sig = inspect.signature(init)
        params = [p for p in list(sig.parameters.values())[1:]
                  if p.kind in (p.POSITIONAL_OR_KEYWORD, p.KEYWORD_ONLY)]
        varnames = list(init.__code__.co_varnames[1:])
        args = [p.name for p in params]
        locals_ = [v for v in varnames if v not in args]
        custom = any(k.__dict__.get("_iteritems", base_iter) is not base_iter or
                     ("from_yaml" in k.__dict__ and k.__dict__["from_yaml"].__func__ is not base_from.__func__)
                     for k in c.__mro__ if issubclass(k, HoloPyObject))
        entries.append(dict(cls=c, name=c.__name__, args=args, params=params, locals=locals_, custom=custom,
                            inscope=c.__name__ in gens and not custom, stored={}, none_ok={}, local_attrs=[]))
    return entries


def table_lit(entries, trees):
    rows = []
    for e in entries:
        al = []
        for p in e["params"]:
            if p.default is inspect.Parameter.empty:
                d = "None"
            else:
                try:
                    d = "(Some %s)" % olit(trees.tree(p.default))
                except Unencodable:
                    d = "(Some (OAtom %s %s))" % (strlit("default"), strlit(type(p.default).__name__))
            al.append("{| aname := %s; adefault := %s; astored := %s; anone_ok := %s |}" % (
                strlit(p.name), d, blit(e["stored"].get(p.name, True)), blit(e["none_ok"].get(p.name, False))))
        rows.append("{| cname := %s; cargs := %s; clocal_attrs := %s; ccustom := %s; cinscope := %s |}" % (
            strlit(e["name"]), listlit(al), listlit([strlit(s) for s in e["local_attrs"]]),
            blit(e["custom"]), blit(e["inscope"])))
    return "[" + ";\n  ".join(rows) + "]"


# ---------------------------------------------------------------------------------------------
# generators of valid constructor arguments

class Gen:
    """every choice comes from self.rng; `risky` switches on the value classes that the as-is
    code is known not to carry (numpy kinds without representer, None for a non-None default)"""

    def __init__(self, rng, risky=0.2, extreme=0.15):
        self.rng = rng
        self.risky = rng.random() < risky
        self.p_ext = extreme

    # -- numbers --------------------------------------------------------------------------------
    def dy(self, lo, hi, bits=5):
        s = 1 << bits
        return self.rng.randint(int(lo * s), int(hi * s)) / s

    def real(self, lo=0.125, hi=4.0, kinds=True, extreme=True, integer=False):
        import numpy as np
        r = self.rng
        if extreme and r.random() < self.p_ext and not integer:
            return r.choice([1e-320, 5e-324, 1.7976931348623157e308, 1e300, 2.0 ** -1022, 0.1, 1 / 3, 1e22, 1e-7,
                             123456789.123456789, 1e16])
        v = self.dy(lo, hi)
        if integer or r.random() < 0.25:
            v = max(int(lo) if lo == int(lo) else int(lo) + 1, min(int(hi), int(round(v))))
            if kinds and r.random() < 0.3:
                safe = ["int64", "int32"]
                risky = ["int16", "int8", "uint8", "uint16", "uint32", "uint64"]
                k = r.choice(safe + (risky if self.risky else []))
                if not (np.iinfo(k).min <= v <= np.iinfo(k).max):
                    k = "int64"
                return getattr(np, k)(v)
            return v
        if kinds and r.random() < 0.3:
            k = r.choice(["float64"] * 2 + (["float32", "float16"] if self.risky else []))
            return getattr(np, k)(v)
        return v

    def index(self, lo=1.0, hi=2.5):
        import numpy as np
        r = self.rng
        m = r.random()
        if m < 0.6:
            return self.real(lo, hi, extreme=False)
        re_, im_ = self.dy(lo, hi), self.dy(0, 0.5, 8)
        # the other sign convention for absorption, and a signed zero: both legal values of a complex index
        sg = r.random()
        if sg < 0.25:
            im_ = -im_
        elif sg < 0.35:
            im_ = -0.0
        if m < 0.8:
            return complex(re_, im_)
        if m < 0.93 or not self.risky:
            return np.complex128(complex(re_, im_))
        return np.complex64(complex(re_, im_))

    def boolean(self):
        import numpy as np
        b = self.rng.random() < 0.5
        if self.risky and self.rng.random() < 0.2:
            return np.bool_(b)
        return b

    def seq(self, vals):
        """container kinds for a numeric vector"""
        import numpy as np
        r = self.rng
        m = r.random()
        if m < 0.4:
            return list(vals)
        if m < 0.7:
            return tuple(vals)
        plainv = [float(v) if not isinstance(v, (complex, np.complexfloating)) else complex(v) for v in vals]
        if any(isinstance(v, complex) for v in plainv):
            return np.array(plainv)
        allint = all(float(v) == int(v) and abs(v) < 2 ** 15 for v in plainv)
        if allint and r.random() < 0.5:
            dt = r.choice(["int64", "int32"] + (["int16", "uint8"] if self.risky and all(v >= 0 for v in plainv) and
                                                 all(v < 256 for v in plainv) else []))
            return np.array([int(v) for v in plainv], dtype=dt)
        dt = r.choice(["float64"] * 3 + (["float32"] if self.risky else []))
        return np.array(plainv, dtype=dt)

    def vec(self, n=3, lo=-8, hi=8):
        return self.seq([self.real(lo, hi, kinds=self.rng.random() < 0.3) for _ in range(n)])

    def angles(self, n=3):
        return self.seq([self.dy(0, 3, 6) for _ in range(n)])

    def name(self):
        return self.rng.choice([None, None, "x", "alpha", "r_1", "n.real", "0:r", "z pos", "a-b", "N", "true", "1e3", "~"])

    # -- priors ---------------------------------------------------------------------------------
    def prior(self, depth=1, named=True):
        import numpy as np
        from holopy.core import prior
        r = self.rng
        m = r.random()
        nm = self.name() if named else None
        if m < 0.35 or depth <= 0 and m < 0.5:
            lo = self.real(-4, 4, extreme=False)
            hi = lo + self.real(0.25, 4, extreme=False, kinds=False)
            if r.random() < 0.1:
                hi = float("inf")
            kw = {}
            if r.random() < 0.4 and hi != float("inf"):
                kw["guess"] = float(lo) + (float(hi) - float(lo)) * r.choice([0, 0.25, 0.5, 1])
            if nm is not None:
                kw["name"] = nm
            return prior.Uniform(lo, hi, **kw)
        if m < 0.55 or depth <= 0 and m < 0.8:
            kw = {"name": nm} if nm is not None else {}
            return prior.Gaussian(self.real(-4, 4), self.real(0.125, 2), **kw)
        if m < 0.7 or depth <= 0:
            mu = self.real(-2, 2, extreme=False)
            kw = {}
            if r.random() < 0.7:
                kw["lower_bound"] = float(mu) - self.dy(0.5, 3)
            if r.random() < 0.7:
                kw["upper_bound"] = float(mu) + self.dy(0.5, 3)
            if nm is not None:
                kw["name"] = nm
            return prior.BoundedGaussian(mu, self.real(0.125, 2), **kw)
        if m < 0.8:
            re_ = self.prior(depth - 1, named=False) if r.random() < 0.7 else self.real(1, 2)
            im_ = self.prior(depth - 1, named=False) if (r.random() < 0.5 or not hasattr(re_, "lnprob")) else self.real(0, 0.5)
            kw = {"name": nm} if nm is not None else {}
            return prior.ComplexPrior(re_, im_, **kw)
        base = self.prior(depth - 1, named=False)
        k = r.choice(["sqrt", "exp", "maximum", "add", "mul", "div", "rdiv", "pow", "neg", "explicit", "sub"])
        if k == "sqrt":
            return np.sqrt(base)
        if k == "exp":
            return np.exp(base)
        if k == "maximum":
            return np.maximum(base, self.real(0, 2, kinds=False))
        if k == "add":
            return base + self.real(0.5, 3, kinds=False, extreme=False)
        if k == "sub":
            return self.real(0.5, 3, kinds=False, extreme=False) - base
        if k == "mul":
            return base * self.prior(0, named=False)
        if k == "div":
            return base / self.real(2, 4, kinds=False, extreme=False)
        if k == "rdiv":
            return 1 / base
        if k == "pow":
            return base ** 2
        if k == "neg":
            return -base
        return prior.TransformedPrior(r.choice([np.hypot, np.add, np.minimum]),
                                      self.seq2([base, self.prior(0, named=False)]), name=nm)

    def seq2(self, vals):
        return list(vals) if self.rng.random() < 0.5 else tuple(vals)

    def maybe_prior(self, v, p=0.2):
        return self.prior(1) if self.rng.random() < p else v

    # -- scatterers -----------------------------------------------------------------------------
    def center(self, allow_none=True, priors=True):
        r = self.rng
        if allow_none and r.random() < 0.1:
            return None
        if priors and r.random() < 0.2:
            return self.seq2([self.maybe_prior(self.real(-8, 8, kinds=False), 0.5) for _ in range(3)])
        return self.vec(3)

    def kw_Sphere(self, priors=True):
        r = self.rng
        if r.random() < 0.25:
            nl = r.choice([2, 3])
            rs = sorted(self.dy(0.25, 3) for _ in range(nl))
            return dict(n=self.seq([self.index() for _ in range(nl)]), r=self.seq(rs), center=self.center(priors=priors))
        kw = dict(n=self.maybe_prior(self.index(), 0.2 if priors else 0),
                  r=self.maybe_prior(self.real(0.125, 3), 0.2 if priors else 0),
                  center=self.center(priors=priors))
        if r.random() < 0.1:
            kw.pop("r")
        if r.random() < 0.05:
            kw["n"] = None
        return kw

    def kw_LayeredSphere(self):
        nl = self.rng.choice([1, 2, 3])
        return dict(n=self.seq([self.index() for _ in range(nl)]), t=self.seq([self.dy(0.125, 1) for _ in range(nl)]),
                    center=self.center(priors=False))

    def kw_JanusSphere_Uniform(self):
        return dict(n=self.seq([self.index(), self.index()]), r=self.seq([self.dy(0.25, 1), self.dy(1, 2)]),
                    rotation=self.angles(3), center=self.center(priors=False))

    def kw_JanusSphere_Tapered(self):
        return dict(n=self.seq([self.index(), self.index()]), r=self.seq([self.dy(0.25, 1), self.dy(1, 2)]),
                    rotation=self.angles(2), center=self.center(priors=False))

    def kw_Spheroid(self):
        return dict(n=self.maybe_prior(self.index()), r=self.seq2([self.maybe_prior(self.real(0.25, 2)), self.real(0.25, 2)]),
                    rotation=self.angles(3), center=self.center())

    def kw_Ellipsoid(self):
        return dict(n=self.index(), r=self.seq([self.real(0.25, 2, kinds=False) for _ in range(3)]),
                    center=self.center(), rotation=self.angles(3))

    def kw_hd(self):
        kw = dict(n=self.maybe_prior(self.index()), h=self.maybe_prior(self.real(0.5, 3)), d=self.real(0.25, 2),
                  center=self.center(), rotation=self.angles(3))
        if self.rng.random() < 0.3:
            kw.pop("rotation")
        return kw
    kw_Capsule = kw_Cylinder = kw_Bisphere = kw_hd

    def kw_Spheres(self):
        from holopy.scattering import Sphere
        k = self.rng.choice([1, 2, 3])
        ss = [Sphere(**{**self.kw_Sphere(), "center": self.seq([10 * i + self.dy(-1, 1), self.dy(-1, 1), self.dy(-1, 1)])})
              for i in range(k)]
        kw = dict(scatterers=ss if self.rng.random() < 0.8 else tuple(ss))
        if self.rng.random() < 0.5:
            kw["warn"] = self.boolean()
        return kw

    def kw_Scatterers(self):
        k = self.rng.choice([1, 2, 3])
        ss = [self.obj(self.rng.choice(["Sphere", "Ellipsoid", "Capsule", "Spheroid", "Scatterers", "Spheres", "LayeredSphere"])
                       if self.depth < 2 else "Sphere") for _ in range(k)]
        return dict(scatterers=ss)

    def kw_RigidCluster(self):
        from holopy.scattering import Spheres
        kw = dict(spheres=Spheres(**self.kw_Spheres()))
        if self.rng.random() < 0.8:
            kw["translation"] = self.vec(3)
        if self.rng.random() < 0.8:
            kw["rotation"] = self.angles(3)
        return kw

    def kw_csg(self):
        from holopy.scattering import Sphere, Ellipsoid
        n = self.rng.choice([1.5, 1.25, 1.5 + 0.125j])
        a = Sphere(n=n, r=self.dy(0.5, 2), center=self.vec(3, -1, 1))
        b = (Sphere(n=n, r=self.dy(0.5, 2), center=self.vec(3, -1, 1)) if self.rng.random() < 0.6 else
             Ellipsoid(n=n, r=self.seq([self.dy(0.5, 2) for _ in range(3)]), center=self.vec(3, -1, 1)))
        return dict(s1=a, s2=b)
    kw_Union = kw_Difference = kw_Intersection = kw_csg

    # -- theories -------------------------------------------------------------------------------
    def kw_Mie(self):
        kw = {}
        r = self.rng
        if r.random() < 0.6:
            kw["compute_escat_radial"] = self.boolean()
        if r.random() < 0.6:
            kw["full_radial_dependence"] = self.boolean()
        if r.random() < 0.4:
            kw["eps1"] = self.real(2.0 ** -10, 0.125)
        if r.random() < 0.4:
            kw["eps2"] = r.choice([1e-16, 1e-12, 2.0 ** -50])
        return kw

    def acc_kwargs(self):
        r = self.rng
        d = {}
        if r.random() < 0.5:
            d["quad_npts"] = self.real(20, 200, integer=True)
        if r.random() < 0.4:
            d["interpolate_integrals"] = self.boolean()
        if r.random() < 0.3:
            d["interpolator_window_size"] = self.real(0.5, 4, extreme=False)
        return d

    def kw_MieLens(self):
        kw = {}
        if self.rng.random() < 0.8:
            kw["lens_angle"] = self.maybe_prior(self.real(0.25, 1.5, extreme=False), 0.25)
        if self.rng.random() < 0.5:
            kw["calculator_accuracy_kwargs"] = self.acc_kwargs()
        return kw

    def kw_AberratedMieLens(self):
        kw = self.kw_MieLens()
        m = self.rng.random()
        if m < 0.4:
            kw["spherical_aberration"] = self.maybe_prior(self.real(-2, 2, extreme=False), 0.3)
        elif m < 0.8:
            kw["spherical_aberration"] = self.seq([self.dy(-2, 2) for _ in range(self.rng.choice([1, 2, 3]))])
        return kw

    def kw_Multisphere(self):
        r = self.rng
        kw = {}
        if r.random() < 0.5:
            kw["niter"] = self.real(10, 400, integer=True)
        if r.random() < 0.4:
            kw["eps"] = self.real(2.0 ** -30, 2.0 ** -10)
        if r.random() < 0.3:
            kw["meth"] = r.choice([0, 1])
        if r.random() < 0.3:
            kw["qeps1"] = 2.0 ** -15
        if r.random() < 0.3:
            kw["qeps2"] = 1e-9
        if r.random() < 0.4:
            kw["compute_escat_radial"] = self.boolean()
        if r.random() < 0.4:
            kw["suppress_fortran_output"] = self.boolean()
        return kw

    def kw_Tmatrix(self):
        return {}

    def kw_Lens(self):
        kw = dict(lens_angle=self.real(0.25, 1.5, extreme=False),
                  theory=self.obj(self.rng.choice(["Mie", "Multisphere", "Tmatrix"])))
        if self.rng.random() < 0.6:
            kw["quad_npts_theta"] = self.real(3, 12, integer=True)
        if self.rng.random() < 0.6:
            kw["quad_npts_phi"] = self.real(3, 12, integer=True)
        kw["use_numexpr"] = False     # numexpr is not installed: True is (correctly) forced to False with a warning
        return kw

    def kw_LimitOverlaps(self):
        return dict(fraction=self.real(0, 1)) if self.rng.random() < 0.8 else {}

    # -- strategies -----------------------------------------------------------------------------
    def parallel(self):
        """documented values: None (serial), 'all', 'mpi', 'auto', an int"""
        r = self.rng
        if self.risky and r.random() < 0.6:
            return None
        return r.choice(["auto", "all", "mpi", 2, 4])

    def opt_int(self, lo, hi, p=0.5):
        return self.real(lo, hi, integer=True) if self.rng.random() < p else None

    def walker_pos(self):
        import numpy as np
        r = self.rng
        m = r.random()
        if m < 0.6:
            return None
        rows = [[self.dy(-2, 2) for _ in range(2)] for _ in range(r.choice([2, 3]))]
        return rows if m < 0.8 else np.array(rows, dtype=r.choice(["float64", "float32"]))

    def kw_NmpfitStrategy(self):
        r = self.rng
        kw = {}
        if r.random() < 0.5:
            kw["npixels"] = self.opt_int(10, 1000, 0.8)
        if r.random() < 0.5:
            kw["quiet"] = self.boolean()
        for a in ("ftol", "xtol", "gtol"):
            if r.random() < 0.4:
                kw[a] = r.choice([1e-10, 1e-6, 2.0 ** -20, 1e-300])
        if r.random() < 0.5:
            kw["maxiter"] = self.real(1, 500, integer=True)
        if r.random() < 0.5:
            kw["seed"] = self.opt_int(0, 2 ** 20, 0.8)
        if r.random() < 0.15:
            kw["damp"] = r.choice([0, 0, 0.5])
        return kw

    def kw_LeastSquaresScipyStrategy(self):
        r = self.rng
        kw = {}
        for a in ("ftol", "xtol", "gtol"):
            if r.random() < 0.4:
                kw[a] = r.choice([1e-10, 1e-6, 2.0 ** -20])
        if r.random() < 0.5:
            kw["max_nfev"] = self.opt_int(1, 500, 0.8)
        if r.random() < 0.5:
            kw["npixels"] = self.opt_int(10, 1000, 0.8)
        return kw

    def kw_CmaStrategy(self):
        r = self.rng
        kw = {}
        if r.random() < 0.5:
            kw["npixels"] = self.opt_int(10, 1000, 0.8)
        if r.random() < 0.5:
            kw["popsize"] = self.opt_int(4, 40, 0.8)
        if r.random() < 0.25:
            kw["resample_pixels"] = self.boolean()
        if r.random() < 0.25:
            kw["parent_fraction"] = r.choice([0.25, 0.5, 0.125])
        if r.random() < 0.15:
            kw["weight_function"] = wf_example
        if r.random() < 0.4:
            kw["walker_initial_pos"] = self.walker_pos()
        if r.random() < 0.4:
            kw["tols"] = r.choice([{}, {"maxiter": 10}, {"tolx": 0.5, "tolfun": 1e-3}])
        if r.random() < 0.5:
            kw["seed"] = self.opt_int(0, 2 ** 20, 0.8)
        if r.random() < 0.6:
            kw["parallel"] = self.parallel()
        return kw

    def kw_EmceeStrategy(self):
        r = self.rng
        kw = {}
        if r.random() < 0.5:
            kw["nwalkers"] = self.real(2, 200, integer=True)
        if r.random() < 0.5:
            kw["nsamples"] = self.opt_int(1, 2000, 0.8)
        if r.random() < 0.5:
            kw["npixels"] = self.opt_int(10, 1000, 0.8)
        if r.random() < 0.4:
            kw["walker_initial_pos"] = self.walker_pos()
        if r.random() < 0.6:
            kw["parallel"] = self.parallel()
        if r.random() < 0.5:
            kw["seed"] = self.opt_int(0, 2 ** 20, 0.8)
        return kw

    def kw_TemperedStrategy(self):
        r = self.rng
        kw = {}
        if r.random() < 0.2:
            kw["next_initial_dist"] = next_dist_example
        if r.random() < 0.5:
            kw["nwalkers"] = self.real(2, 200, integer=True)
        if r.random() < 0.3:
            kw["nsamples"] = int(self.real(10, 2000, integer=True, kinds=False))
        if r.random() < 0.3:
            kw["npixels"] = int(self.real(100, 2000, integer=True, kinds=False))
        if r.random() < 0.3:
            kw["min_pixels"] = int(self.real(5, 50, integer=True, kinds=False))
        if r.random() < 0.3:
            kw["stages"] = r.choice([1, 2, 4])
        if r.random() < 0.3:
            kw["stage_len"] = r.choice([5, 30, 60])
        if r.random() < 0.3:
            kw["walker_initial_pos"] = self.walker_pos()
        if r.random() < 0.6:
            kw["parallel"] = self.parallel()
        if r.random() < 0.4:
            kw["seed"] = self.opt_int(0, 2 ** 20, 0.8)
        return kw

    # -- priors as top-level objects ---------------------------------------------------------------
    def obj_prior(self, want):
        for _ in range(200):
            p = self.prior(2)
            if type(p).__name__ == want:
                return p
        from holopy.core import prior
        import numpy as np
        return {"Uniform": prior.Uniform(0, 1), "Gaussian": prior.Gaussian(0, 1),
                "BoundedGaussian": prior.BoundedGaussian(0, 1, -1, 1), "ComplexPrior": prior.ComplexPrior(1.5, prior.Uniform(0, 1)),
                "TransformedPrior": np.sqrt(prior.Uniform(1, 2))}[want]

    depth = 0

    def obj(self, name):
        import holopy.scattering as sc
        import holopy.scattering.scatterer as scs
        import holopy.scattering.theory as th
        import holopy.inference as inf
        if name in PRIORS:
            return self.obj_prior(name)
        cls = (getattr(sc, name, None) or getattr(scs, name, None) or getattr(th, name, None) or getattr(inf, name))
        self.depth += 1
        try:
            kw = getattr(self, "kw_" + name)()
        finally:
            self.depth -= 1
        with warnings.catch_warnings():
            warnings.simplefilter("ignore")
            o = cls(**kw)
        self.last_kwargs = kw
        return o


PRIORS = ["Uniform", "Gaussian", "BoundedGaussian", "TransformedPrior", "ComplexPrior"]
SCATTERERS = ["Sphere", "LayeredSphere", "JanusSphere_Uniform", "JanusSphere_Tapered", "Spheroid", "Ellipsoid",
              "Capsule", "Cylinder", "Bisphere", "Spheres", "Scatterers", "RigidCluster", "Union", "Difference",
              "Intersection"]
THEORIES = ["Mie", "MieLens", "AberratedMieLens", "Multisphere", "Tmatrix", "Lens"]
STRATEGIES = ["NmpfitStrategy", "LeastSquaresScipyStrategy", "CmaStrategy", "EmceeStrategy", "TemperedStrategy"]
OTHER = ["LimitOverlaps"]
INSCOPE = PRIORS + SCATTERERS + THEORIES + STRATEGIES + OTHER
# exported but not constructible here: DDA (needs the external `adda` binary); FitResult / SamplingResult /
# TemperedSamplingResult are saved as HDF5 datasets (their `_save`), which is C13's subject.


# ---------------------------------------------------------------------------------------------
# deep state (everything the instance holds), used to see constructor arguments that are not kept

def state(x, depth=0):
    import numpy as np
    from holopy.core.holopy_object import HoloPyObject
    if depth > 8:
        return "..."
    if isinstance(x, HoloPyObject):
        return (type(x).__name__, tuple((k, state(v, depth + 1)) for k, v in sorted(vars(x).items())))
    if isinstance(x, np.ndarray):
        return ("seq", tuple(state(v, depth + 1) for v in x.tolist()))
    if isinstance(x, (list, tuple)):
        return ("seq", tuple(state(v, depth + 1) for v in x))
    if isinstance(x, dict):
        return ("map", tuple((str(k), state(v, depth + 1)) for k, v in sorted(x.items(), key=lambda kv: str(kv[0]))))
    if isinstance(x, (bool, np.bool_)):
        return bool(x)
    if isinstance(x, np.generic):
        return x.item()
    if isinstance(x, types.FunctionType):
        cells = tuple(state(c.cell_contents, depth + 1) for c in (x.__closure__ or ()))
        return ("func", x.__module__, x.__qualname__, cells)
    if isinstance(x, (int, float, complex, str)) or x is None:
        return x
    if isinstance(x, (np.ufunc, types.BuiltinFunctionType, type)):
        return ("name", getattr(x, "__name__", repr(x)))
    return ("other", type(x).__name__)


def state_diff(a, b, path="", loose_floats=False):
    """first place where two deep states differ.  loose_floats: the original held reduced-precision numpy numbers
    (float16/32, small ints), so attributes DERIVED from them (Uniform._lnprob = log(1/interval) ...) were computed
    in that arithmetic and legitimately differ in the last digits from the reloaded object's float64 ones."""
    if type(a) != type(b) and not (isinstance(a, (int, float, complex)) and isinstance(b, (int, float, complex))):
        return path or "."
    if isinstance(a, tuple):
        if len(a) != len(b):
            return path or "."
        for i, (x, y) in enumerate(zip(a, b)):
            key = x[0] if isinstance(x, tuple) and len(x) == 2 and isinstance(x[0], str) else str(i)
            d = state_diff(x, y, path + "/" + key, loose_floats)
            if d:
                return d
        return None
    if isinstance(a, (float, complex)) and a != a and b != b:
        return None
    if a == b:
        return None
    if loose_floats and isinstance(a, (int, float, complex)) and isinstance(b, (int, float, complex)) \
            and not isinstance(a, bool) and abs(a - b) <= 1e-2 * (1 + max(abs(a), abs(b))):
        return None
    return path or "."


# ---------------------------------------------------------------------------------------------
# save / load through the public entry points

class IO:
    def __init__(self):
        self.dir = tempfile.mkdtemp(prefix="C15-io-")
        self.k = 0

    def close(self):
        shutil.rmtree(self.dir, ignore_errors=True)

    def cycle(self, obj, target):
        """returns (text, reloaded or exception)"""
        import holopy as hp
        if target == "stream":
            b = io.BytesIO()
            hp.save(b, obj)
            text = b.getvalue().decode()
            b.seek(0)
            try:
                return text, hp.load(b)
            except Exception as e:  # noqa
                return text, e
        self.k += 1
        p = os.path.join(self.dir, "o%d%s" % (self.k, ".yaml" if target == "file-ext" else ""))
        hp.save(p, obj)
        with open(p, "rb") as f:
            text = f.read().decode()
        try:
            return text, hp.load(p)
        except Exception as e:  # noqa
            return text, e
        finally:
            os.remove(p)


def saved_text(obj):
    """the text hp.save writes (public entry point; formatting options are the library's business)"""
    import holopy as hp
    b = io.BytesIO()
    hp.save(b, obj)
    return b.getvalue().decode()


def classify_load_error(ctx, e, tree_or_none, cfg, what):
    """stable keys for the known causes; anything else is keyed by exception type"""
    msg = str(e)
    if "python/object/apply:numpy" in msg or "multiarray.scalar" in msg:
        kinds = sorted(np_kinds(tree_or_none) - set(cfg["np_supported"])) if tree_or_none else []
        return "numpy-scalar", "numpy scalar kinds without a loadable text form: %s" % ", ".join(kinds)
    if "unexpected keyword argument" in msg and what == "model":
        return "model-load:theory-parameter", "a model whose theory has a fittable parameter cannot be loaded: " + msg[:120]
    return "load-error:%s" % type(e).__name__, "reload raises %s: %s" % (type(e).__name__, msg[:160])


# ---------------------------------------------------------------------------------------------
# stages

def make_case(ctx, k, names):
    rng = ctx.subrng("obj-%d" % k)
    g = Gen(rng)
    name = names[k % len(names)] if k < 3 * len(names) else rng.choice(names)
    o = g.obj(name)
    target = rng.choice(["stream", "file", "file-ext"])
    ncyc = rng.choice([1, 1, 2, 3])
    return name, o, target, ncyc, g


def check_object(ctx, trees, cfg, iox, name, o, target, ncyc, meta, exprs, metas, texts=None, hid=None):
    """direct exploration of the property on one object + the Coq expressions for it"""
    import yaml
    try:
        t0 = trees.tree(o)
    except Unencodable as e:
        ctx.count("unencodable:" + str(e))
        return
    ctx.count("class:" + name)
    ctx.count("target:" + target)
    ctx.count("cycles:%d" % ncyc)
    for kd in np_kinds(t0):
        ctx.count("numpy:" + kd)
    st0 = state(o)
    text0, r = iox.cycle(o, target)
    ctx.explored += 1
    if texts is not None:
        texts[hid] = text0
    # --- correspondence: model vs implementation on node and reloaded state
    try:
        nl = node_lit(text0)
        exprs.append("node_eqb (to_node Cfg Tbl %s) %s" % (olit(t0), nl))
        metas.append(dict(meta, what="to_node", text=text0))
    except Exception as e:  # noqa
        ctx.violation("harness:node_lit", "cannot compose the dumped text: %s" % e, dict(meta, text=text0), nofail=True)
    if isinstance(r, Exception):
        got = "None"
    else:
        try:
            got = "(Some %s)" % olit(norm(trees.tree(r, reloaded=True)))
        except Unencodable as e:
            got = None
            ctx.violation("reload:unencodable", "reloaded object holds a value outside the grammar: %s" % e,
                          dict(meta, text=text0))
    if got is not None:
        exprs.append("oobj_eqb (from_node Tbl (to_node Cfg Tbl %s)) %s" % (olit(t0), got))
        metas.append(dict(meta, what="from_node", text=text0, reloaded=repr(r)[:400]))
    # --- the property itself
    if isinstance(r, Exception):
        key, what = classify_load_error(ctx, r, t0, cfg, "object")
        ctx.violation(key, "%s cannot be reloaded: %s" % (name, what), dict(meta, text=text0, error=str(r)[:300]))
        return
    n0 = norm(t0)
    prev_text, cur = text0, r
    for c in range(ncyc):
        tr = norm(trees.tree(cur))
        if tr != n0:
            bad = [a for (a, v), (_, w) in zip(n0[2], tr[2]) if v != w] if n0[0] == "obj" and tr[0] == "obj" and n0[1] == tr[1] else ["class"]
            none_lost = n0[0] == "obj" and any(v == ("none",) and w != ("none",) for (a, v), (_, w) in zip(n0[2], tr[2]))
            if none_lost and cfg["skip"] == "SkipNone":
                ctx.violation("none-skip", "an argument explicitly set to None reloads as its non-None default: %s(%s=None)"
                              % (name, bad[0]), dict(meta, text=text0, args=bad, reloaded=repr(cur)[:300]))
            elif n0[0] == "obj" and any(not trees.table[name]["stored"].get(a, True) for a in bad):
                ctx.violation("unstored-arg:%s" % name, "reloaded %s differs in argument(s) %s that the constructor does not "
                              "keep unchanged as attributes" % (name, bad), dict(meta, text=text0, args=bad, reloaded=repr(cur)[:300]))
            else:
                ctx.violation("args:%s" % name, "reloaded %s differs in argument(s) %s after %d cycle(s)" % (name, bad, c + 1),
                              dict(meta, text=text0, args=bad, reloaded=repr(cur)[:300]))
            return
        st = state(cur)
        d = state_diff(st0, st, loose_floats=bool(np_kinds(t0) - {"float64", "complex128"}))
        if d:
            ctx.violation("unstored-arg:%s" % name,
                          "reloaded %s has the same saved arguments but a different state at %s: a constructor argument "
                          "is not kept as an attribute" % (name, d), dict(meta, text=text0, where=d))
            return
        text1 = saved_text(cur)
        if text1 != prev_text:
            if strip_aliases(text1) == strip_aliases(prev_text):
                ctx.violation("text:alias", "second save differs from the first in anchors/aliases of scalars only",
                              dict(meta, first=prev_text, second=text1))
            elif "!complex" in prev_text and "python/complex" in text1:
                ctx.violation("text:complex-tag", "second save writes !!python/complex where the first wrote !complex",
                              dict(meta, first=prev_text, second=text1))
            else:
                ctx.violation("text:%s" % name, "second save of %s differs from the first" % name,
                              dict(meta, first=prev_text, second=text1))
            return
        if c == 0 and plain(t0) and not has_nan(t0):
            ctx.count("eq-checked")
            try:
                eq = bool(o == cur)
            except Exception as e:  # noqa
                eq = "raises %s" % type(e).__name__
            if eq is not True:
                ctx.violation("eq:%s" % name, "library == between original and reloaded %s is %s" % (name, eq),
                              dict(meta, text=text0))
                return
        if c + 1 < ncyc:
            prev_text, cur = iox.cycle(cur, target)
            ctx.explored += 1
            if isinstance(cur, Exception):
                key, what = classify_load_error(ctx, cur, None, cfg, "object")
                ctx.violation(key, "cycle %d of %s: %s" % (c + 2, name, what), dict(meta, text=prev_text))
                return
    if len(np_kinds(t0)) or not plain(t0):
        ctx.nontriv(("obj", name, tuple(sorted(np_kinds(t0))), target, ncyc))


def stage_table(ctx, st):
    """regenerate configuration + class table from the code, probe stored attributes, check table_ok in Coq"""
    cfg = read_config()
    st["cfg"] = cfg
    gens = {n: None for n in INSCOPE}
    entries = build_table(ctx, gens)
    by = {e["name"]: e for e in entries}
    st["entries"] = entries
    table = {e["name"]: dict(args=e["args"], custom=e["custom"], stored=e["stored"]) for e in entries}
    trees = Trees(table)
    st["trees"] = trees
    missing = [n for n in INSCOPE if n not in by]
    for n in missing:
        ctx.violation("table:missing:%s" % n, "exported class %s is no longer a HoloPyObject subclass" % n, dict(cls=n), nofail=True)
    # stored-attribute and None-acceptance probes on generated instances
    rng = ctx.subrng("probe")
    for n in INSCOPE:
        e = by.get(n)
        if e is None or e["custom"]:
            continue
        probed = set()
        for rep in range(ctx.n(12, 30)):
            g = Gen(random_child(rng), risky=0.0, extreme=0.0)
            try:
                o = g.obj(n)
            except Exception as ex:  # noqa
                ctx.violation("gen:%s" % n, "generator produced arguments %s rejects: %s" % (n, ex), dict(cls=n), nofail=True)
                break
            kw = g.last_kwargs if n not in PRIORS else {a: getattr(o, a, None) for a in e["args"]}
            for a in e["args"]:
                if a in kw and kw[a] is not None:
                    probed.add(a)
                    dflt = {p.name: p.default for p in e["params"]}.get(a, inspect.Parameter.empty)
                    if not kept(trees, type(o), kw, a, o, dflt):
                        e["stored"][a] = False
                    else:
                        e["stored"].setdefault(a, True)
            for v in e["locals"]:
                if getattr(o, v, None) is not None and v not in e["local_attrs"]:
                    e["local_attrs"].append(v)
            if rep < 4:
                for p in e["params"]:
                    a = p.name
                    if a in e["none_ok"] or p.default is inspect.Parameter.empty:
                        continue
                    kw2 = dict(kw)
                    kw2[a] = None
                    try:
                        with warnings.catch_warnings():
                            warnings.simplefilter("ignore")
                            o2 = type(o)(**kw2)
                        e["none_ok"][a] = True
                    except Exception:  # noqa
                        e["none_ok"][a] = False
        for a in e["args"]:
            if a not in probed:
                e["stored"][a] = static_stored(e["cls"], a)
                ctx.count("stored-by-source-text")
    for e in entries:
        if not e["inscope"]:
            for a in e["args"]:
                e["stored"][a] = static_stored(e["cls"], a)
    tl = table_lit(entries, trees)
    st["defs"] = "Definition Cfg : config := %s.\nDefinition Tbl : table :=\n %s.\n" % (cfg_lit(cfg), tl)
    text = ("From Coq Require Import ZArith List Bool String.\nImport ListNotations.\nOpen Scope Z_scope.\n"
            "From HV Require Import C15.Model C15.Props.\nOpen Scope string_scope.\n"
            "(* GENERATED from the code under test by harness/props/c15.py on every run; never edit *)\n"
            "Definition Cfg : config := %s.\nDefinition ClassTable : table :=\n %s.\n"
            "Theorem table_ok_holds : table_ok Cfg ClassTable = true.\nProof. vm_compute. reflexivity. Qed.\n"
            "Theorem roundtrip_for_code : forall o, shape_ok ClassTable o = true ->\n"
            "  from_node ClassTable (to_node Cfg ClassTable o) = Some (norm o).\n"
            "Proof. exact (roundtrip_over_table Cfg ClassTable table_ok_holds). Qed.\n"
            "Print Assumptions roundtrip_for_code.\n" % (cfg_lit(cfg), tl))
    ctx.obligations += 2
    res = eval_files("C15", [("ClassTable", text)])
    name_, rc, out = res[0]
    ctx.count("table-classes", len(entries))
    ctx.count("table-inscope", sum(1 for e in entries if e["inscope"]))
    ctx.sample(dict(config=cfg, table_example={e["name"]: [(p.name, repr(p.default) if p.default is not inspect.Parameter.empty
                                                            else "<required>", e["stored"].get(p.name)) for p in e["params"]]
                                               for e in entries if e["name"] in ("CmaStrategy", "Sphere")}))
    if rc == 0 and "Closed under the global context" in out:
        ctx.discharged += 2
        ctx.theorems += ["table_ok_holds(generated)", "roundtrip_for_code(generated)"]
        ctx.axioms["table_ok_holds(generated)"] = []
        ctx.axioms["roundtrip_for_code(generated)"] = []
        return
    # table_ok does not hold for the code as it is: say exactly why, with a failing input on the real code for each cause
    ctx.theorems += ["table_ok_holds(generated)", "roundtrip_for_code(generated)"]
    diag = ("From Coq Require Import ZArith List Bool String.\nImport ListNotations.\nFrom HV Require Import C15.Model.\n"
            "Open Scope string_scope.\n" + st["defs"] +
            "Eval vm_compute in (names_ok Tbl, stored_ok Tbl, none_ok Cfg Tbl, kinds_ok Cfg, cplx_ok Cfg).\n")
    r2 = eval_files("C15d", [("TableDiag", diag)])
    blocks = parse_eval_blocks(r2[0][2]) if r2[0][1] == 0 else []
    comp = re.findall(r"true|false", blocks[-1].split(":")[0]) if blocks else []
    if len(comp) != 5:
        ctx.violation("table:coq-error", "generated class table does not compile: %s" % (out[-400:] + r2[0][2][-400:]),
                      dict(kind="table", log=out[-1500:]), nofail=True)
        return
    names_ok, stored_ok, none_ok, kinds_ok, cplx_ok = [c == "true" for c in comp]
    st["table_components"] = dict(names_ok=names_ok, stored_ok=stored_ok, none_ok=none_ok, kinds_ok=kinds_ok, cplx_ok=cplx_ok)
    ctx.notes.append("table_ok components on this tree: %s" % st["table_components"])
    iox = IO()
    try:
        if not names_ok:
            bad = [(e["name"], e["local_attrs"]) for e in entries if e["local_attrs"]]
            ctx.violation("table:names", "duplicate class/argument names or __init__ locals that shadow attributes: %s" % bad,
                          dict(kind="table", bad=bad), nofail=True)
        if not stored_ok:
            for e in entries:
                if e["inscope"]:
                    bad = [a for a in e["args"] if not e["stored"].get(a, True)]
                    if bad:
                        ctx.violation("unstored-arg:%s" % e["name"],
                                      "%s does not keep constructor argument(s) %s as attributes, so they cannot be saved"
                                      % (e["name"], bad), dict(kind="table-stored", cls=e["name"], args=bad))
        if not none_ok:
            wit = []
            for e in entries:
                if not e["inscope"]:
                    continue
                for p in e["params"]:
                    if e["none_ok"].get(p.name) and p.default is not None and p.default is not inspect.Parameter.empty:
                        wit.append("%s.%s" % (e["name"], p.name))
            # reproduce on the real code with the canonical witness(es)
            shown = []
            for w in wit:
                cn, a = w.split(".")
                g = Gen(ctx.subrng("none-" + w), risky=0.0, extreme=0.0)
                try:
                    o = g.obj(cn)
                    kw = dict(g.last_kwargs)
                    kw[a] = None
                    with warnings.catch_warnings():
                        warnings.simplefilter("ignore")
                        o = type(o)(**kw)
                    text, r = iox.cycle(o, "stream")
                    if not isinstance(r, Exception) and getattr(o, a, None) is None and getattr(r, a, None) is not None:
                        shown.append(dict(witness="%s(%s=None)" % (cn, a), reloaded_value=repr(getattr(r, a))[:60], text=text))
                except Exception:  # noqa
                    pass
            shown.sort(key=lambda w: (".parallel" not in w["witness"].replace("(", ".").replace("=", "."), w["witness"]))
            if shown:
                ctx.violation("none-skip", "an argument explicitly set to None reloads as its non-None default, e.g. %s -> %s "
                              "(%d class.argument pairs for which the constructor accepts None)" %
                              (shown[0]["witness"], shown[0]["reloaded_value"], len(shown)),
                              dict(kind="table-none", witnesses=shown[:40]))
        if not kinds_ok:
            import numpy as np
            from holopy.scattering import Sphere
            bad = [k for k in ALL_NP_KINDS if k not in cfg["np_supported"]]
            shown = []
            for k in bad:
                v = getattr(np, "bool_" if k == "bool" else k)(1)
                o = Sphere(n=1.5, r=v, center=[0, 0, 0])
                text, r = iox.cycle(o, "stream")
                if isinstance(r, Exception):
                    shown.append(dict(witness="Sphere(n=1.5, r=np.%s(1), center=[0,0,0])" % k, error=str(r)[:120]))
            if shown:
                ctx.violation("numpy-scalar", "objects holding numpy scalars of kinds %s are saved in a form that cannot be "
                              "loaded, e.g. %s" % (", ".join(bad), shown[0]["witness"]), dict(kind="table-kinds", witnesses=shown))
        if not cplx_ok:
            import numpy as np
            import yaml
            from holopy.scattering import Sphere
            o = Sphere(n=np.complex128(1.5 + 0.5j), r=0.5, center=[0, 0, 1])
            text, r = iox.cycle(o, "stream")
            if not isinstance(r, Exception):
                t2 = saved_text(r)
                if t2 != text:
                    ctx.violation("text:complex-tag", "second save writes !!python/complex where the first wrote !complex: "
                                  "Sphere(n=np.complex128(1.5+0.5j), r=0.5, center=[0,0,1])",
                                  dict(kind="table-cplx", first=text, second=t2))
    finally:
        iox.close()


def stage_reduced_precision(ctx):
    """numbers held in reduced-precision numpy types (float32, float16, complex64 - what a camera pipeline or a GPU fit hands
    over) with values that are NOT short binary fractions: every such number is exactly a double, so it has to come back as
    exactly that double (a text that is only the shortest float32 repr reads back as another double)"""
    import numpy as np
    from holopy.scattering import Sphere, Cylinder, Spheres, LayeredSphere
    from holopy.core.prior import Uniform, Gaussian, ComplexPrior
    iox = IO()
    rng = ctx.subrng("reduced")
    try:
        for k in range(ctx.n(12, 60)):
            re_, im_ = rng.choice([1.59, 1.33, 1.45, 2.417, 1.1]), rng.choice([0.1, 0.05, 0.003, 0.27])
            kind = ["complex64", "float32", "complex64-array", "float32-array", "float16", "complex64-in-spheres"][k % 6]
            if kind == "complex64":
                o = Sphere(n=np.complex64(complex(re_, im_)), r=np.float32(0.55), center=(0.1, 0.2, 3.0))
                get = lambda x: [complex(x.n), float(x.r)]  # noqa
            elif kind == "float32":
                o = Cylinder(n=np.float32(re_), d=np.float32(0.7), h=np.float32(1.3), center=(0.1, 0.2, 3.0))
                get = lambda x: [float(x.n), float(x.d), float(x.h)]  # noqa
            elif kind == "complex64-array":
                o = Sphere(n=np.array([complex(re_, im_), complex(re_ + 0.07, 0.0)], dtype=np.complex64), r=[0.3, 0.55], center=(0, 0, 3.0))
                get = lambda x: [complex(v) for v in np.ravel(x.n)]  # noqa
            elif kind == "float32-array":
                o = LayeredSphere(n=np.array([re_, re_ + 0.07], dtype=np.float32), t=np.array([0.3, 0.13], dtype=np.float32), center=(0, 0, 3.0))
                get = lambda x: [float(v) for v in np.ravel(x.n)] + [float(v) for v in np.ravel(x.t)]  # noqa
            elif kind == "float16":
                o = Gaussian(np.float16(re_), np.float16(im_))
                get = lambda x: [float(x.mu), float(x.sd)]  # noqa
            else:
                o = Spheres([Sphere(n=np.complex64(complex(re_, im_)), r=0.4, center=(0, 0, 3.0)),
                             Sphere(n=np.complex64(complex(re_ + 0.07, im_ / 2)), r=0.3, center=(1.0, 0, 3.0))])
                get = lambda x: [complex(m.n) for m in x.scatterers]  # noqa
            want = get(o)
            for target in ("stream", "file"):
                text, r = iox.cycle(o, target)
                ctx.explored += 1
                ctx.count("reduced-precision:%s" % kind)
                ctx.nontriv(("reduced", kind, target))
                meta = dict(kind="reduced-precision", what=kind, target=target, text=text, original=repr(o)[:200])
                if isinstance(r, Exception):
                    ctx.violation("load:reduced-precision:%s" % kind, "an object holding %s numbers saves but does not load: %s" % (kind, r), meta)
                    break
                got = get(r)
                if got != want:
                    ctx.violation("args:reduced-precision:%s" % kind,
                                  "an object holding %s numbers reloads with other values: %r != %r" % (kind, got[:3], want[:3]),
                                  dict(meta, got=[str(v) for v in got], want=[str(v) for v in want]))
                    break
    finally:
        iox.close()


def kept(trees, cls, kw, a, o, dflt):
    """is constructor argument `a` kept as the attribute of the same name?  Either the attribute equals what was
    passed, or the constructor normalises it idempotently (ensure_array, dict merged over defaults, a computed
    default) AND the attribute depends on the argument."""
    def lt(x):
        try:
            return loose(trees.tree(x))
        except Unencodable:
            return ("id", id(x))
    attr = getattr(o, a, None)
    if attr is None:
        return False
    if lt(attr) == lt(kw[a]):
        return True
    with warnings.catch_warnings():
        warnings.simplefilter("ignore")
        try:
            o2 = cls(**{**kw, a: attr})
            if lt(getattr(o2, a, None)) != lt(attr):
                return False                      # not idempotent (e.g. a seed that is advanced on every construction)
        except Exception:  # noqa
            return False
        try:
            if dflt is inspect.Parameter.empty or lt(dflt) == lt(kw[a]):
                return True                       # passed the default itself: nothing to tell apart
            o3 = cls(**{k: v for k, v in kw.items() if k != a})
            if lt(getattr(o3, a, None)) == lt(attr):
                return False                      # the attribute ignores the argument (e.g. self.damp = 0)
        except Exception:  # noqa
            pass
    return True


def random_child(rng):
    import random
    return random.Random(rng.getrandbits(64))


def stage_objects(ctx, st):
    cfg, trees = st["cfg"], st["trees"]
    names = [n for n in INSCOPE if any(e["name"] == n and e["inscope"] for e in st["entries"])]
    ncases = ctx.n(400, 6000)
    exprs, metas = st.pop("hist_exprs", ([], []))
    texts = st.setdefault("texts", {})
    iox = IO()
    try:
        for k in range(ncases):
            try:
                name, o, target, ncyc, g = make_case(ctx, k, names)
            except Exception as e:  # noqa
                ctx.violation("gen:case", "generator failed for case %d: %s: %s" % (k, type(e).__name__, e),
                              dict(kind="gen", case=k), nofail=True)
                continue
            meta = dict(kind="object", case=k, cls=name, target=target, cycles=ncyc, obj=repr(o)[:600])
            check_object(ctx, trees, cfg, iox, name, o, target, ncyc, meta, exprs, metas, texts=texts, hid="case:%d" % k)
            if k < 4:
                ctx.sample(dict(obj=repr(o)[:300], target=target, cycles=ncyc))
    finally:
        iox.close()
    procs = spawn_orders(ctx, st, names)          # fresh interpreters run while Coq evaluates the model
    try:
        mism, errors, _ = run_mismatch_cases("C15o", REQ, exprs, defs=st["defs"], chunk=150, jobs=12)
    finally:
        collect_orders(ctx, st, procs)
    ctx.corr_cases += len(exprs)
    for e in errors:
        ctx.violation("corr-eval-error", "model evaluation failed: " + e[:300], dict(kind="coq-error", log=e), nofail=True)
    for i in mism:
        m = metas[i]
        key = "corr:%s" % m["what"] if m["what"].startswith("history:") else "corr:%s:%s" % (m["what"], m["cls"])
        ctx.disagree(key, "model and implementation disagree on %s of a %s" % (m["what"], m["cls"]), m)



# -- history independence: what was saved / printed / compared before must not matter --------------------------

def none_pairs(st):
    """(class, argument) pairs of the regenerated table: the constructor accepts None and the default is not None"""
    out = []
    for e in st["entries"]:
        if not e["inscope"]:
            continue
        for p in e["params"]:
            if e["none_ok"].get(p.name) and p.default is not None and p.default is not inspect.Parameter.empty:
                out.append((e["name"], p.name))
    return out


def none_variant(ctx, cn, a):
    """a valid instance of class cn whose argument a is an explicit None (deterministic in the seed)"""
    g = Gen(ctx.subrng("none-%s.%s" % (cn, a)), risky=0.0, extreme=0.0)
    o = g.obj(cn)
    kw = dict(g.last_kwargs)
    kw[a] = None
    with warnings.catch_warnings():
        warnings.simplefilter("ignore")
        return type(o)(**kw)


def touch_ancestors(ctx, cls, tag, log):
    """save, print and compare an instance of every HoloPyObject ancestor class of cls (generated instance where the
    class is in scope, else A() or a bare instance)"""
    from holopy.core.holopy_object import HoloPyObject
    for A in cls.__mro__[1:]:
        if not (isinstance(A, type) and issubclass(A, HoloPyObject)) or A is HoloPyObject:
            continue
        inst = None
        if A.__name__ in INSCOPE:
            try:
                inst = Gen(ctx.subrng("anc-%s-%s" % (tag, A.__name__)), risky=0.0, extreme=0.0).obj(A.__name__)
            except Exception:  # noqa
                inst = None
        if inst is None:
            try:
                inst = A()
            except Exception:  # noqa
                inst = A.__new__(A)
        for op in ("save", "repr", "eq"):
            try:
                if op == "save":
                    saved_text(inst)
                elif op == "repr":
                    repr(inst)
                else:
                    inst == inst.__class__.__new__(inst.__class__)
                log.append("%s:%s" % (A.__name__, op))
            except Exception:  # noqa
                pass


def history_pair(ctx, st, iox, cn, a, exprs, metas, texts):
    by = {e["name"]: e for e in st["entries"]}
    log = []
    touch_ancestors(ctx, by[cn]["cls"], "%s.%s" % (cn, a), log)
    try:
        o = none_variant(ctx, cn, a)
    except Exception as e:  # noqa
        ctx.count("history-ungenerated")
        return
    if getattr(o, a, None) is not None:
        return          # the constructor replaces None (computed default): nothing to lose
    meta = dict(kind="history-none", cls=cn, arg=a, before=log, obj=repr(o)[:400])
    ctx.count("history-pair")
    ctx.nontriv(("history", cn, a))
    text, r = iox.cycle(o, "stream")
    ctx.explored += 1
    texts["none:%s.%s" % (cn, a)] = text
    try:
        t0 = st["trees"].tree(o)
        exprs.append("node_eqb (to_node Cfg Tbl %s) %s" % (olit(t0), node_lit(text)))
        metas.append(dict(meta, what="history:to_node", text=text))
        if not isinstance(r, Exception):
            exprs.append("oobj_eqb (from_node Tbl (to_node Cfg Tbl %s)) (Some %s)" %
                         (olit(t0), olit(norm(st["trees"].tree(r, reloaded=True)))))
            metas.append(dict(meta, what="history:from_node", text=text))
    except Unencodable:
        pass
    if isinstance(r, Exception):
        key, what = classify_load_error(ctx, r, None, st["cfg"], "object")
        ctx.violation(key, "%s(%s=None) after %s: %s" % (cn, a, log[:3], what), dict(meta, text=text))
        return
    if getattr(r, a, None) is not None:
        ctx.violation("history:none-skip", "%s(%s=None), saved after an object of a parent class was saved/printed/compared, "
                      "reloads with %s=%r" % (cn, a, a, getattr(r, a)), dict(meta, text=text, reloaded=repr(r)[:300]))
        return
    t2 = saved_text(r)
    if t2 != text:
        ctx.violation("history:text", "second save of %s(%s=None) differs from the first" % (cn, a),
                      dict(meta, first=text, second=t2))


def stage_history_none(ctx, st):
    """(a) ancestors first, then the subclass with the explicit None; compared with the model as well"""
    exprs, metas = [], []
    texts = st.setdefault("texts", {})
    iox = IO()
    try:
        for cn, a in none_pairs(st):
            history_pair(ctx, st, iox, cn, a, exprs, metas, texts)
    finally:
        iox.close()
    st["hist_exprs"] = (exprs, metas)       # evaluated together with the object cases (one coqc batch)


VERIF_DIR = os.path.dirname(os.path.dirname(os.path.dirname(os.path.abspath(__file__))))
HIST_DIR = os.path.join(RUN_ROOT, "C15h")


def order_items(ctx, st, names):
    n = min(ctx.n(400, 6000), ctx.n(130, 700))
    items = [["case", k] for k in range(n)] + [["none", cn, a] for cn, a in none_pairs(st)]
    return items


def spawn_orders(ctx, st, names):
    """(b) the same objects, dumped in other orders, each order in a FRESH interpreter (a per-process cache keeps
    whatever the first order put there, so re-ordering inside one process would see nothing)"""
    import json
    import random
    import subprocess
    import sys
    os.makedirs(HIST_DIR, exist_ok=True)
    items = order_items(ctx, st, names)
    procs = []
    for tag in ("reversed", "shuffled"):
        order = list(items)
        if tag == "reversed":
            order.reverse()
        else:
            random.Random("%s-%d-order" % (ctx.pid, ctx.seed)).shuffle(order)
        spec = os.path.join(HIST_DIR, "spec_%s.json" % tag)
        out = os.path.join(HIST_DIR, "out_%s.json" % tag)
        if os.path.exists(out):
            os.remove(out)
        with open(spec, "w") as f:
            json.dump(dict(seed=ctx.seed, tier=ctx.tier, names=names, order=order, out=out), f)
        p = subprocess.Popen([sys.executable, "-W", "ignore", "-m", "harness.props.c15", spec],
                             cwd=VERIF_DIR,
                             stdout=subprocess.PIPE, stderr=subprocess.STDOUT, text=True)
        procs.append((tag, p, out, order))
    return procs


def item_id(it):
    return "case:%d" % it[1] if it[0] == "case" else "none:%s.%s" % (it[1], it[2])


def collect_orders(ctx, st, procs):
    import json
    ref = st.get("texts", {})
    for tag, p, out, order in procs:
        try:
            log, _ = p.communicate(timeout=ctx.n(240, 900))
        except Exception:  # noqa
            p.kill()
            log = "timeout"
        if p.returncode != 0 or not os.path.exists(out):
            ctx.violation("history:child-crash", "fresh interpreter for order '%s' failed: %s" % (tag, (log or "")[-300:]),
                          dict(kind="history-order", order=tag, log=(log or "")[-2000:]), nofail=True)
            continue
        got = json.load(open(out))
        ctx.count("order:%s" % tag, len(got))
        for pos, it in enumerate(order):
            i = item_id(it)
            if i not in ref or i not in got:
                continue
            ctx.explored += 1
            if got[i] != ref[i]:
                before = [item_id(x) for x in order[max(0, pos - 5):pos]]
                ctx.violation("history:order", "the saved text of the same object depends on what was saved before it: %s "
                              "(order '%s' in a fresh interpreter vs the main run)" % (i, tag),
                              dict(kind="history-order", item=it, order=tag, position=pos, saved_just_before=before,
                                   text_main_run=ref[i], text_this_order=got[i]))
                break


def child_main(specfile):
    """fresh interpreter: dump the listed objects in the given order, write {id: text}"""
    import json
    from harness.lib.ctx import Ctx
    spec = json.load(open(specfile))
    ctx = Ctx("C15", tier=spec["tier"], seed=spec["seed"])
    boot.boot()
    warnings.simplefilter("ignore")
    import_everything()
    out = {}
    for it in spec["order"]:
        try:
            if it[0] == "case":
                name, o, target, ncyc, g = make_case(ctx, it[1], spec["names"])
            else:
                o = none_variant(ctx, it[1], it[2])
            out[item_id(it)] = saved_text(o)
        except Exception as e:  # noqa
            out[item_id(it)] = "ERR %s" % type(e).__name__
    with open(spec["out"], "w") as f:
        json.dump(out, f)

# -- models (own _iteritems / from_yaml through C11's maps): explored, not modelled -------------------------

def gen_model(ctx, k):
    import numpy as np
    from holopy.scattering import Sphere, Spheres, MieLens, Mie, AberratedMieLens, Spheroid
    from holopy.inference import AlphaModel, ExactModel, LimitOverlaps
    from holopy.core import prior
    rng = ctx.subrng("model-%d" % k)
    g = Gen(rng, risky=0.0, extreme=0.05)
    feats = []
    U = prior.Uniform
    shared = U(1.25, 1.75) if rng.random() < 0.5 else None

    def nval():
        if shared is not None and rng.random() < 0.7:
            feats.append("tie")
            return shared
        m = rng.random()
        if m < 0.3:
            return g.prior(1)
        if m < 0.45:
            feats.append("complex-prior")
            return prior.ComplexPrior(U(1.25, 1.75), g.dy(0, 0.25, 8))
        if m < 0.6:
            feats.append("channel-index")
            return {"red": g.dy(1.25, 1.75), "green": U(1.25, 1.75)}
        return g.dy(1.25, 1.75)

    def sph(i):
        c = [g.maybe_prior(10.0 * i + g.dy(-1, 1), 0.4), g.maybe_prior(g.dy(-1, 1), 0.3), g.maybe_prior(g.dy(5, 9), 0.5)]
        r = g.maybe_prior(g.dy(0.25, 1), 0.5)
        if rng.random() < 0.15:
            feats.append("transformed")
            r = np.sqrt(U(0.25, 1))
        return Sphere(n=nval(), r=r, center=c)
    kind = rng.choice(["sphere", "sphere", "spheres", "spheroid"])
    if kind == "sphere":
        s = sph(0)
    elif kind == "spheres":
        s = Spheres([sph(i) for i in range(rng.choice([2, 3]))], warn=False)
    else:
        s = Spheroid(n=g.maybe_prior(1.5, 0.5), r=[g.maybe_prior(g.dy(0.25, 1), 0.4) for _ in range(2)],
                     center=[g.dy(-1, 1), g.dy(-1, 1), g.maybe_prior(g.dy(5, 9), 0.5)], rotation=[0, g.maybe_prior(0.5, 0.4), 0.25])
    kw = {}
    if rng.random() < 0.7:
        kw["noise_sd"] = rng.choice([0.125, {"red": 0.125, "green": 0.25}, U(0.0625, 0.5)])
    if rng.random() < 0.6:
        kw["medium_index"] = g.maybe_prior(1.33, 0.3)
    if rng.random() < 0.6:
        if rng.random() < 0.4:
            feats.append("channel-optics")
            kw["illum_wavelen"] = {"red": 0.66, "green": g.maybe_prior(0.52, 0.4)}
        else:
            kw["illum_wavelen"] = g.maybe_prior(0.66, 0.3)
    if rng.random() < 0.6:
        kw["illum_polarization"] = rng.choice([(1, 0), [0, 1], (0.6, 0.8)])
    theory_prior = False
    if kind == "sphere" and rng.random() < 0.35:
        m = rng.random()
        if m < 0.4:
            kw["theory"] = MieLens(lens_angle=g.dy(0.5, 1))
        elif m < 0.7:
            kw["theory"] = Mie(False, False)
        else:
            theory_prior = True
            feats.append("theory-prior")
            kw["theory"] = (MieLens(lens_angle=U(0.5, 1.0)) if rng.random() < 0.5 else
                            AberratedMieLens(spherical_aberration=U(-1, 1), lens_angle=0.75))
    if kind == "spheres" and rng.random() < 0.5:
        feats.append("constraint")
        kw["constraints"] = LimitOverlaps(g.dy(0, 0.5)) if rng.random() < 0.5 else [LimitOverlaps(0.25)]
    with warnings.catch_warnings():
        warnings.simplefilter("ignore")
        if rng.random() < 0.75:
            kw["alpha"] = g.maybe_prior(g.dy(0.5, 1), 0.5)
            m = AlphaModel(s, **kw)
        else:
            m = ExactModel(s, **kw)
        if rng.random() < 0.3:
            names = [n for n in m._parameter_names]
            # tie two equal priors after the fact
            for i in range(len(names)):
                for j in range(i + 1, len(names)):
                    if m._parameters[i].renamed(None) == m._parameters[j].renamed(None):
                        m.add_tie([names[i], names[j]], new_name=rng.choice([None, "tied"]))
                        feats.append("add_tie")
                        break
                else:
                    continue
                break
    return m, sorted(set(feats)), theory_prior


def stage_models(ctx, st):
    import yaml
    iox = IO()
    try:
        for k in range(ctx.n(120, 1500)):
            try:
                m, feats, theory_prior = gen_model(ctx, k)
            except Exception as e:  # noqa
                ctx.violation("gen:model", "model generator failed for case %d: %s: %s" % (k, type(e).__name__, e),
                              dict(kind="gen-model", case=k), nofail=True)
                continue
            rng = ctx.subrng("model-io-%d" % k)
            target = rng.choice(["stream", "file", "file-ext"])
            ncyc = rng.choice([1, 2, 3])
            meta = dict(kind="model", case=k, features=feats, target=target, cycles=ncyc, model=repr(m)[:500])
            for f in feats:
                ctx.count("model:" + f)
            ctx.count("model-class:" + type(m).__name__)
            with warnings.catch_warnings(record=True) as w:
                warnings.simplefilter("always")
                text, r = iox.cycle(m, target)
            ctx.explored += 1
            if isinstance(r, Exception):
                key, what = classify_load_error(ctx, r, None, st["cfg"], "model")
                ctx.violation(key, what, dict(meta, text=text, error=str(r)[:300]))
                continue
            if any("inconsistencies when reloading" in str(x.message) for x in w):
                ctx.violation("model:inconsistent", "Model.from_yaml itself reports an inconsistent reload", dict(meta, text=text))
                continue
            prev, cur = text, r
            ok = True
            for c in range(ncyc):
                if cur._parameter_names != m._parameter_names:
                    ctx.violation("model:names", "reloaded model has parameter names %s, original %s" %
                                  (cur._parameter_names, m._parameter_names), dict(meta, text=text))
                    ok = False
                elif cur._maps != m._maps:
                    ctx.violation("model:maps", "reloaded model has a different value-to-place mapping", dict(meta, text=text))
                    ok = False
                elif cur._parameters != m._parameters:
                    ctx.violation("model:parameters", "reloaded model has different priors", dict(meta, text=text))
                    ok = False
                elif state_diff(state(m.scatterer), state(cur.scatterer)) or state_diff(state(m.theory), state(cur.theory)):
                    ctx.violation("model:scatterer", "reloaded model describes a different scatterer / theory", dict(meta, text=text))
                    ok = False
                elif not (m == cur):
                    ctx.violation("eq:model", "library == between original and reloaded model is False", dict(meta, text=text))
                    ok = False
                else:
                    t1 = saved_text(cur)
                    if t1 != prev:
                        if strip_aliases(t1) == strip_aliases(prev):
                            ctx.violation("text:alias", "second save differs from the first in anchors/aliases of scalars only",
                                          dict(meta, first=prev, second=t1))
                        else:
                            ctx.violation("text:model", "second save of a model differs from the first", dict(meta, first=prev, second=t1))
                        ok = False
                if not ok:
                    break
                if c + 1 < ncyc:
                    prev, cur = iox.cycle(cur, target)
                    ctx.explored += 1
                    if isinstance(cur, Exception):
                        key, what = classify_load_error(ctx, cur, None, st["cfg"], "model")
                        ctx.violation(key, "cycle %d: %s" % (c + 2, what), dict(meta, text=prev))
                        break
            if ok and feats:
                ctx.nontriv(("model", tuple(feats), target, ncyc))
    finally:
        iox.close()


# source tie: the per-argument decision of HoloPyObject._iteritems as written now
def _src_items():
    from harness.lib import pyobj
    return [dict(file="holopy/core/holopy_object.py", qualname="HoloPyObject._iteritems", name="iteritems_src", fn=pyobj.iteritems)]


def stage_srctie(ctx):
    from harness.lib import srctie
    ok = srctie.run(ctx, "C15", "From HV Require Import C15.Model C15.Lemmas C15.Props.\n", _src_items())
    ctx.count("srctie:%s" % ("ok" if ok else "broken"))


def run(ctx):
    ctx.rule = ("objects: every in-scope exported class (15 scatterer classes incl. CSG and nesting, 6 theories, 5 priors incl. "
                "ufunc / operator derived and complex, 5 strategies, LimitOverlaps) x generated valid arguments (dyadic and extreme "
                "floats, ints, complex, numpy scalars of 12 kinds, list / tuple / ndarray containers of several dtypes, dicts, "
                "nested objects, explicit None) x {stream, file, file with extension} x 1-3 cycles; models: Alpha/ExactModel with "
                "ties, add_tie, per-channel optics and indices, complex / transformed priors, theories with fittable parameters, "
                "constraints.  non-trivial = object holding a numpy scalar / tuple / array (distinct class x kinds x target x "
                "cycles) or model with at least one such feature")
    ctx.clauses_proved = ["from_node(to_node o) = norm o for every object over any table/config with wfb (structural induction, nested)",
                          "table_ok on the regenerated table => every instance is well-formed => round trip (re-proved each run)",
                          "second dump represents the identical node tree", "exact equality when arguments were lists / Python scalars",
                          "any number of cycles", "None survives; class and argument names unchanged",
                          "the as-is None skip / scalar kinds / complex tag / unstored arguments are refuted by witnesses"]
    ctx.clauses_explored = ["PyYAML text formatting and parsing of scalars (oracle; exercised on every case, incl. extreme floats)",
                            "text identity of the second save (anchors are decided by Python object identity)",
                            "library == on reloaded objects", "models: parameter names, ties, maps, priors, scatterer/theory state "
                            "(Model._iteritems / from_yaml go through C11's maps, not modelled here)",
                            "hp.save / hp.load dispatch for file and stream targets",
                            "history independence: ancestors saved/printed/compared first, then the subclass with an explicit "
                            "None (every pair of the table); the same objects dumped in reversed / shuffled order in fresh "
                            "interpreters give the identical text"]
    ctx.trusted += ["oracle: PyYAML emitter/scanner/resolver (text <-> node tree; its scalar formatting is exercised, not modelled)",
                    "oracle: each constructor re-creates the same attributes from the attributes it stored (probed per run on "
                    "generated instances: the `astored` column of the class table)",
                    "generated input to Coq: class table + configuration read from the code by inspect / behaviour probes "
                    "(build/run/C15/ClassTable.v)"]
    ctx.checker_cmd = ("coqc -Q coq HV coq/C15/Props.v (after make -C coq); coqc build/run/C15/ClassTable.v "
                       "(table_ok_holds, roundtrip_for_code; regenerated each run)")
    ctx.trusted.append("source reader harness/lib/pyobj.py (the loop body of _iteritems read as a boolean function of four facts about an "
                       "argument; how the facts are obtained compared as text) for the source tie")
    ctx.clauses_proved.append(
        "source tie: the per-argument decision of HoloPyObject._iteritems (core/holopy_object.py), read from the current source text on "
        "every run, writes an attribute exactly when the model's rule does not skip it, for every class / argument / value; a non-None "
        "value is always written and None exactly for a set argument whose default exists and is not None "
        "[iteritems_src_is_model, src_none_rule, iteritems_src_reads]")
    guarded(ctx, "prove", ctx.prove)
    guarded(ctx, "source-tie", stage_srctie, ctx)
    boot.boot()
    warnings.simplefilter("ignore")
    st = {}
    guarded(ctx, "table", stage_table, ctx, st)
    if "trees" in st:
        guarded(ctx, "history", stage_history_none, ctx, st)
        guarded(ctx, "objects", stage_objects, ctx, st)
        guarded(ctx, "models", stage_models, ctx, st)
        guarded(ctx, "reduced-precision", stage_reduced_precision, ctx)


def replay(ctx, data):
    """re-run the stored failing case on the current tree"""
    boot.boot()
    warnings.simplefilter("ignore")
    d = data["data"]
    ctx.seed = data.get("seed", ctx.seed)
    st = {}
    stage_table(ctx, st)
    kind = d.get("kind")
    if kind == "object" and "trees" in st:
        names = [n for n in INSCOPE if any(e["name"] == n and e["inscope"] for e in st["entries"])]
        name, o, target, ncyc, g = make_case(ctx, d["case"], names)
        print("replay: case %d %s target=%s cycles=%d\n  %r" % (d["case"], name, target, ncyc, o))
        iox = IO()
        exprs, metas = [], []
        try:
            check_object(ctx, st["trees"], st["cfg"], iox, name, o, target, ncyc, dict(d), exprs, metas)
        finally:
            iox.close()
        mism, errors, _ = run_mismatch_cases("C15o", REQ, exprs, defs=st["defs"])
        for i in mism:
            ctx.disagree("corr:%s:%s" % (metas[i]["what"], name), "model and implementation disagree", metas[i])
    elif kind == "history-none" and "trees" in st:
        iox = IO()
        exprs, metas = [], []
        try:
            history_pair(ctx, st, iox, d["cls"], d["arg"], exprs, metas, {})
        finally:
            iox.close()
        print("replay: %s(%s=None) after %s" % (d["cls"], d["arg"], d.get("before")))
        mism, errors, _ = run_mismatch_cases("C15o", REQ, exprs, defs=st["defs"])
        for i in mism:
            ctx.disagree("corr:%s:%s" % (metas[i]["what"], d["cls"]), "model and implementation disagree", metas[i])
    elif kind == "history-order" and "trees" in st:
        names = [n for n in INSCOPE if any(e["name"] == n and e["inscope"] for e in st["entries"])]
        stage_history_none(ctx, st)
        st.pop("hist_exprs", None)
        texts = st["texts"]
        for it in order_items(ctx, st, names):
            if it[0] == "case":
                try:
                    texts[item_id(it)] = saved_text(make_case(ctx, it[1], names)[1])
                except Exception:  # noqa
                    pass
        collect_orders(ctx, st, spawn_orders(ctx, st, names))
    elif kind == "model":
        ctx_n = ctx.n
        ctx.n = lambda q, t: d["case"] + 1
        stage_models(ctx, st)
        ctx.n = ctx_n
    else:
        print("replay: table-level finding; the table stage has been re-run")
    ctx.violations = [v for v in ctx.violations if v["key"] == data["key"]]


if __name__ == "__main__":
    import sys
    from harness.props import c15 as _self      # so that module-level example functions keep their importable name
    _self.child_main(sys.argv[1])

"""C02 - independent single-sphere solvers agree.

PROVED (coq/C02): the algebraic skeleton (coefficient formulas B&H <-> van de Hulst incl. time convention, Yang
recursion reductions for every number of layers, thickness <-> radius, amplitude-matrix packing, field assembly).
CORRESPONDENCE (this file, Coq evaluates the model on Q(i)): the model's formulas on the implementation's own
special-function values vs miescatlib.scatcoeffs / scatcoeffs_multi / AlBlFunctions / asm_mie_far / mie_fields /
tmatrix_fields / _asm_far / MieScatteringMatrix / LayeredSphere.r.
EXPLORED ONLY (never called a proof): numerical agreement Mie / Multisphere(1 sphere) / lens-code series / T-matrix /
an independent textbook series written here with scipy Bessel functions; layered reductions on the real solver."""
import cmath
import math
import warnings

from harness.lib import boot
from harness.lib.coqrun import qlit, zlit, blit, listlit, run_mismatch_cases
from harness.lib.ctx import guarded

REQ = "From HV Require Import Common.Generic Common.Cmp C02.Model.\nOpen Scope Q_scope.\n"
DEFS = ("Definition K := cx_ops QF.\n"
        "Definition tol : Q := 1 # 1000000000.\n"       # 1e-9 relative: model vs implementation on the same leaves
        "Definition tolz : Q := 1 # 1000000000000.\n"   # 1e-12: arguments handed to special functions
        "Definition fl : Q := Qmake 1 (Pos.pow 10 300).\n")
COND_MAX = 1e5          # generator-side exclusion of ill-conditioned subtractions (counted)
TOL_TEXTBOOK = 1e-7     # Mie vs textbook / lens series (relative to max |S|)
TOL_MULTI = 1e-2        # vs Multisphere() with its DEFAULT truncation tolerances (qeps1 = 1e-5): measured <= 5e-3
TOL_MULTI_RESONANT = 5e-2   # |m| x > 20 with the default tolerances, only when the tight-tolerance run agrees (see stage_explore_smatrix)
TOL_MULTI_TIGHT = 1e-4  # vs Multisphere(qeps1=1e-12, qeps2=1e-15, eps=1e-10): measured <= 4e-5 (typ. 1e-6)
TOL_TMAT = 1e-4         # T-matrix code on a sphere vs far-field Mie: measured <= 6e-7 once the S matrix is not transposed
TOL_LAYER = 1e-7        # layered reductions on the real solver (uniform / merged): measured <= 1e-14
TOL_OUTER = 1e-4        # outer layer of the medium's index: different radius => different series / conditioning
X_MULTI_MAX = 14.0      # scfodim.for nod = 32 orders: larger spheres are silently truncated by the multi-sphere code
WL, NMED = 0.66, 1.33
import os
ONLY = [t for t in os.environ.get('C02_ONLY', '').split(',') if t]   # debugging aid: run a subset of stages


def clit(z):
    z = complex(z)
    return "(%s, %s)" % (qlit(z.real), qlit(z.imag))


def rlit(x):
    return "(%s, 0)" % qlit(float(x))


def finite(*vals):
    import numpy as np
    for v in vals:
        a = np.asarray(v)
        if not np.all(np.isfinite(a)):
            return False
    return True


def cond(t1, t2):
    """conditioning of t1 - t2"""
    d = abs(t1 - t2)
    s = abs(t1) + abs(t2)
    if d == 0:
        return float("inf") if s > 0 else 1.0
    return s / d


def gen_m(rng, kind=None):
    kind = kind or rng.choice(["real>1", "real>1", "real<1", "absorbing", "absorbing"])
    if kind == "real>1":
        return kind, rng.uniform(1.05, 2.6)
    if kind == "real<1":
        return kind, rng.uniform(0.5, 0.95)
    return kind, complex(rng.uniform(1.05, 2.5), 10 ** rng.uniform(-4, 0))


def gen_x(rng, lo, hi):
    return 10 ** rng.uniform(math.log10(lo), math.log10(hi))


def sample_orders(rng, nstop, k=8):
    if nstop <= k:
        return list(range(1, nstop + 1))
    s = {1, 2, nstop}
    while len(s) < k:
        s.add(rng.randint(1, nstop))
    return sorted(s)


def report(ctx, tag, exprs, metas, keyfn):
    mism, errors, _ = run_mismatch_cases(tag, REQ, exprs, defs=DEFS, chunk=10, jobs=10)
    ctx.corr_cases += len(exprs)
    for e in errors:
        ctx.violation("corr-eval-error:" + tag, "model evaluation failed: " + e[:300], dict(kind="coq-error", log=e),
                      nofail=True)
    for i in mism:
        m = metas[i]
        ctx.disagree(keyfn(m), "model and implementation disagree on %s" % m["what"], dict(kind="corr", **m))


# ------------------------------------------------------------------------------------------------
# correspondence stages

def stage_scatcoeffs(ctx):
    import numpy as np
    from holopy.scattering.theory.mie_f import miescatlib, mie_specfuncs, mieangfuncs
    rng = ctx.subrng("scatcoeffs")
    exprs, metas = [], []
    for k in range(ctx.n(45, 600)):
        kind, m = gen_m(rng)
        x = gen_x(rng, 1e-3, 100.0)
        eps1 = rng.choice([1e-2, 1e-3])
        nstop = miescatlib.nstop(x)
        out = miescatlib.scatcoeffs(m, x, nstop, eps1, 1e-16)
        D = mieangfuncs.dn_1_down(m * x, nstop + 1, nstop, mieangfuncs.lentz_dn1(m * x, nstop + 1, eps1, 1e-16))
        psi, xi = mie_specfuncs.riccati_psi_xi(x, nstop)
        if not finite(out, D, psi, xi):
            ctx.count("scatcoeffs:excluded-nonfinite")
            continue
        ctx.count("scatcoeffs:" + kind)
        used = 0
        for n in sample_orders(rng, nstop, 6):
            A = D[n] / m + n / x
            B = D[n] * m + n / x
            cs = max(cond(A * psi[n], psi[n - 1]), cond(A * xi[n], xi[n - 1]),
                     cond(B * psi[n], psi[n - 1]), cond(B * xi[n], xi[n - 1]))
            if cs > COND_MAX:
                ctx.count("scatcoeffs:excluded-illconditioned-order")
                continue
            used += 1
            e = "pclose QF tol fl (scatcoeffs_BH K %s %s %s %s %s %s %s %s) (%s, %s)" % (
                clit(D[n]), clit(m), rlit(x), rlit(n), rlit(psi[n]), rlit(psi[n - 1]), clit(xi[n]), clit(xi[n - 1]),
                clit(out[0][n - 1]), clit(out[1][n - 1]))
            exprs.append(e)
            metas.append(dict(what="miescatlib.scatcoeffs", m=m, x=x, n=n, eps1=eps1, nstop=nstop,
                              impl=[out[0][n - 1], out[1][n - 1]]))
        if used and nstop >= 2:
            ctx.nontriv(("sc", k))
        if k < 2:
            ctx.sample(dict(stage="scatcoeffs", m=m, x=x, nstop=nstop, a1=out[0][0], b1=out[1][0]))
    report(ctx, "C02a", exprs, metas, lambda m: "corr:scatcoeffs")


def gen_layers(rng, xmax=40.0):
    L = rng.choice([1, 2, 2, 3, 3, 4])
    xL = gen_x(rng, 1e-2, xmax)
    fr = sorted(rng.uniform(0.15, 1.0) for _ in range(L - 1)) + [1.0]
    xs = [xL * f for f in fr]
    # keep interfaces apart
    for i in range(1, L):
        if xs[i] - xs[i - 1] < 0.02 * xL:
            xs[i] = xs[i - 1] + 0.02 * xL
    mode = rng.choice(["generic", "generic", "uniform", "adjacent-equal", "outer-medium"])
    ms = [gen_m(rng)[1] for _ in range(L)]
    if mode == "uniform":
        ms = [ms[0]] * L
    elif mode == "adjacent-equal" and L >= 2:
        j = rng.randrange(1, L)
        ms[j] = ms[j - 1]
    elif mode == "outer-medium" and L >= 2:
        ms[-1] = 1.0
    return mode, ms, xs


def stage_multi(ctx):
    import numpy as np
    from holopy.scattering.theory.mie_f import miescatlib, mie_specfuncs, multilayer_sphere_lib
    rng = ctx.subrng("multi")
    exprs, metas = [], []
    for k in range(ctx.n(45, 500)):
        mode, ms, xs = gen_layers(rng)
        L = len(ms)
        eps1 = 1e-2
        with np.errstate(all="ignore"):
            out = multilayer_sphere_lib.scatcoeffs_multi(ms, xs, eps1, 1e-16)
            nstop = miescatlib.nstop(max(xs))
            marr = np.array(ms, dtype="complex128")
            xarr = np.array(xs, dtype="float64")
            z0 = marr[0] * xarr[0]
            d1core = mie_specfuncs.log_der_13(z0, nstop, eps1, 1e-16)[0]
            leaves, zs = [], []
            for lay in range(1, L):
                z1 = marr[lay] * xarr[lay - 1]
                z2 = marr[lay] * xarr[lay]
                d1 = mie_specfuncs.log_der_13(z1, nstop, eps1, 1e-16)
                d2 = mie_specfuncs.log_der_13(z2, nstop, eps1, 1e-16)
                q = mie_specfuncs.Qratio(z1, z2, nstop, dns1=d1, dns2=d2, eps1=eps1, eps2=1e-16)
                leaves.append((d1, d2, q))
                zs.append((z1, z2))
            psi, xi = mie_specfuncs.riccati_psi_xi(xarr.max(), nstop)
        if not finite(out, d1core, psi, xi, *[a for lf in leaves for a in (lf[0][0], lf[0][1], lf[1][0], lf[1][1], lf[2])]):
            ctx.count("multi:excluded-nonfinite")
            continue
        ctx.count("multi:layers=%d" % L)
        ctx.count("multi:mode=" + mode)
        lay_lit = listlit(["(%s, %s)" % (clit(m), rlit(x)) for m, x in zip(ms, xs)])
        e_args = "(let '(z0, zs) := yang_args K %s in cclose QF tolz fl z0 %s && args_close QF tolz fl zs %s)" % (
            lay_lit, clit(z0), listlit(["(%s, %s)" % (clit(a), clit(b)) for a, b in zs]))
        exprs.append(e_args)
        metas.append(dict(what="scatcoeffs_multi special-function arguments", ms=ms, xs=xs, z0=z0, zs=zs))
        used = 0
        for n in sample_orders(rng, nstop, 4):
            # conditioning of the subtractions of the recursion, on the implementation's values (Python replay)
            ha = hb = d1core[n]
            cs = 1.0
            for lay in range(1, L):
                d1, d2, q = leaves[lay - 1]
                ml, mp = marr[lay], marr[lay - 1]
                G1, G2 = ml * ha - mp * d1[0][n], ml * ha - mp * d1[1][n]
                Gt1, Gt2 = mp * hb - ml * d1[0][n], mp * hb - ml * d1[1][n]
                cs = max(cs, cond(G2, q[n] * G1), cond(Gt2, q[n] * Gt1),
                         cond(G2 * d2[0][n], q[n] * G1 * d2[1][n]), cond(Gt2 * d2[0][n], q[n] * Gt1 * d2[1][n]),
                         cond(ml * ha, mp * d1[1][n]), cond(mp * hb, ml * d1[1][n]))
                if G2 - q[n] * G1 == 0 or Gt2 - q[n] * Gt1 == 0:
                    cs = float("inf")
                    break
                ha, hb = ((G2 * d2[0][n] - q[n] * G1 * d2[1][n]) / (G2 - q[n] * G1),
                          (Gt2 * d2[0][n] - q[n] * Gt1 * d2[1][n]) / (Gt2 - q[n] * Gt1))
            if cs < float("inf"):
                A = ha / marr[-1] + n / xarr[-1]
                B = hb * marr[-1] + n / xarr[-1]
                cs = max(cs, cond(A * psi[n], psi[n - 1]), cond(A * xi[n], xi[n - 1]),
                         cond(B * psi[n], psi[n - 1]), cond(B * xi[n], xi[n - 1]))
            if not (cs <= COND_MAX):
                ctx.count("multi:excluded-illconditioned-order")
                continue
            used += 1
            lf_lit = listlit(["(%s, (%s, %s, %s, %s, %s))" % (
                clit(marr[lay]), clit(leaves[lay - 1][0][0][n]), clit(leaves[lay - 1][0][1][n]),
                clit(leaves[lay - 1][1][0][n]), clit(leaves[lay - 1][1][1][n]), clit(leaves[lay - 1][2][n]))
                for lay in range(1, L)])
            e = "pclose QF tol fl (scatcoeffs_multi_vals K %s %s %s %s %s %s %s %s %s %s) (%s, %s)" % (
                clit(marr[0]), clit(d1core[n]), lf_lit, clit(marr[-1]), rlit(xarr[-1]), rlit(n),
                rlit(psi[n]), rlit(psi[n - 1]), clit(xi[n]), clit(xi[n - 1]), clit(out[0][n - 1]), clit(out[1][n - 1]))
            exprs.append(e)
            metas.append(dict(what="scatcoeffs_multi", mode=mode, ms=ms, xs=xs, n=n,
                              impl=[out[0][n - 1], out[1][n - 1]]))
        if used and L >= 2:
            ctx.nontriv(("multi", k))
        if k < 2:
            ctx.sample(dict(stage="multi", mode=mode, ms=ms, xs=xs, a1=out[0][0], b1=out[1][0]))
    report(ctx, "C02b", exprs, metas,
           lambda m: "corr:scatcoeffs_multi" + (":args" if "arguments" in m["what"] else ""))


def stage_albl(ctx):
    import numpy as np
    from scipy.special import spherical_jn, spherical_yn
    from holopy.scattering.theory.mielensfunctions import AlBlFunctions
    rng = ctx.subrng("albl")
    exprs, metas = [], []
    for k in range(ctx.n(80, 1000)):
        kind, m = gen_m(rng)
        x = gen_x(rng, 1e-2, 60.0)
        if abs(complex(m).imag) * x > 30:
            ctx.count("albl:excluded-overflow-range")
            continue
        nmax = int(round(x + 4.05 * x ** (1 / 3.) + 2))
        l = rng.randint(1, max(1, nmax))
        with np.errstate(all="ignore"):
            a, b = AlBlFunctions.calculate_al_bl(m, x, l)
            z = m * x
            jmx, djmx = spherical_jn(l, z), spherical_jn(l, z, derivative=True)
            jx, djx = spherical_jn(l, x), spherical_jn(l, x, derivative=True)
            yx, dyx = spherical_yn(l, x), spherical_yn(l, x, derivative=True)
        if not finite(a, b, jmx, djmx, jx, djx, yx, dyx):
            ctx.count("albl:excluded-nonfinite")
            continue
        psi_nx, dpsi_nx = z * jmx, z * djmx + jmx
        psi_x, dpsi_x = x * jx, x * djx + jx
        h, dh = jx - 1j * yx, djx - 1j * dyx
        xi_x, dxi_x = x * h, x * dh + h
        cs = max(cond(dpsi_nx * psi_x, m * psi_nx * dpsi_x), cond(dpsi_nx * xi_x, m * psi_nx * dxi_x),
                 cond(m * dpsi_nx * psi_x, psi_nx * dpsi_x), cond(m * dpsi_nx * xi_x, psi_nx * dxi_x),
                 cond(z * djmx, -jmx), cond(x * djx, -jx), cond(x * dh, -h))
        if cs > COND_MAX:
            ctx.count("albl:excluded-illconditioned")
            continue
        ctx.count("albl:" + kind)
        ctx.nontriv(("albl", k))
        e = ("(let r := albl_leaves QF %s %s %s %s %s %s %s %s in pclose QF tol fl (fst r) (%s, %s) && "
             "cclose QF tolz fl (snd r) %s)") % (clit(m), rlit(x), clit(jmx), clit(djmx), rlit(jx), rlit(djx),
                                                 rlit(yx), rlit(dyx), clit(a), clit(b), clit(z))
        exprs.append(e)
        metas.append(dict(what="AlBlFunctions.calculate_al_bl", m=m, x=x, l=l, impl=[a, b]))
    report(ctx, "C02c", exprs, metas, lambda m: "corr:albl")


def dy(rng, lo, hi, bits=6):
    s = 1 << bits
    return rng.randint(int(lo * s), int(hi * s)) / s


def stage_layered_r(ctx):
    import numpy as np
    from holopy.scattering import LayeredSphere
    rng = ctx.subrng("layered_r")
    exprs, metas = [], []
    for k in range(ctx.n(60, 600)):
        L = rng.choice([1, 2, 3, 4, 5])
        ts = [dy(rng, 0.015625, 2.0) for _ in range(L)]
        s = LayeredSphere(n=[1.4 + 0.0625 * i for i in range(L)], t=ts, center=(0, 0, 0))
        r = [float(v) for v in s.r]
        e = "qlist_eqb (layered_r QO %s) %s && qlist_eqb (diffs QO %s) %s" % (
            listlit([qlit(t) for t in ts]), listlit([qlit(v) for v in r]),
            listlit([qlit(v) for v in r]), listlit([qlit(t) for t in ts]))
        exprs.append(e)
        metas.append(dict(what="LayeredSphere.r", t=ts, impl=r))
        ctx.count("layered_r:layers=%d" % L)
        if L >= 2:
            ctx.nontriv(("lr", tuple(ts)))
    report(ctx, "C02d", exprs, metas, lambda m: "corr:layered_r")


def _coeffs(rng, xmax):
    from holopy.scattering.theory.mie_f import miescatlib
    kind, m = gen_m(rng)
    x = gen_x(rng, 1e-2, xmax)
    nstop = miescatlib.nstop(x)
    return m, x, nstop, miescatlib.scatcoeffs(m, x, nstop, 1e-2, 1e-16)


def ablit(co):
    return listlit(["(%s, %s)" % (clit(co[0][i]), clit(co[1][i])) for i in range(co.shape[1])])


def matlit(M):
    return "((%s, %s), (%s, %s))" % (clit(M[0][0]), clit(M[0][1]), clit(M[1][0]), clit(M[1][1]))


def gen_theta(rng):
    return rng.choice([0.0, math.pi, math.pi / 2, rng.uniform(0, math.pi), rng.uniform(0, math.pi),
                       rng.uniform(0, 0.2), rng.uniform(2.9, math.pi)])


def stage_asm(ctx):
    import numpy as np
    from holopy.scattering.theory.mie_f import mieangfuncs, uts_scsmfo
    from holopy.scattering.theory import multisphere
    from holopy.scattering.theory.mielensfunctions import MieScatteringMatrix, calculate_al_bl, calculate_pil_taul
    from holopy.scattering import Sphere
    rng = ctx.subrng("asm")
    exprs, metas = [], []
    for k in range(ctx.n(30, 300)):
        m, x, nstop, co = _coeffs(rng, 40.0)
        if not finite(co):
            continue
        theta = gen_theta(rng)
        M = mieangfuncs.asm_mie_far(co, theta)
        pis, taus = mieangfuncs.pisandtaus(nstop, theta)
        n = np.arange(1, nstop + 1)
        pre = (2. * n + 1) / (n * (n + 1.))
        scale = float(np.sum(pre * (np.abs(co[0]) + np.abs(co[1])) * (np.abs(pis) + np.abs(taus))))
        # NOTE the Fortran computes prefactor = (2.*n + 1.) / (n * (n + 1.)) with default-kind (single precision)
        # literals, so each term carries a ~6e-8 relative error; the model uses the exact prefactor, hence 1e-6 here
        e = "mclose QF (1 # 1000000) %s (asm_far K %s %s) %s" % (
            qlit(scale), ablit(co), listlit(["(%s, %s)" % (rlit(p), rlit(t)) for p, t in zip(pis, taus)]), matlit(M))
        exprs.append(e)
        metas.append(dict(what="asm_mie_far", m=m, x=x, theta=theta, impl=M))
        ctx.count("asm:asm_mie_far")
        if nstop >= 2 and 0 < theta < math.pi:
            ctx.nontriv(("asm", k))
    # multisphere._asm_far packing (np.roll / reshape / -0.5) on the solver's own 4-vector
    k_wave = 2 * math.pi * NMED / WL
    for k in range(ctx.n(12, 120)):
        kind, m = gen_m(rng)
        x = gen_x(rng, 0.05, 8.0)
        th = multisphere.Multisphere()
        try:
            amn, lmax = th._scsmfo_setup(Sphere(n=m * NMED, r=x / k_wave, center=(0, 0, 0)), k_wave, NMED)
        except Exception as e:  # noqa
            ctx.count("asm:multisphere-setup-failed:" + type(e).__name__)
            continue
        theta, phi = gen_theta(rng), rng.uniform(0, 2 * math.pi)
        sa = uts_scsmfo.asm(amn, lmax, theta, phi)
        M = multisphere._asm_far(theta, phi, amn, lmax)
        e = "mclose QF (1 # 100000000000000) fl (tm_pack K %s) %s" % (listlit([clit(v) for v in sa]), matlit(M))
        exprs.append(e)
        metas.append(dict(what="multisphere._asm_far", m=m, x=x, theta=theta, phi=phi, leaf=list(sa), impl=M))
        ctx.count("asm:_asm_far")
        ctx.nontriv(("asmfar", k))
    # MieScatteringMatrix._eval sums on the lens code's own coefficients and angular functions
    for k in range(ctx.n(16, 160)):
        kind, m = gen_m(rng, rng.choice(["real>1", "real<1"]))
        x = gen_x(rng, 0.05, 30.0)
        par = rng.choice(["perpendicular", "parallel"])
        msm = MieScatteringMatrix(par, index_ratio=m, size_parameter=x)
        theta = gen_theta(rng)
        with np.errstate(all="ignore"):
            val = complex(msm(np.array([theta]))[0])
            ab = []
            for l in range(1, msm.max_l + 1):
                a, b = calculate_al_bl(m, x, l)
                if np.isnan(a) or np.isnan(b):
                    break
                ab.append((complex(a), complex(b)))
        pil, taul = calculate_pil_taul(theta, len(ab))
        n = np.arange(1, len(ab) + 1)
        pre = (2. * n + 1) / (n * (n + 1.))
        scale = float(np.sum(pre * np.array([abs(a) + abs(b) for a, b in ab]) * (np.abs(pil[0]) + np.abs(taul[0]))))
        fn = "mls_perp" if par == "perpendicular" else "mls_par"
        e = "cclose QF tol %s (%s K 1 %s %s) %s" % (
            qlit(scale), fn, listlit(["(%s, %s)" % (clit(a), clit(b)) for a, b in ab]),
            listlit(["(%s, %s)" % (rlit(p), rlit(t)) for p, t in zip(pil[0], taul[0])]), clit(val))
        exprs.append(e)
        metas.append(dict(what="MieScatteringMatrix._eval", which=par, m=m, x=x, theta=theta, impl=val))
        ctx.count("asm:mielens-" + par)
        ctx.nontriv(("mls", k))
    report(ctx, "C02e", exprs, metas, lambda m: "corr:" + m["what"].split(".")[-1])


def stage_fields(ctx):
    import numpy as np
    from holopy.scattering.theory.mie_f import mieangfuncs
    from holopy.scattering.theory import multisphere
    from holopy.scattering import Sphere
    rng = ctx.subrng("fields")
    exprs, metas = [], []

    def trig(theta, phi):
        return [rlit(math.cos(theta)), rlit(math.sin(theta)), rlit(math.cos(phi)), rlit(math.sin(phi))]

    def gen_pol():
        if rng.random() < 0.3:
            return rng.choice([(1.0, 0.0), (0.0, 1.0)])
        a = rng.uniform(0, 2 * math.pi)
        return (math.cos(a), math.sin(a))

    for k in range(ctx.n(20, 250)):
        m, x, nstop, co = _coeffs(rng, 25.0)
        if not finite(co):
            continue
        pol = gen_pol()
        rad, rad_dep = rng.random() < 0.5, rng.random() < 0.5
        pts = [(x * rng.uniform(1.2, 3) if rng.random() < 0.4 else rng.uniform(max(5.0, 1.5 * x), 300.0),
                gen_theta(rng), rng.uniform(0, 2 * math.pi)) for _ in range(3)]
        P = np.array(pts).T
        ex, ey, ez = mieangfuncs.mie_fields(P, co, np.array(pol), rad, rad_dep)
        ctx.count("fields:mie rad=%s rad_dep=%s" % (rad, rad_dep))
        for i, (kr, theta, phi) in enumerate(pts):
            Mfar = mieangfuncs.asm_mie_far(co, theta)
            Mfull = mieangfuncs.asm_mie_fullradial(co, np.array([kr, theta, phi]))
            erad = mieangfuncs.radial_field_mie(co[0:1], kr, theta)
            pf = 1j / kr * cmath.exp(1j * kr)
            E = (complex(ex[i]), complex(ey[i]), complex(ez[i]))
            if not finite(Mfar, Mfull, erad, E):
                ctx.count("fields:excluded-nonfinite")
                continue
            scale = max(abs(v) for v in E) + abs(pf) * float(np.max(np.abs(Mfull if rad_dep else Mfar)))
            e = "v3close QF tol %s (mie_field_pt K %s %s %s %s %s %s %s %s %s) (%s, %s, %s)" % (
                qlit(scale), blit(rad), blit(rad_dep), matlit(Mfar), matlit(Mfull), clit(erad), clit(pf),
                rlit(pol[0]), rlit(pol[1]), " ".join(trig(theta, phi)), clit(E[0]), clit(E[1]), clit(E[2]))
            exprs.append(e)
            metas.append(dict(what="mie_fields", m=m, x=x, pol=pol, rad=rad, rad_dep=rad_dep, point=[kr, theta, phi],
                              impl=list(E)))
            ctx.nontriv(("mf", k, i))
    k_wave = 2 * math.pi * NMED / WL
    for k in range(ctx.n(12, 120)):
        kind, m = gen_m(rng)
        x = gen_x(rng, 0.05, 8.0)
        sph = Sphere(n=m * NMED, r=x / k_wave, center=(0, 0, 0))
        try:
            amn, lmax = multisphere.Multisphere()._scsmfo_setup(sph, k_wave, NMED)
        except Exception as e:  # noqa
            ctx.count("fields:multisphere-setup-failed:" + type(e).__name__)
            continue
        pol = gen_pol()
        rad = rng.random() < 0.5
        pts = [(rng.uniform(max(5.0, 1.5 * x), 200.0), gen_theta(rng), rng.uniform(0, 2 * math.pi)) for _ in range(2)]
        P = np.array(pts).T
        ex, ey, ez = mieangfuncs.tmatrix_fields(P, amn, lmax, 0., np.array(pol), rad)
        ctx.count("fields:tmatrix_fields rad=%s" % rad)
        for i, (kr, theta, phi) in enumerate(pts):
            sa = mieangfuncs.asmfr(amn, lmax, theta, phi, kr)
            ra = mieangfuncs.ms_radial_fields(amn, lmax, theta, phi, kr)
            pf = 1j / kr * cmath.exp(1j * kr)
            E = (complex(ex[i]), complex(ey[i]), complex(ez[i]))
            if not finite(sa, ra, E):
                ctx.count("fields:excluded-nonfinite")
                continue
            scale = max(abs(v) for v in E) + abs(pf) * float(np.max(np.abs(sa)))
            e = "v3close QF tol %s (tm_field_pt K %s %s (%s, %s) %s %s %s %s) (%s, %s, %s)" % (
                qlit(scale), blit(rad), listlit([clit(v) for v in sa]), clit(ra[0]), clit(ra[1]), clit(pf),
                rlit(pol[0]), rlit(pol[1]), " ".join(trig(theta, phi)), clit(E[0]), clit(E[1]), clit(E[2]))
            exprs.append(e)
            metas.append(dict(what="tmatrix_fields", m=m, x=x, pol=pol, rad=rad, point=[kr, theta, phi], impl=list(E)))
            ctx.nontriv(("tf", k, i))
    report(ctx, "C02f", exprs, metas, lambda m: "corr:" + m["what"].split(".")[-1])


# ------------------------------------------------------------------------------------------------
# exploration: the quantitative core (NOT a proof)

def textbook_ab(m, x, nmax):
    """B&H eq. 4.53 (ratio form with derivatives), scipy spherical Bessel functions, h1 convention"""
    import numpy as np
    from scipy.special import spherical_jn, spherical_yn
    n = np.arange(1, nmax + 1)
    z = m * x
    jx, djx = spherical_jn(n, x), spherical_jn(n, x, True)
    yx, dyx = spherical_yn(n, x), spherical_yn(n, x, True)
    jz, djz = spherical_jn(n, z), spherical_jn(n, z, True)
    psix, dpsix = x * jx, x * djx + jx
    hx, dhx = jx + 1j * yx, djx + 1j * dyx
    xix, dxix = x * hx, x * dhx + hx
    psiz, dpsiz = z * jz, z * djz + jz
    a = (m * psiz * dpsix - psix * dpsiz) / (m * psiz * dxix - xix * dpsiz)
    b = (psiz * dpsix - m * psix * dpsiz) / (psiz * dxix - m * xix * dpsiz)
    return a, b


def textbook_S(m, x, thetas):
    """S1, S2 (B&H 4.74) with pi/tau by upward recurrence; returns array (len(thetas), 2) = (S1, S2)"""
    import numpy as np
    nmax = int(math.ceil(x + 4.05 * x ** (1 / 3.) + 2)) + 3
    with np.errstate(all="ignore"):
        a, b = textbook_ab(m, x, nmax)
    ok = np.isfinite(a) & np.isfinite(b)
    if not ok.all():           # y_n overflow at tiny x / high order: those terms are below 1e-300
        first_bad = int(np.argmin(ok))
        a, b = a[:first_bad], b[:first_bad]
        nmax = first_bad
    n = np.arange(1, nmax + 1)
    c = (2 * n + 1) / (n * (n + 1))
    out = []
    for th in thetas:
        mu = math.cos(th)
        pi = np.zeros(nmax + 1)
        tau = np.zeros(nmax + 1)
        pi[1] = 1
        tau[1] = mu
        for q in range(2, nmax + 1):
            pi[q] = (2 * q - 1) / (q - 1) * mu * pi[q - 1] - q / (q - 1) * pi[q - 2]
            tau[q] = q * mu * pi[q] - (q + 1) * pi[q - 1]
        out.append((np.sum(c * (a * pi[1:] + b * tau[1:])), np.sum(c * (a * tau[1:] + b * pi[1:]))))
    return np.array(out)


def smatrix_case(m, x, thetas, phi):
    """returns dict of relative deviations (to max |S|) between solvers for one sphere"""
    import numpy as np
    from holopy.core import detector_points
    from holopy.scattering import Sphere, calc_scat_matrix, Mie, Multisphere
    from holopy.scattering.theory.mielensfunctions import MieScatteringMatrix
    k = 2 * math.pi * NMED / WL
    det = detector_points(theta=np.array(thetas), phi=np.full(len(thetas), phi))
    sph = Sphere(n=m * NMED, r=x / k, center=(0, 0, 0))
    Sm = calc_scat_matrix(det, sph, NMED, WL, theory=Mie()).values          # [[S2,S3],[S4,S1]]
    ref = textbook_S(m, x, thetas)
    sc = float(np.max(np.abs(ref)))
    res = {"scale": sc}
    mie = np.array([[Sm[i, 1, 1], Sm[i, 0, 0]] for i in range(len(thetas))])
    res["mie-textbook"] = float(np.max(np.abs(mie - ref)) / sc)
    res["mie-offdiag"] = float(max(np.max(np.abs(Sm[:, 0, 1])), np.max(np.abs(Sm[:, 1, 0]))) / sc)
    if isinstance(m, complex):
        mc = m.conjugate()
    else:
        mc = m
    with np.errstate(all="ignore"):
        # the same sphere first asked for with a deliberately short series (explicit max_l), then with the default order:
        # the second answer must not depend on the first
        for par in ("perpendicular", "parallel"):
            MieScatteringMatrix(par, index_ratio=mc, size_parameter=x, max_l=2)(np.array(thetas[:2]))
        lens1 = np.conj(MieScatteringMatrix("perpendicular", index_ratio=mc, size_parameter=x)(np.array(thetas)))
        lens2 = np.conj(MieScatteringMatrix("parallel", index_ratio=mc, size_parameter=x)(np.array(thetas)))
    res["lens-textbook"] = float(max(np.max(np.abs(lens1 - ref[:, 0])), np.max(np.abs(lens2 - ref[:, 1]))) / sc)
    if x <= X_MULTI_MAX:
        Ss = calc_scat_matrix(det, sph, NMED, WL, theory=Multisphere()).values
        res["multisphere-mie"] = float(np.max(np.abs(Ss - Sm)) / sc)
        Ss = calc_scat_matrix(det, sph, NMED, WL, theory=Multisphere(qeps1=1e-12, qeps2=1e-15, eps=1e-10)).values
        res["multisphere_tight-mie"] = float(np.max(np.abs(Ss - Sm)) / sc)
    return res


def stage_media_series(ctx):
    """the same particle (absolute index, radius) in a series of media, the wavelength chosen so that k*r is bit-identical
    (lambda = n_medium * lambda_0), one after the other in one process: in each medium the Lorenz-Mie matrix has to equal the
    textbook series for ITS relative index, and (x <= 14) the one-sphere cluster theory"""
    import numpy as np
    from holopy.core import detector_points
    from holopy.scattering import Sphere, calc_scat_matrix, Mie, Multisphere
    rng = ctx.subrng("media")
    for kcase in range(ctx.n(5, 40)):
        lam0 = rng.choice([0.5, 0.4, 0.66])
        x = gen_x(rng, 0.05, 12.0)
        n = complex(rng.uniform(1.55, 2.2), rng.choice([0.0, 0.0, rng.uniform(0.001, 0.1)]))
        r = x * lam0 / (2 * math.pi)
        thetas = [0.0, math.pi] + [rng.uniform(0, math.pi) for _ in range(4)]
        det = detector_points(theta=np.array(thetas), phi=np.full(len(thetas), 0.3))
        media = [1.0, 1.25, 1.5, 1.0]
        if rng.random() < 0.5:
            media = media[::-1]
        for nm in media:
            wl = nm * lam0
            sph = Sphere(n=(n if n.imag else n.real), r=r, center=(0, 0, 0))
            Sm = calc_scat_matrix(det, sph, nm, wl, theory=Mie()).values
            m = n / nm
            ref = textbook_S(m if m.imag else m.real, x, thetas)
            sc = float(np.max(np.abs(ref)))
            mie = np.array([[Sm[i, 1, 1], Sm[i, 0, 0]] for i in range(len(thetas))])
            d = float(np.max(np.abs(mie - ref)) / sc)
            ctx.explored += 1
            ctx.count("media-series")
            ctx.nontriv(("media", kcase, nm))
            meta = dict(kind="media", n=n, r=r, nm=nm, wl=wl, x=x, series=media, thetas=thetas)
            if not d <= TOL_TEXTBOOK:
                ctx.violation("x-smatrix:mie-textbook:media-series", "Lorenz-Mie differs from the textbook series (%.3g) for a sphere computed "
                              "after the same sphere in another medium at the same size parameter" % d, dict(meta, deviation=d))
            with warnings.catch_warnings():
                warnings.simplefilter("ignore")
                Ss = calc_scat_matrix(det, sph, nm, wl, theory=Multisphere(qeps1=1e-12, qeps2=1e-15, eps=1e-10)).values
            d2 = float(np.max(np.abs(Ss - Sm)) / sc)
            if not d2 <= TOL_MULTI_TIGHT:
                ctx.violation("x-smatrix:multisphere_tight-mie:media-series", "Multisphere(one sphere) differs from Mie (%.3g) in a series of "
                              "media at the same size parameter" % d2, dict(meta, deviation=d2))


def stage_explore_smatrix(ctx):
    import numpy as np
    rng = ctx.subrng("x-smatrix")
    worst = {}
    for k in range(ctx.n(250, 2500)):
        kind, m = gen_m(rng)
        x = gen_x(rng, 1e-3, 100.0)
        if k % 12 == 5:
            # "round" inputs: the size parameter (or m*x) an exact multiple of pi / of pi/2, where sin or cos of it vanishes
            # (r = 0.5 at wavelength 0.5 in air gives x = 2 pi)
            x = math.pi * rng.choice([0.5, 1, 1, 2, 2, 3, 4, 1.5]) / (1.0 if k % 24 == 5 else (complex(m).real if not complex(m).imag else 1.0))
        if abs(complex(m).imag) * x > 25:
            ctx.count("x-smatrix:excluded-absorbing-overflow(scipy jn of large complex argument)")
            continue
        if x > X_MULTI_MAX:
            ctx.count("x-smatrix:multisphere-excluded(x>%g: nod=32 order cap)" % X_MULTI_MAX)
        thetas = [0.0, math.pi] + [rng.uniform(0, math.pi) for _ in range(4)]
        phi = rng.uniform(0, 2 * math.pi)
        try:
            res = smatrix_case(m, x, thetas, phi)
        except Exception as e:  # noqa
            ctx.violation("x-smatrix:raises:" + type(e).__name__, "a solver raised on a supported sphere: %s" % e,
                          dict(kind="smatrix", m=m, x=x, thetas=thetas, phi=phi, error=str(e)))
            continue
        ctx.explored += 1
        ctx.count("x-smatrix:" + kind)
        ctx.nontriv(("xs", k))
        for key, tol in (("mie-textbook", TOL_TEXTBOOK), ("lens-textbook", TOL_TEXTBOOK), ("mie-offdiag", 1e-12),
                         ("multisphere-mie", TOL_MULTI), ("multisphere_tight-mie", TOL_MULTI_TIGHT)):
            if key in res:
                worst[key] = max(worst.get(key, 0.0), res[key])
                if key == "multisphere-mie" and abs(complex(m)) * x > 20 and res.get("multisphere_tight-mie", 1.0) <= TOL_MULTI_TIGHT:
                    # optically large, high-index spheres sit on narrow resonances: the DEFAULT truncation tolerances
                    # (qeps1 = 1e-5) then cost up to a few per cent (thorough tier: 2.5e-2 at m = 2.41, x = 12.8) while the
                    # same solver with tight tolerances agrees to 1e-5; "solver accuracy" of the default setting is not 1e-2 there
                    tol = TOL_MULTI_RESONANT
                    ctx.count("x-smatrix:multisphere-default-tolerance:resonant-regime")
                if not (res[key] <= tol):
                    ctx.violation("x-smatrix:" + key, "amplitude scattering matrices differ: %s = %.3g > %g (m=%r, x=%g)"
                                  % (key, res[key], tol, m, x),
                                  dict(kind="smatrix", m=m, x=x, thetas=thetas, phi=phi, result=res, which=key))
    ctx.notes.append("worst S-matrix deviations (relative to max|S|): %r" % worst)


def textbook_field(m, x, center, pts_xyz, pol):
    """B&H 4.74/4.75 far-field form with HoloPy's geometry: kz = k (c_z - z), phase exp(-i k c_z)"""
    import numpy as np
    k = 2 * math.pi * NMED / WL
    out = []
    for (X, Y, Z) in pts_xyz:
        dx, dy_, dz = k * (X - center[0]), k * (Y - center[1]), k * (center[2] - Z)
        kr = math.sqrt(dx * dx + dy_ * dy_ + dz * dz)
        theta = math.atan2(math.sqrt(dx * dx + dy_ * dy_), dz)
        phi = math.atan2(dy_, dx) % (2 * math.pi)
        S1, S2 = textbook_S(m, x, [theta])[0]
        pf = 1j / kr * cmath.exp(1j * kr)
        epar = pol[0] * math.cos(phi) + pol[1] * math.sin(phi)
        eperp = pol[0] * math.sin(phi) - pol[1] * math.cos(phi)
        et, ep = pf * S2 * epar, -pf * S1 * eperp
        ct, st, cp, sp = math.cos(theta), math.sin(theta), math.cos(phi), math.sin(phi)
        ph = cmath.exp(-1j * k * center[2])
        out.append((ph * (ct * cp * et - sp * ep), ph * (ct * sp * et + cp * ep), ph * (-st * et)))
    return np.array(out).T


def field_case(m, x, center, shape, spacing, pol):
    import numpy as np
    from holopy.core import detector_grid
    from holopy.scattering import Sphere, Spheres, Spheroid, calc_field, Mie, Multisphere, Tmatrix
    k = 2 * math.pi * NMED / WL
    det = detector_grid(shape=shape, spacing=spacing)
    sph = Sphere(n=m * NMED, r=x / k, center=center)

    def cf(theory, s=sph, p=pol):
        v = calc_field(det, s, NMED, WL, p, theory=theory)
        return v.values.reshape(3, -1)
    F = {"ff": cf(Mie(False, False)), "ft": cf(Mie(False, True)), "tt": cf(Mie(True, True)), "tf": cf(Mie(True, False))}
    sc = float(np.max(np.abs(F["tt"])))
    res = {"scale": sc}
    xs = np.arange(shape[0]) * spacing
    ys = np.arange(shape[1]) * spacing
    pts = [(a, b, 0.0) for a in xs for b in ys]
    res["mie_ff-textbook"] = float(np.max(np.abs(F["ff"] - textbook_field(m, x, center, pts, pol))) / sc)
    # the radial option only adds a radial vector: (tt - ft) and (tf - ff) must be parallel to r_hat
    rh = np.array([[p[0] - center[0], p[1] - center[1], center[2] - p[2]] for p in pts]).T
    rh = rh / np.sqrt((rh ** 2).sum(0))
    for a, b in (("tt", "ft"), ("tf", "ff")):
        d = F[a] - F[b]
        perp = d - rh * (rh * d).sum(0)
        res["radial-part-is-radial:" + a] = float(np.max(np.abs(perp)) / sc)
    if x <= X_MULTI_MAX:
        res["multisphere-mie_ft"] = float(np.max(np.abs(cf(Multisphere()) - F["ft"])) / sc)
        res["multisphere_rad-mie_tt"] = float(np.max(np.abs(cf(Multisphere(compute_escat_radial=True)) - F["tt"])) / sc)
        res["multisphere(Spheres[1])-mie_ft"] = float(
            np.max(np.abs(cf(Multisphere(), Spheres([sph])) - F["ft"])) / sc)
        res["multisphere_tight-mie_ft"] = float(
            np.max(np.abs(cf(Multisphere(qeps1=1e-12, qeps2=1e-15, eps=1e-10)) - F["ft"])) / sc)
    return res, F, det, sph


def field_tol(key):
    if key.startswith("multisphere_tight"):
        return TOL_MULTI_TIGHT
    if key.startswith("multisphere"):
        return TOL_MULTI
    if key.startswith("radial"):
        return 1e-10
    return TOL_TEXTBOOK


def stage_explore_fields(ctx):
    import numpy as np
    from holopy.scattering import calc_field, Spheroid, Tmatrix, Mie
    rng = ctx.subrng("x-fields")
    worst = {}
    k = 2 * math.pi * NMED / WL
    for kk in range(ctx.n(50, 500)):
        kind, m = gen_m(rng)
        x = gen_x(rng, 1e-2, 40.0)
        if abs(complex(m).imag) * x > 25:
            ctx.count("x-fields:excluded-absorbing-overflow")
            continue
        r = x / k
        near = rng.random() < 0.5
        center = (rng.uniform(0.5, 2.5), rng.uniform(0.5, 2.5),
                  r * rng.uniform(1.3, 3.0) + (0.0 if near else rng.uniform(5, 30)))
        a = rng.uniform(0, 2 * math.pi)
        pol = rng.choice([(1.0, 0.0), (0.0, 1.0), (math.cos(a), math.sin(a))])
        shape, spacing = (4, 4), rng.uniform(0.3, 1.0)
        try:
            res, F, det, sph = field_case(m, x, center, shape, spacing, pol)
        except Exception as e:  # noqa
            ctx.violation("x-fields:raises:" + type(e).__name__, "a solver raised on a supported sphere: %s" % e,
                          dict(kind="field", m=m, x=x, center=center, pol=pol, spacing=spacing, error=str(e)))
            continue
        ctx.explored += 1
        ctx.count("x-fields:" + kind + (":near" if near else ":far"))
        ctx.nontriv(("xf", kk))
        for key, val in res.items():
            if key == "scale":
                continue
            tol = field_tol(key)
            worst[key] = max(worst.get(key, 0.0), val)
            if not (val <= tol):
                ctx.violation("x-fields:" + key.split("(")[0], "scattered fields differ: %s = %.3g > %g (m=%r, x=%g)"
                              % (key, val, tol, m, x),
                              dict(kind="field", m=m, x=x, center=center, pol=pol, spacing=spacing, result=res, which=key))
        # T-matrix code on a sphere (and on a spheroid with equal axes) against the far-field Mie solution
        if x <= 8 and pol == (1.0, 0.0) and isinstance(m, float):
            sc = res["scale"]
            for tag, scat in (("sphere", sph), ("spheroid", Spheroid(n=m * NMED, r=(r, r), center=center))):
                try:
                    ft = calc_field(det, scat, NMED, WL, pol, theory=Tmatrix()).values.reshape(3, -1)
                except Exception as e:  # noqa
                    ctx.count("x-fields:tmatrix-failed:" + type(e).__name__)
                    continue
                dev = float(np.max(np.abs(ft - F["ff"])) / sc)
                ctx.explored += 1
                ctx.count("x-fields:tmatrix-" + tag)
                worst["tmatrix-" + tag] = max(worst.get("tmatrix-" + tag, 0.0), dev)
                if not (dev <= TOL_TMAT):
                    ctx.violation("x-fields:tmatrix-vs-mie",
                                  "Tmatrix field of a %s differs from Mie(False, False): %.3g > %g (m=%r, x=%g)"
                                  % (tag, dev, TOL_TMAT, m, x),
                                  dict(kind="tmatrix-field", m=m, x=x, center=center, pol=pol, spacing=spacing,
                                       scatterer=tag, deviation=dev))
    ctx.notes.append("worst field deviations (relative to max|E|): %r" % worst)


def layered_case(ms, xs, variant_ms, variant_xs, thetas, near_pt):
    """compare two (layered) spheres through the public API: S matrix and one near-field point"""
    import numpy as np
    from holopy.core import detector_points
    from holopy.scattering import Sphere, calc_scat_matrix, calc_field, Mie
    k = 2 * math.pi * NMED / WL

    def mk(ms_, xs_):
        if len(ms_) == 1:
            return Sphere(n=ms_[0] * NMED, r=xs_[0] / k, center=(0, 0, 0))
        return Sphere(n=[mm * NMED for mm in ms_], r=[xx / k for xx in xs_], center=(0, 0, 0))
    det = detector_points(theta=np.array(thetas), phi=np.full(len(thetas), 0.3))
    A = calc_scat_matrix(det, mk(ms, xs), NMED, WL, theory=Mie()).values
    B = calc_scat_matrix(det, mk(variant_ms, variant_xs), NMED, WL, theory=Mie()).values
    sc = float(np.max(np.abs(B)))
    dev = float(np.max(np.abs(A - B)) / sc)
    r_out = xs[-1] / k
    dp = detector_points(x=np.array([near_pt[0] * r_out]), y=np.array([near_pt[1] * r_out]),
                         z=np.array([near_pt[2] * r_out]))
    fa = calc_field(dp, mk(ms, xs), NMED, WL, (1, 0), theory=Mie()).values
    fb = calc_field(dp, mk(variant_ms, variant_xs), NMED, WL, (1, 0), theory=Mie()).values
    devf = float(np.max(np.abs(fa - fb)) / max(float(np.max(np.abs(fb))), 1e-300))
    return dev, devf


def stage_explore_layered(ctx):
    import numpy as np
    from holopy.scattering import Sphere, LayeredSphere, calc_field, Mie
    from holopy.core import detector_grid
    rng = ctx.subrng("x-layered")
    worst = {}
    for kk in range(ctx.n(150, 1500)):
        L = rng.choice([2, 3, 4])
        xL = gen_x(rng, 1e-2, 40.0)
        fr = sorted(rng.uniform(0.2, 0.95) for _ in range(L - 1)) + [1.0]
        for i in range(1, L):
            if fr[i] - fr[i - 1] < 0.03:
                fr[i] = fr[i - 1] + 0.03
        fr = [f / fr[-1] for f in fr]
        xs = [xL * f for f in fr]
        mode = rng.choice(["uniform", "adjacent-equal", "outer-medium"])
        ms = [gen_m(rng)[1] for _ in range(L)]
        if max(abs(complex(mm).imag) for mm in ms) * xL > 25:
            ctx.count("x-layered:excluded-absorbing-overflow")
            continue
        if mode == "uniform":
            ms = [ms[0]] * L
            vms, vxs = [ms[0]], [xs[-1]]
        elif mode == "adjacent-equal":
            j = rng.randrange(1, L)
            ms[j] = ms[j - 1]
            vms, vxs = ms[:j - 1] + ms[j:], xs[:j - 1] + xs[j:]
        else:
            ms[-1] = 1.0
            vms, vxs = ms[:-1], xs[:-1]
        thetas = [0.0, math.pi, rng.uniform(0, math.pi), rng.uniform(0, math.pi)]
        near = (rng.uniform(1.0, 2.0), rng.uniform(0.5, 2.0), rng.uniform(1.2, 3.0))
        try:
            dev, devf = layered_case(ms, xs, vms, vxs, thetas, near)
        except Exception as e:  # noqa
            ctx.violation("x-layered:raises:" + type(e).__name__, "layered sphere raised: %s" % e,
                          dict(kind="layered", ms=ms, xs=xs, vms=vms, vxs=vxs, thetas=thetas, near=near, mode=mode,
                               error=str(e)))
            continue
        ctx.explored += 1
        ctx.count("x-layered:%s:L=%d" % (mode, L))
        ctx.nontriv(("xl", kk))
        worst[mode] = max(worst.get(mode, 0.0), dev, devf)
        tl = TOL_OUTER if mode == "outer-medium" else TOL_LAYER
        if not (dev <= tl and devf <= tl):
            ctx.violation("x-layered:" + mode, "layered sphere (%s) does not scatter like the simpler sphere: "
                          "S deviation %.3g, field deviation %.3g > %g" % (mode, dev, devf, tl),
                          dict(kind="layered", ms=ms, xs=xs, vms=vms, vxs=vxs, thetas=thetas, near=near, mode=mode,
                               dev=dev, devf=devf))
    # thickness description == radius description (same solver, same numbers)
    k = 2 * math.pi * NMED / WL
    for kk in range(ctx.n(10, 100)):
        L = rng.choice([1, 2, 3, 4])
        ts = [rng.uniform(0.05, 0.6) for _ in range(L)]
        ns = [gen_m(rng)[1] * NMED for _ in range(L)]
        rs = list(np.cumsum(ts))
        det = detector_grid(shape=(3, 3), spacing=0.7)
        c = (1.0, 1.2, rs[-1] * 2 + 3.0)
        a = calc_field(det, LayeredSphere(n=ns, t=ts, center=c), NMED, WL, (1, 0), theory=Mie()).values
        b = calc_field(det, Sphere(n=ns if L > 1 else ns[0], r=rs if L > 1 else rs[0], center=c), NMED, WL, (1, 0),
                       theory=Mie()).values
        dev = float(np.max(np.abs(a - b)) / np.max(np.abs(b)))
        ctx.explored += 1
        ctx.count("x-layered:thickness-vs-radius:L=%d" % L)
        worst["thickness-vs-radius"] = max(worst.get("thickness-vs-radius", 0.0), dev)
        if not (dev <= 1e-9):
            ctx.violation("x-layered:thickness-vs-radius", "LayeredSphere(t) and Sphere(r=cumsum(t)) scatter differently: %.3g" % dev,
                          dict(kind="layered-t", ts=ts, ns=ns, dev=dev))
    ctx.notes.append("worst layered-reduction deviations: %r" % worst)


# ------------------------------------------------------------------------------------------------

def run(ctx):
    ctx.rule = ("spheres: relative index real>1 / real<1 / absorbing (Im m 1e-4..1), size parameter log-uniform "
                "1e-3..100 (layered 1e-2..40, 1-4 layers incl. uniform / adjacent-equal / outer-medium patterns); "
                "non-trivial = case with nstop >= 2 whose sampled orders pass the conditioning filter (correspondence) "
                "or one sphere compared across >= 2 solvers (exploration)")
    ctx.clauses_proved = [
        "B&H log-derivative coefficient formula = van de Hulst ratio formula (all n, m, x; any field), incl. the "
        "time-convention (conjugation) map over C",
        "Yang recursion: equal layer indices collapse to the homogeneous sphere, for every number of layers",
        "Yang recursion: adjacent equal-index layers merge; outer layer of relative index 1 is invisible (oracle "
        "hypotheses D1=psi'/psi, D3=xi'/xi, Q ratio of ratios, D1<>D3)",
        "LayeredSphere thickness <-> outer-radius descriptions mutually inverse",
        "amplitude-matrix packing [[S2,0],[0,S1]]; lens-code sums = S1,S2; multi-sphere -1/2 cshift packing",
        "field assembly: B&H 4.75 components, transversality, radial part",
        "Q(i) instance = C instance for the coefficient formula; C is a field"]
    ctx.clauses_explored = [
        "numerical agreement of Mie vs independent textbook series vs lens-code series (1e-7 rel.)",
        "numerical agreement of Mie vs Multisphere(one sphere) for x <= 18 (1e-3 rel.; nod=32 limits larger spheres)",
        "T-matrix code on a sphere / equal-axes spheroid vs Mie far field",
        "layered reductions (uniform / merged / outer-medium) and thickness vs radius on the real solver (1e-7)",
        "accuracy of the special-function oracles (Lentz/downward D_n, psi, xi, D3, Q, scipy Bessel) is never proved"]
    ctx.trusted += [
        "oracle: mieangfuncs.lentz_dn1 + dn_1_down (D_n(mx)), mie_specfuncs.riccati_psi_xi / log_der_13 / Qratio",
        "oracle: scipy.special spherical_jn / spherical_yn / riccati_jn / riccati_yn",
        "oracle: mieangfuncs.pisandtaus, calculate_pil_taul, sbesjy-based radial sums (asm_mie_fullradial, "
        "radial_field_mie), uts_scsmfo asm / asmfr / ms_radial_fields, scsmfo_min.amncalc",
        "oracle: libm cos / sin / exp for angles and i/kr*exp(i kr)",
        "harness-side independent textbook Mie series (B&H 4.53, 4.74, 4.75) used as reference in the exploration"]
    guarded(ctx, "prove", ctx.prove)
    boot.boot()
    warnings.filterwarnings("ignore")
    import time
    times = {}
    for tag, fn in (("scatcoeffs", stage_scatcoeffs), ("multi", stage_multi), ("albl", stage_albl),
                    ("layered_r", stage_layered_r), ("asm", stage_asm), ("fields", stage_fields),
                    ("x-smatrix", stage_explore_smatrix), ("x-media-series", stage_media_series), ("x-fields", stage_explore_fields),
                    ("x-layered", stage_explore_layered)):
        if ONLY and tag not in ONLY:
            continue
        t0 = time.time()
        guarded(ctx, tag, fn, ctx)
        times[tag] = round(time.time() - t0, 1)
    ctx.notes.append("stage wall times (s): %r" % times)


def _cx(v):
    if isinstance(v, dict) and "re" in v:
        return complex(v["re"], v["im"]) if v["im"] != 0 else float(v["re"])
    return v


def replay(ctx, data):
    """re-run the stored failing case on the current tree"""
    boot.boot()
    warnings.filterwarnings("ignore")
    d = data["data"]
    kind = d.get("kind")
    if kind == "smatrix":
        res = smatrix_case(_cx(d["m"]), d["x"], d["thetas"], d["phi"])
        ctx.explored += 1
        print("replay:", res)
        key = d.get("which")
        tol = {"multisphere-mie": TOL_MULTI, "multisphere_tight-mie": TOL_MULTI_TIGHT, "mie-offdiag": 1e-12}.get(key, TOL_TEXTBOOK)
        if key == "multisphere-mie" and abs(complex(_cx(d["m"]))) * d["x"] > 20 and res.get("multisphere_tight-mie", 1.0) <= TOL_MULTI_TIGHT:
            tol = TOL_MULTI_RESONANT
        if key in res and not (res[key] <= tol):
            ctx.violation(data["key"], data["what"], d)
    elif kind == "field":
        res, _, _, _ = field_case(_cx(d["m"]), d["x"], tuple(d["center"]), (4, 4), d["spacing"], tuple(d["pol"]))
        ctx.explored += 1
        print("replay:", res)
        key = d.get("which")
        tol = field_tol(key)
        if not (res.get(key, 0.0) <= tol):
            ctx.violation(data["key"], data["what"], d)
    elif kind == "tmatrix-field":
        import numpy as np
        from holopy.scattering import calc_field, Spheroid, Tmatrix
        m, x = _cx(d["m"]), d["x"]
        res, F, det, sph = field_case(m, x, tuple(d["center"]), (4, 4), d["spacing"], (1.0, 0.0))
        k = 2 * math.pi * NMED / WL
        scat = sph if d["scatterer"] == "sphere" else Spheroid(n=m * NMED, r=(x / k, x / k), center=tuple(d["center"]))
        ft = calc_field(det, scat, NMED, WL, (1.0, 0.0), theory=Tmatrix()).values.reshape(3, -1)
        dev = float(np.max(np.abs(ft - F["ff"])) / res["scale"])
        ctx.explored += 1
        print("replay: Tmatrix vs Mie(False, False) relative deviation %.3g" % dev)
        if not (dev <= TOL_TMAT):
            ctx.violation(data["key"], data["what"], d)
    elif kind == "layered":
        dev, devf = layered_case([_cx(v) for v in d["ms"]], d["xs"], [_cx(v) for v in d["vms"]], d["vxs"],
                                 d["thetas"], tuple(d["near"]))
        ctx.explored += 1
        print("replay: S deviation %.3g, field deviation %.3g" % (dev, devf))
        tl = TOL_OUTER if d.get("mode") == "outer-medium" else TOL_LAYER
        if not (dev <= tl and devf <= tl):
            ctx.violation(data["key"], data["what"], d)
    else:
        print("replay: re-running the whole check with the recorded seed")
        ctx.seed = data.get("seed", ctx.seed)
        run(ctx)

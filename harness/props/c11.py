"""C11 - model parameters <-> prior sites.

Proof obligations (coq/C11/Props.v) + exact correspondence of the Gallina model of
Mapper / read_map / edit_map_indices / Model.__init__ / add_tie / from_parameters with the real
HoloPy objects (names, parameter identities, the four maps, scatterer / theory / optics / scaling
rebuilt from integer value vectors given as list and as dict, initial guess, validate_scatterer,
ties) + direct exploration of the property on the implementation (independent python statement of
"every value at every site of its prior", rebuild identity / aliasing, rigid cluster)."""
import copy
import inspect
import itertools
import operator
import warnings
from fractions import Fraction

from harness.lib import boot
from harness.lib.coqrun import zlit, blit, listlit, strlit, run_mismatch_cases
from harness.lib.ctx import guarded

REQ = ("From HV Require Import C11.Model.\nOpen Scope string_scope.\nOpen Scope list_scope.\n"
       "Open Scope Z_scope.\n")

NAME_POOL = [None, None, None, None, None, None, "x", "x", "x_0", "x_1", "n", "r", "q", "center.0", "0:n", "alpha"]
LIN_COEFS = [1, 2, 3, 5, 7, 10, 100]


# ---------------------------------------------------------------------------------------------
# descriptions (plain python data, JSON-able):
#   value   ("c", v) v int|None|str|[re,im]   ("p", id)   ("list"|"tuple", [ch])   ("dict", [[key, ch]...])
#           ("xarr", dim, [[key, ch]...])   ("trans", fn, [ch], name)   ("cplx", re, im, name)
#   fn      ["add"] | ["mul"] | ["lin", c0, [cs]]
#   scat    ("leaf", cls, [[key, value]...]) | ("group", cls, [scat]) | ("rigid", scat, tr, rot)

class Lin:
    """affine transformation c0 + sum c_i x_i (a callable object, like a user-written function)"""

    def __init__(self, c0, cs):
        self.c0, self.cs = c0, list(cs)

    def __call__(self, *xs):
        assert len(xs) == len(self.cs)
        return self.c0 + sum(c * x for c, x in zip(self.cs, xs))

    def __deepcopy__(self, memo):      # like a python function: copied atomically
        return self

    def __eq__(self, other):
        return isinstance(other, Lin) and (self.c0, self.cs) == (other.c0, other.cs)

    def __hash__(self):
        return hash((self.c0, tuple(self.cs)))


class Gen:
    """prior pool: id -> (name, cls, guess); python objects are created once per id"""

    def __init__(self, rng):
        self.rng = rng
        self.info = []       # id -> dict(name, cls)
        self.scopes = {}     # scope tag -> ids created in that scope

    def new_prior(self, scope, cls=None, name="?"):
        rng = self.rng
        pid = len(self.info)
        if name == "?":
            name = rng.choice(NAME_POOL)
        if cls is None:
            cls = rng.choice([1, 2]) if rng.random() < 0.45 else 10 + pid
        self.info.append(dict(name=name, cls=cls))
        self.scopes.setdefault(scope, []).append(pid)
        return pid

    def pick(self, scope):
        # prior objects are re-used only within one scope ("scat": the scatterer; "other": theory, optics, alpha).
        # Scatterer.parameters is a deepcopy, so an object used both inside the scatterer and outside it reaches the
        # Mapper as two different objects (two parameters); the property speaks of sharing between places of the
        # scatterer, so such cross-use is not generated and the model's single id space is faithful.
        have = self.scopes.get(scope, [])
        if have and self.rng.random() < 0.4:
            return self.rng.choice(have)
        return self.new_prior(scope)


def guess_of(cls):
    return 3 + cls


def gen_fn(rng, k):
    if k == 2 and rng.random() < 0.5:
        return [rng.choice(["add", "mul"])]
    return ["lin", rng.randint(0, 9), rng.sample(LIN_COEFS, k)]


def gen_scalar(G, scope, depth=0, allow_cplx=False, pconst=0.35):
    rng = G.rng
    u = rng.random()
    if u < pconst:
        return ("c", rng.randint(1, 9))
    if u < 0.78 or depth >= 3:
        return ("p", G.pick(scope))
    if allow_cplx and u < 0.86:
        return ("cplx", gen_scalar(G, scope, 3), gen_scalar(G, scope, 3), rng.choice([None, None, "nc"]))
    k = rng.choice([1, 2, 2, 3])
    fn = gen_fn(rng, k)
    args = [gen_scalar(G, scope, depth + 1, pconst=0.4) for _ in range(k)]
    return ("trans", fn, args, rng.choice([None, None, None, "t", "x"]))


def gen_vec(G, scope, n, pconst=0.5):
    return (G.rng.choice(["list", "list", "tuple"]), [gen_scalar(G, scope, 1, pconst=pconst) for _ in range(n)])


def gen_sphere(G, scope="scat"):
    rng = G.rng
    u = rng.random()
    if u < 0.6:
        n = gen_scalar(G, scope, allow_cplx=True)
        r = gen_scalar(G, scope)
    elif u < 0.85:
        k = rng.choice([2, 2, 3])
        n = ("list", [gen_scalar(G, scope, 1, allow_cplx=True) for _ in range(k)])
        r = ("list", [gen_scalar(G, scope, 1) for _ in range(k)])
    else:
        n = ("dict", [["red", gen_scalar(G, scope, 1)], ["green", gen_scalar(G, scope, 1)]])
        r = gen_scalar(G, scope)
    return ("leaf", "Sphere", [["n", n], ["r", r], ["center", gen_vec(G, scope, 3)]])


def gen_other(G, scope="scat"):
    rng = G.rng
    cls = rng.choice(["Ellipsoid", "Cylinder", "Spheroid"])
    rot = gen_vec(G, scope, 3, pconst=0.8)
    cen = gen_vec(G, scope, 3)
    n = gen_scalar(G, scope)
    if cls == "Ellipsoid":
        return ("leaf", cls, [["n", n], ["r", gen_vec(G, scope, 3)], ["center", cen], ["rotation", rot]])
    if cls == "Cylinder":
        return ("leaf", cls, [["n", n], ["h", gen_scalar(G, scope)], ["d", gen_scalar(G, scope)],
                              ["center", cen], ["rotation", rot]])
    return ("leaf", cls, [["n", n], ["r", gen_vec(G, scope, 2)], ["rotation", rot], ["center", cen]])


def gen_scat(G, allow_rigid=False):
    rng = G.rng
    u = rng.random()
    if u < 0.35:
        return gen_sphere(G)
    if u < 0.45:
        return gen_other(G)
    if u < 0.78:
        return ("group", "Spheres", [gen_sphere(G) for _ in range(rng.choice([1, 2, 2, 3, 4]))])
    ms = []
    for _ in range(rng.choice([1, 2, 3])):
        v = rng.random()
        if v < 0.5:
            ms.append(gen_sphere(G))
        elif v < 0.7:
            ms.append(gen_other(G))
        elif v < 0.85:
            ms.append(("group", "Spheres", [gen_sphere(G) for _ in range(rng.choice([1, 2]))]))
        else:
            ms.append(("group", "Scatterers", [gen_sphere(G), gen_other(G)]))
    return ("group", "Scatterers", ms)


def gen_theory(G):
    rng = G.rng
    u = rng.random()
    if u < 0.55:
        return ("Mie", [])
    if u < 0.8:
        return ("MieLens", [["lens_angle", gen_scalar(G, "other", 1, pconst=0.2)]])
    sa = gen_scalar(G, "other", 1) if rng.random() < 0.5 else ("list", [gen_scalar(G, "other", 2) for _ in range(rng.choice([2, 3]))])
    return ("AberratedMieLens", [["lens_angle", gen_scalar(G, "other", 1)], ["spherical_aberration", sa]])


def gen_optics(G):
    rng = G.rng

    def opt(maker):
        return ("c", None) if rng.random() < 0.4 else maker()
    mi = opt(lambda: gen_scalar(G, "other", 1))
    wl = opt(lambda: rng.choice([
        lambda: gen_scalar(G, "other", 1),
        lambda: ("dict", [["red", gen_scalar(G, "other", 2)], ["green", gen_scalar(G, "other", 2)]]),
        lambda: ("xarr", "illumination", [["red", gen_scalar(G, "other", 3)], ["green", gen_scalar(G, "other", 3)]]),
    ])())
    pol = opt(lambda: ("list", [gen_scalar(G, "other", 2, pconst=0.6), gen_scalar(G, "other", 2, pconst=0.6)]))
    ns = opt(lambda: rng.choice([
        lambda: gen_scalar(G, "other", 1),
        lambda: ("list", [gen_scalar(G, "other", 2), gen_scalar(G, "other", 2)]),
        lambda: ("dict", [["red", gen_scalar(G, "other", 2)], ["green", gen_scalar(G, "other", 2)]]),
    ])())
    return [["medium_index", mi], ["illum_wavelen", wl], ["illum_polarization", pol], ["noise_sd", ns]]


def gen_case(rng, rigid=False):
    G = Gen(rng)
    if rigid:
        sp = ("group", "Spheres", [gen_sphere_simple(G) for _ in range(rng.choice([2, 3]))])
        scat = ("rigid", sp, gen_vec(G, "scat", 3, pconst=0.3), gen_vec(G, "scat", 3, pconst=0.3))
    else:
        scat = gen_scat(G)
    theory = gen_theory(G)
    optics = gen_optics(G)
    if rng.random() < 0.6:
        a = rng.random()
        alpha = (gen_scalar(G, "other", 1, pconst=0.3) if a < 0.8 else
                 ("dict", [["red", gen_scalar(G, "other", 2)], ["green", gen_scalar(G, "other", 2)]]))
        kind = "AlphaModel"
        modelp = [["alpha", alpha]]
    else:
        kind = "ExactModel"
        modelp = []
    return dict(scat=scat, theory=theory, optics=optics, kind=kind, modelp=modelp, priors=G.info)


def gen_shared_name_case(rng):
    """targeted stream for get_parameter_index's shared-name rule: one prior object at the same key of every
    member of a collection ("0:n", "1:n" -> "n"), with or without another prior explicitly named like that key
    (then the rename must NOT happen), registered before or after the second site"""
    G = Gen(rng)
    k = rng.choice([2, 2, 3])
    key = rng.choice(["n", "r"])
    other = "r" if key == "n" else "n"
    shared = G.new_prior("scat", name=rng.choice([None, None, None, "q"]))
    clash_at = rng.randrange(k) if rng.random() < 0.7 else None
    ms = []
    for i in range(k):
        pars = {"n": ("c", rng.randint(1, 9)), "r": ("c", rng.randint(1, 9))}
        pars[key] = ("p", shared)
        if clash_at == i:
            pars[other] = ("p", G.new_prior("scat", name=key))
        elif rng.random() < 0.3:
            pars[other] = ("p", G.pick("scat"))
        cz = ("p", shared) if rng.random() < 0.2 else ("c", rng.randint(0, 5))
        ms.append(("leaf", "Sphere", [["n", pars["n"]], ["r", pars["r"]], ["center", ("list", [("c", 3 * i), ("c", 0), cz])]]))
    scat = ("group", "Spheres" if rng.random() < 0.7 else "Scatterers", ms)
    optics = [["medium_index", ("c", None)], ["illum_wavelen", ("c", None)], ["illum_polarization", ("c", None)],
              ["noise_sd", ("c", None)]]
    if rng.random() < 0.5:
        return dict(scat=scat, theory=("Mie", []), optics=optics, kind="AlphaModel",
                    modelp=[["alpha", ("p", G.new_prior("other", name=rng.choice([None, key]))) if rng.random() < 0.3
                             else ("c", 1)]], priors=G.info)
    return dict(scat=scat, theory=("Mie", []), optics=optics, kind="ExactModel", modelp=[], priors=G.info)


def gen_sphere_simple(G):
    rng = G.rng
    return ("leaf", "Sphere", [["n", gen_scalar(G, "scat", 2)], ["r", gen_scalar(G, "scat", 2)],
                               ["center", ("list", [("c", rng.randint(-6, 6)) for _ in range(3)])]])


# ---------------------------------------------------------------------------------------------
# Coq literals

def nlit(i):
    return "%d%%nat" % i


def optstr(s):
    return "None" if s is None else "(Some %s)" % strlit(s)


def as_int(v):
    import numpy as np
    if isinstance(v, (bool, np.bool_)):
        raise ValueError("bool where a number was expected: %r" % (v,))
    fr = Fraction(v) if isinstance(v, int) else Fraction(*float(v).as_integer_ratio())
    if fr.denominator != 1:
        raise ValueError("non-integer value %r in an integer-valued case" % (v,))
    return int(fr)


def const_lit(v):
    if v is None:
        return "CNone"
    if isinstance(v, str):
        return "(CStr %s)" % strlit(v)
    if isinstance(v, complex):
        return "(CCplx %s %s)" % (zlit(as_int(v.real)), zlit(as_int(v.imag)))
    if isinstance(v, (list, tuple)) and len(v) == 2:   # description of a complex constant
        return "(CCplx %s %s)" % (zlit(v[0]), zlit(v[1]))
    return "(CNum %s)" % zlit(as_int(v))


def fn_lit(fn):
    if fn[0] == "add":
        return "FAdd"
    if fn[0] == "mul":
        return "FMul"
    if fn[0] == "cplx":
        return "FCplx"
    return "(FLin %s %s)" % (zlit(fn[1]), listlit([zlit(c) for c in fn[2]]))


def pv_lit(d):
    t = d[0]
    if t == "c":
        return "(PConst %s)" % const_lit(d[1])
    if t == "p":
        return "(PPrior %s)" % nlit(d[1])
    if t in ("list", "tuple"):
        return "(PNode KList %s)" % listlit([pv_lit(c) for c in d[1]])
    if t == "dict":
        return "(PNode (KDict %s) %s)" % (listlit([strlit(k) for k, _ in d[1]]), listlit([pv_lit(c) for _, c in d[1]]))
    if t == "xarr":
        return "(PNode (KXArr %s %s) %s)" % (strlit(d[1]), listlit([strlit(k) for k, _ in d[2]]),
                                             listlit([pv_lit(c) for _, c in d[2]]))
    if t == "trans":
        return "(PNode (KTrans %s %s) %s)" % (fn_lit(d[1]), optstr(d[3]), listlit([pv_lit(c) for c in d[2]]))
    if t == "cplx":
        return "(PNode (KCplx %s) [%s; %s])" % (optstr(d[3]), pv_lit(d[1]), pv_lit(d[2]))
    raise ValueError(d)


def scat_lit(d):
    if d[0] == "leaf":
        return "(SLeaf %s %s)" % (strlit(d[1]), listlit(["(%s, %s)" % (strlit(k), pv_lit(v)) for k, v in d[2]]))
    if d[0] == "group":
        return "(SGroup %s %s)" % (strlit(d[1]), listlit([scat_lit(m) for m in d[2]]))
    return "(SRigid %s %s %s)" % (scat_lit(d[1]), pv_lit(d[2]), pv_lit(d[3]))


def dict_lit(pairs):
    return pv_lit(("dict", pairs))


def fun_lit(items, default):
    return "(fun i : nat => nth i %s %s)" % (listlit(items), default)


def env_lits(priors):
    pn = fun_lit([optstr(p["name"]) for p in priors], "None")
    pg = fun_lit([zlit(guess_of(p["cls"])) for p in priors], "0")
    pc = fun_lit([zlit(p["cls"]) for p in priors], "0")
    return pn, pg, pc


def model_lit(case):
    pn, _, _ = env_lits(case["priors"])
    return "(model_init %s %s %s %s %s)" % (pn, scat_lit(case["scat"]), dict_lit(case["theory"][1]),
                                            dict_lit(case["optics"]), dict_lit(case["modelp"]))


# ---------------------------------------------------------------------------------------------
# real objects

def build_priors(priors):
    from holopy.core.prior import Uniform, Gaussian
    objs = []
    for i, p in enumerate(priors):
        g = guess_of(p["cls"])
        if p["cls"] % 2 == 0:
            o = Uniform(0, 1000 + p["cls"], guess=g, name=p["name"])
        else:
            o = Gaussian(g, 1 + p["cls"], name=p["name"])
        o._vid = i        # survives deepcopy, invisible to _dict / ==
        objs.append(o)
    return objs


def build_fn(fn):
    if fn[0] == "add":
        return operator.add
    if fn[0] == "mul":
        return operator.mul
    return Lin(fn[1], fn[2])


def build_pv(d, P):
    import numpy as np
    import xarray as xr
    from holopy.core.prior import TransformedPrior, ComplexPrior
    t = d[0]
    if t == "c":
        v = d[1]
        return complex(*v) if isinstance(v, (list, tuple)) else v
    if t == "p":
        return P[d[1]]
    if t == "list":
        return [build_pv(c, P) for c in d[1]]
    if t == "tuple":
        return tuple(build_pv(c, P) for c in d[1])
    if t == "dict":
        return {k: build_pv(c, P) for k, c in d[1]}
    if t == "xarr":
        vals = np.empty(len(d[2]), dtype=object)
        for i, (_, c) in enumerate(d[2]):
            vals[i] = build_pv(c, P)
        return xr.DataArray(vals, dims=[d[1]], coords={d[1]: [k for k, _ in d[2]]})
    if t == "trans":
        return TransformedPrior(build_fn(d[1]), [build_pv(c, P) for c in d[2]], name=d[3])
    if t == "cplx":
        return ComplexPrior(build_pv(d[1], P), build_pv(d[2], P), name=d[3])
    raise ValueError(d)


def build_scat(d, P):
    from holopy.scattering import Sphere, Spheres, Ellipsoid, Cylinder, Spheroid
    from holopy.scattering.scatterer import Scatterers, RigidCluster
    if d[0] == "leaf":
        cls = dict(Sphere=Sphere, Ellipsoid=Ellipsoid, Cylinder=Cylinder, Spheroid=Spheroid)[d[1]]
        return cls(**{k: build_pv(v, P) for k, v in d[2]})
    if d[0] == "group":
        ms = [build_scat(m, P) for m in d[2]]
        return Spheres(ms, warn=False) if d[1] == "Spheres" else Scatterers(ms)
    return RigidCluster(build_scat(d[1], P), translation=build_pv(d[2], P), rotation=build_pv(d[3], P))


def build_theory(t, P):
    from holopy.scattering import Mie, MieLens
    from holopy.scattering.theory import AberratedMieLens
    kw = {k: build_pv(v, P) for k, v in t[1]}
    return dict(Mie=Mie, MieLens=MieLens, AberratedMieLens=AberratedMieLens)[t[0]](**kw)


RECORD = {}


def _mock_calc(detector, scatterer, theory=None, scaling=None, **kw):
    RECORD.clear()
    RECORD.update(dict(scatterer=scatterer, theory=theory, scaling=scaling, optics=kw))
    return 0


def build_model(case):
    import holopy.inference.model as hmodel
    from holopy.inference import AlphaModel, ExactModel
    hmodel.calc_holo = _mock_calc      # AlphaModel._forward calls the module-level calc_holo
    P = build_priors(case["priors"])
    with warnings.catch_warnings():
        warnings.simplefilter("ignore")
        scat = build_scat(case["scat"], P)
        theory = build_theory(case["theory"], P)
        # the order of the theory's fittable attributes is the class's own parameter_names
        order = list(theory.parameter_names)
        case["theory"] = (case["theory"][0], sorted(case["theory"][1], key=lambda kv: order.index(kv[0])))
        okw = {k: build_pv(v, P) for k, v in case["optics"]}
        if case["kind"] == "AlphaModel":
            m = AlphaModel(scat, alpha=build_pv(case["modelp"][0][1], P), theory=theory, **okw)
        else:
            m = ExactModel(scat, calc_func=_mock_calc, theory=theory, **okw)
    return m, scat, P


# --- implementation results -> literals ---------------------------------------------------------

def val_lit(v):
    import numpy as np
    import xarray as xr
    if isinstance(v, xr.DataArray):
        dim = v.dims[0]
        keys = v.coords[dim].values.tolist()
        return "(VXArr %s %s)" % (strlit(dim), listlit(
            ["(%s, %s)" % (strlit(str(k)), val_lit(x)) for k, x in zip(keys, v.values.tolist())]))
    if isinstance(v, dict):
        return "(VDict %s)" % listlit(["(%s, %s)" % (strlit(str(k)), val_lit(x)) for k, x in v.items()])
    if isinstance(v, (list, tuple, np.ndarray)):
        return "(VList %s)" % listlit([val_lit(x) for x in v])
    if isinstance(v, (complex, np.complexfloating)):
        return "(VConst %s)" % const_lit(complex(v))
    return "(VConst %s)" % const_lit(v)


def mp_lit(m):
    from holopy.core import mapping
    if isinstance(m, str) and m[:11] == "_parameter_":
        return "(MPar %s)" % nlit(int(m[11:]))
    if isinstance(m, list):
        if len(m) == 2 and callable(m[0]):
            head = {dict: "HDict", mapping.make_xarray: "HXArr", mapping.transformed_prior: "HTrans"}.get(m[0])
            if head is None:
                raise ValueError("unknown call head in map: %r" % (m[0],))
            return "(MCall %s %s)" % (head, listlit([mp_lit(x) for x in m[1]]))
        return "(MList %s)" % listlit([mp_lit(x) for x in m])
    if m is operator.add:
        return "(MFn FAdd)"
    if m is operator.mul:
        return "(MFn FMul)"
    if m is complex:
        return "(MFn FCplx)"
    if isinstance(m, Lin):
        return "(MFn %s)" % fn_lit(["lin", m.c0, m.cs])
    return "(MConst %s)" % const_lit(m)


def obj_scat_lit(s):
    from holopy.scattering.scatterer import Scatterers
    if isinstance(s, Scatterers):
        return "(SGroup %s %s)" % (strlit(type(s).__name__), listlit([obj_scat_lit(x) for x in s.scatterers]))
    pars = []
    for k in inspect.signature(type(s).__init__).parameters:
        if k == "self":
            continue
        v = getattr(s, k, None)
        if v is not None:
            pars.append("(%s, %s)" % (strlit(k), val_lit(v)))
    return "(SLeaf %s %s)" % (strlit(type(s).__name__), listlit(pars))


def vals_lit(vals):
    return listlit(["vnum %s" % zlit(v) for v in vals])


# --- independent python statement of the specification (used by the direct exploration only) ------

def spec_value(d, sigma):
    t = d[0]
    if t == "c":
        return complex(*d[1]) if isinstance(d[1], (list, tuple)) else d[1]
    if t == "p":
        return sigma[d[1]]
    if t in ("list", "tuple"):
        return [spec_value(c, sigma) for c in d[1]]
    if t == "dict":
        return {k: spec_value(c, sigma) for k, c in d[1] if not (c[0] == "c" and c[1] is None)}
    if t == "xarr":
        return {"__xarr__": d[1], "items": [[k, spec_value(c, sigma)] for k, c in d[2]]}
    if t == "trans":
        return build_fn(d[1])(*[spec_value(c, sigma) for c in d[2]])
    if t == "cplx":
        return complex(spec_value(d[1], sigma), spec_value(d[2], sigma))
    raise ValueError(d)


def norm_value(v):
    """canonical JSON-like form of an implementation value for comparison with spec_value"""
    import numpy as np
    import xarray as xr
    if isinstance(v, xr.DataArray):
        dim = v.dims[0]
        return {"__xarr__": dim, "items": [[k, norm_value(x)] for k, x in
                                           zip(v.coords[dim].values.tolist(), v.values.tolist())]}
    if isinstance(v, dict):
        return {k: norm_value(x) for k, x in v.items()}
    if isinstance(v, (list, tuple, np.ndarray)):
        return [norm_value(x) for x in v]
    if isinstance(v, (complex, np.complexfloating)):
        return complex(v)
    if isinstance(v, (np.integer, np.floating)):
        return v.item()
    return v


def spec_scat(d, sigma):
    if d[0] == "leaf":
        return [d[1], {k: norm_value(spec_value(v, sigma)) for k, v in d[2]}]
    if d[0] == "group":
        return [d[1], [spec_scat(m, sigma) for m in d[2]]]
    raise ValueError(d)


def norm_scat(s):
    from holopy.scattering.scatterer import Scatterers
    if isinstance(s, Scatterers):
        return [type(s).__name__, [norm_scat(x) for x in s.scatterers]]
    out = {}
    for k in inspect.signature(type(s).__init__).parameters:
        if k != "self" and getattr(s, k, None) is not None:
            out[k] = norm_value(getattr(s, k))
    return [type(s).__name__, out]


def prior_sites(d, acc):
    t = d[0]
    if t == "p":
        acc.append(d[1])
    elif t in ("list", "tuple"):
        for c in d[1]:
            prior_sites(c, acc)
    elif t == "dict":
        for _, c in d[1]:
            prior_sites(c, acc)
    elif t == "xarr":
        for _, c in d[2]:
            prior_sites(c, acc)
    elif t == "trans":
        for c in d[2]:
            prior_sites(c, acc)
    elif t == "cplx":
        prior_sites(d[1], acc)
        prior_sites(d[2], acc)
    return acc


def scat_sites(d, acc):
    if d[0] == "leaf":
        for _, v in d[2]:
            prior_sites(v, acc)
    elif d[0] == "group":
        for m in d[2]:
            scat_sites(m, acc)
    else:
        scat_sites(d[1], acc)
        prior_sites(d[3], acc)   # rotation first, then translation (RigidCluster._parameters)
        prior_sites(d[2], acc)
    return acc


def case_order(case):
    """distinct prior ids in first-use order: scatterer, theory, optics, model"""
    acc = scat_sites(case["scat"], [])
    for _, v in case["theory"][1]:
        prior_sites(v, acc)
    for _, v in case["optics"]:
        prior_sites(v, acc)
    for _, v in case["modelp"]:
        prior_sites(v, acc)
    seen = []
    for i in acc:
        if i not in seen:
            seen.append(i)
    return seen, acc


class Schema:
    pass


def make_schema(rng):
    s = Schema()
    vals = {}
    for j, k in enumerate(["medium_index", "illum_wavelen", "illum_polarization"]):
        v = None if rng.random() < 0.12 else 101 + j
        setattr(s, k, v)
        vals[k] = v
    s.noise_sd = 104
    return s, vals


# ---------------------------------------------------------------------------------------------
# stages

def observe_model(ctx, case, m, rng, exprs, metas, tagprefix="", model_expr=None, pre=None):
    """push the correspondence expressions for one (possibly tied) model"""
    from holopy.scattering.errors import MissingParameter
    ML = model_expr or model_lit(case)
    pn, pg, pc = env_lits(case["priors"])
    names = list(m.parameters.keys())
    pars = list(m.parameters.values())
    ids = [p._vid for p in pars]
    if len(names) != len(m._parameter_names):
        names = list(m._parameter_names)
        ids = [p._vid for p in m._parameters]
    base = dict(case=case, names=names, ids=ids)
    if pre:
        base["ties"] = pre

    def push(tag, e, **extra):
        exprs.append("let m := %s in %s" % (ML, e))
        metas.append(dict(what=tagprefix + tag, **base, **extra))

    maps = m._maps
    push("names+ids+maps", "model_eqb_core m %s %s %s %s %s %s" % (
        listlit([strlit(s) for s in names]), listlit([nlit(i) for i in ids]),
        mp_lit(maps["scatterer"]), mp_lit(maps["theory"]), mp_lit(maps["optics"]), mp_lit(maps["model"])),
        maps=repr(maps))
    n = len(names)
    vals = rng.sample(range(2, 97), n) if n else []
    with warnings.catch_warnings():
        warnings.simplefilter("ignore")
        got_l = m.scatterer_from_parameters(list(vals))
        got_d = m.scatterer_from_parameters({k: v for k, v in zip(names, vals)})
    push("scatterer_from_parameters(list)", "scat_eqb (scatterer_from_parameters m %s) %s" % (vals_lit(vals), obj_scat_lit(got_l)),
         vals=vals, impl=repr(got_l))
    # dict: shuffled insertion order, the model looks the names up
    items = list(zip(names, vals))
    rng.shuffle(items)
    dl = listlit(["(%s, vnum %s)" % (strlit(k), zlit(v)) for k, v in items])
    push("scatterer_from_parameters(dict)", "scat_eqb (scatterer_from_parameters m (pars_of_dict m %s)) %s" % (dl, obj_scat_lit(got_d)),
         vals=vals, impl=repr(got_d))
    # theory
    th = m.theory_from_parameters(list(vals))
    tkeys = list(m.theory.parameter_names)
    push("theory_from_parameters", "leqb kv_eqb (theory_from_parameters m %s %s) %s" % (
        listlit([strlit(k) for k in tkeys]), vals_lit(vals),
        listlit(["(%s, %s)" % (strlit(k), val_lit(getattr(th, k))) for k in tkeys])), vals=vals, impl=repr(th))
    # optics / scaling through the public forward() with a recording calc function
    schema, svals = make_schema(rng)
    try:
        with warnings.catch_warnings():
            warnings.simplefilter("ignore")
            m.forward(list(vals), schema)
        optics = dict(RECORD["optics"])
        missing = False
    except MissingParameter:
        missing = True
    sl = listlit(["(%s, %s)" % (strlit(k), val_lit(v)) for k, v in svals.items()])
    if missing:
        push("forward:missing", "existsb (fun kv => match snd kv with None => true | _ => false end) (find_optics m %s %s)" % (
            sl, vals_lit(vals)), schema=svals, vals=vals)
    else:
        ol = listlit(["(%s, Some %s)" % (strlit(k), val_lit(optics[k])) for k in ["medium_index", "illum_wavelen", "illum_polarization"]])
        push("forward:optics", "leqb okv_eqb (find_optics m %s %s) %s" % (sl, vals_lit(vals), ol), schema=svals, vals=vals,
             impl=repr(optics))
        push("forward:scatterer", "scat_eqb (scatterer_from_parameters m %s) %s" % (vals_lit(vals), obj_scat_lit(RECORD["scatterer"])),
             vals=vals, impl=repr(RECORD["scatterer"]))
        if case["kind"] == "AlphaModel":
            push("forward:alpha", "oval_eqb (model_par m \"alpha\" %s) (Some %s)" % (vals_lit(vals), val_lit(RECORD["scaling"])),
                 vals=vals, impl=repr(RECORD["scaling"]))
    ns_desc = dict((k, v) for k, v in case["optics"])["noise_sd"]
    if not (ns_desc[0] == "c" and ns_desc[1] is None) and hasattr(m, "_find_noise"):
        nv = m._find_noise(list(vals), schema)
        push("noise_sd", "oval_eqb (noise_par m %s) (Some %s)" % (vals_lit(vals), val_lit(nv)), vals=vals, impl=repr(nv))
    # initial guess
    ig = m.initial_guess
    push("initial_guess", "leqb val_eqb (initial_guess %s m) %s" % (pg, listlit([val_lit(ig[k]) for k in names])),
         impl=repr(ig))
    return names, ids, vals, got_l


def check_property_direct(ctx, case, m, names, ids, vals, got, key):
    """the property's own predicate on the implementation, independent of the Gallina model"""
    order, sites = case_order(case)
    ctx.explored += 1
    if len(set(names)) != len(names):
        ctx.violation(key + ":names-unique", "parameter names are not unique: %r" % (names,), dict(kind="case", case=case, names=names))
    if ids != order:
        ctx.violation(key + ":one-per-prior", "parameters are not the distinct priors in first-use order",
                      dict(kind="case", case=case, ids=ids, expected=order))
    if case["scat"][0] != "rigid":
        sigma = {i: v for i, v in zip(ids, vals)}
        if set(sigma) >= set(scat_sites(case["scat"], [])):
            want = spec_scat(case["scat"], sigma)
            have = norm_scat(got)
            if want != have:
                ctx.violation(key + ":placement", "scatterer_from_parameters does not put each value at every site of its prior",
                              dict(kind="case", case=case, vals=vals, expected=repr(want), observed=repr(have)))
        # the same list / array object, rewritten in place between calls (what an optimiser or sampler hands over):
        # every call has to place the CURRENT values
        if vals:
            import numpy as _np
            for mk in (list, lambda v: _np.array(v, dtype=float)):
                buf = mk(vals)
                with warnings.catch_warnings():
                    warnings.simplefilter("ignore")
                    m.scatterer_from_parameters(buf)
                    for step in range(2):
                        for i in range(len(vals)):
                            buf[i] = buf[i] + 1 + step
                        fresh_vals = [float(x) for x in buf]
                        again = m.scatterer_from_parameters(buf)
                        ref = m.scatterer_from_parameters(list(fresh_vals))
                        ctx.explored += 1
                        if norm_scat(again) != norm_scat(ref) or again is ref:
                            ctx.violation(key + ":buffer-reuse", "scatterer_from_parameters called again with the same list / array "
                                          "object after its entries were changed in place does not place the current values",
                                          dict(kind="case", case=case, vals=fresh_vals, expected=repr(norm_scat(ref)),
                                               observed=repr(norm_scat(again))))
        # initial guess scatterer = every prior replaced by its guess
        with warnings.catch_warnings():
            warnings.simplefilter("ignore")
            igs = m.initial_guess_scatterer
        gs = {i: guess_of(p["cls"]) for i, p in enumerate(case["priors"])}
        if norm_scat(igs) != spec_scat(case["scat"], gs):
            ctx.violation(key + ":guess", "initial_guess_scatterer is not the scatterer with each prior replaced by its guess",
                          dict(kind="case", case=case, observed=repr(norm_scat(igs))))


def stage_models(ctx):
    from holopy.scattering.interface import validate_scatterer
    rng = ctx.subrng("models")
    exprs, metas = [], []
    for k in range(ctx.n(150, 900)):
        if k % 6 == 5:
            case = gen_shared_name_case(rng)
            ctx.count("stream:shared-name")
        else:
            case = gen_case(rng)
        m, scat, P = build_model(case)
        names, ids, vals, got = observe_model(ctx, case, m, rng, exprs, metas)
        check_property_direct(ctx, case, m, names, ids, vals, got, "direct")
        # validate_scatterer (interface.py): priors -> guesses
        with warnings.catch_warnings():
            warnings.simplefilter("ignore")
            vs = validate_scatterer(scat)
        pn, pg, pc = env_lits(case["priors"])
        exprs.append("scat_eqb (validate_scatterer %s %s %s) %s" % (pn, pg, scat_lit(case["scat"]), obj_scat_lit(vs)))
        metas.append(dict(what="validate_scatterer", case=case, impl=repr(vs)))
        order, sites = case_order(case)
        ctx.count("scat:" + (case["scat"][1] if case["scat"][0] != "rigid" else "rigid"))
        ctx.count("theory:" + case["theory"][0])
        ctx.count("model:" + case["kind"])
        ctx.count("priors", len(order))
        ctx.count("prior-sites", len(sites))
        ctx.count("shared-sites", len(sites) - len(order))
        nm = [p["name"] for p in case["priors"]]
        if len(sites) > len(order):
            ctx.nontriv(("shared", k))
        if len([x for x in nm if x is not None]) != len(set(x for x in nm if x is not None)):
            ctx.nontriv(("namecoll", k))
            ctx.count("explicit-name-collision")
        if k < 3:
            ctx.sample(dict(names=names, ids=ids, vals=vals, scatterer=repr(got), maps=repr(m._maps)[:600]))
    finish_corr(ctx, "C11m", exprs, metas)


def finish_corr(ctx, tag, exprs, metas):
    mism, errors, _ = run_mismatch_cases(tag, REQ, exprs, chunk=120)
    ctx.corr_cases += len(exprs)
    for e in errors:
        ctx.violation("corr-eval-error", "model evaluation failed: " + e[:300], dict(kind="coq-error", log=e), nofail=True)
    for i in mism:
        mt = metas[i]
        ctx.disagree("corr:%s" % mt["what"], "model and implementation disagree on %s" % mt["what"],
                     dict(kind="corr", expr=exprs[i][:6000], **mt))


def gen_tie_case(rng):
    """a model with several equal priors (tie candidates) among other parameters"""
    G = Gen(rng)
    k = rng.choice([2, 3, 3, 4])
    shared_cls = 2 if rng.random() < 0.5 else 1

    def cand(scope):
        u = rng.random()
        if u < 0.55:
            return ("p", G.new_prior(scope, cls=shared_cls, name=rng.choice([None, None, None, "x", "t"])))
        if u < 0.7:
            return ("p", G.pick(scope))
        if u < 0.85:
            return ("c", rng.randint(1, 9))
        return ("trans", gen_fn(rng, 2), [("p", G.new_prior(scope, cls=shared_cls, name=None)), ("c", rng.randint(2, 5))], None)
    ms = []
    for i in range(k):
        ms.append(("leaf", "Sphere", [["n", cand("scat")], ["r", cand("scat")],
                                      ["center", ("list", [("c", 3 * i), cand("scat"), ("c", rng.randint(0, 5))])]]))
    scat = ("group", "Spheres", ms) if k > 1 and rng.random() < 0.8 else ms[0]
    theory = ("MieLens", [["lens_angle", cand("other")]]) if rng.random() < 0.4 else ("Mie", [])
    optics = [["medium_index", cand("other") if rng.random() < 0.5 else ("c", None)], ["illum_wavelen", ("c", None)],
              ["illum_polarization", ("c", None)], ["noise_sd", cand("other") if rng.random() < 0.3 else ("c", None)]]
    kind = "AlphaModel" if rng.random() < 0.6 else "ExactModel"
    modelp = [["alpha", cand("other")]] if kind == "AlphaModel" else []
    return dict(scat=scat, theory=theory, optics=optics, kind=kind, modelp=modelp, priors=G.info)


def tie_expr(ML, pc, tie, new_name):
    return "(add_tie %s %s %s %s)" % (pc, listlit([strlit(s) for s in tie]), optstr(new_name), ML)


def stage_ties(ctx):
    rng = ctx.subrng("ties")
    exprs, metas = [], []
    ncases = ctx.n(60, 110)
    for k in range(ncases):
        case = gen_tie_case(rng)
        m0, scat, P = build_model(case)
        names0 = list(m0._parameter_names)
        ids0 = [p._vid for p in m0._parameters]
        cls0 = [case["priors"][i]["cls"] for i in ids0]
        pn, pg, pc = env_lits(case["priors"])
        groups = {}
        for nme, c in zip(names0, cls0):
            groups.setdefault(c, []).append(nme)
        cands = max(groups.values(), key=len)[:5]
        subsets = [list(s) for r in range(2, len(cands) + 1) for s in itertools.combinations(cands, r)]
        if ctx.tier != "thorough" and len(subsets) > 4:
            subsets = rng.sample(subsets, 4)
        ctx.count("tie-candidates:%d" % len(cands))
        for sub in subsets:
            tie = list(sub)
            rng.shuffle(tie)
            new_name = rng.choice([None, None, "tied"])
            m, _, _ = build_model(case)
            m.add_tie(tie, new_name)
            ML = "match %s with Some t => t | None => %s end" % (tie_expr(model_lit(case), pc, tie, new_name), model_lit(case))
            exprs.append("match %s with Some _ => true | None => false end" % tie_expr(model_lit(case), pc, tie, new_name))
            metas.append(dict(what="add_tie:accepted", case=case, tie=tie))
            pre = [dict(tie=tie, new_name=new_name)]
            names, ids, vals, got = observe_model(ctx, case, m, rng, exprs, metas, "tie:", "(%s)" % ML, pre)
            ctx.count("ties")
            ctx.nontriv(("tie", k, tuple(sorted(sub))))
            # direct: exactly the duplicates disappear, and with equal values the tied model builds what the
            # untied model builds
            ctx.explored += 1
            if len(names) != len(names0) - (len(sub) - 1) or len(set(names)) != len(names):
                ctx.violation("direct:tie-count", "add_tie did not remove exactly the duplicates",
                              dict(kind="tie", case=case, tie=tie, before=names0, after=names))
            idx = sorted(names0.index(t) for t in tie)
            full = []
            it = iter(vals)
            kept = [i for i in range(len(names0)) if i not in idx[1:]]
            newvals = dict(zip(kept, vals))
            for i in range(len(names0)):
                full.append(newvals[i] if i in newvals else newvals[idx[0]])
            with warnings.catch_warnings():
                warnings.simplefilter("ignore")
                want = m0.scatterer_from_parameters(full)
                want_th = m0.theory_from_parameters(full)
                have_th = m.theory_from_parameters(list(vals))
            if norm_scat(want) != norm_scat(got) or want_th != have_th:
                ctx.violation("direct:tie-semantics", "tied model with values v differs from the untied model with v duplicated on the tie",
                              dict(kind="tie", case=case, tie=tie, vals=vals, full=full, tied=repr(got), untied=repr(want)))
            # a second tie on the already tied model (sequence of operations)
            groups2 = {}
            for nme, i in zip(names, ids):
                groups2.setdefault(case["priors"][i]["cls"], []).append(nme)
            c2 = [g for g in groups2.values() if len(g) >= 2]
            if c2 and rng.random() < 0.5:
                g2 = rng.choice(c2)
                tie2 = rng.sample(g2, rng.randint(2, len(g2)))
                m.add_tie(tie2)
                inner = "match %s with Some t => t | None => %s end" % (tie_expr(model_lit(case), pc, tie, new_name), model_lit(case))
                ML2 = "match %s with Some t => t | None => %s end" % (tie_expr("(%s)" % inner, pc, tie2, None), model_lit(case))
                observe_model(ctx, case, m, rng, exprs, metas, "tie2:", "(%s)" % ML2, pre + [dict(tie=tie2, new_name=None)])
                ctx.count("ties-second")
        # refusals: unknown name, unequal priors
        bad = []
        if names0:
            bad.append([names0[0], "no_such_parameter"])
        diff = [(a, b) for a, ca in zip(names0, cls0) for b, cb in zip(names0, cls0) if ca != cb]
        if diff:
            bad.append(list(rng.choice(diff)))
        for tie in bad:
            m, _, _ = build_model(case)
            try:
                m.add_tie(tie)
                got = "accepted"
            except ValueError:
                got = "ValueError"
            exprs.append("match %s with Some _ => %s | None => %s end" % (
                tie_expr(model_lit(case), pc, tie, None), blit(got == "accepted"), blit(got == "ValueError")))
            metas.append(dict(what="add_tie:refusal", case=case, tie=tie, impl=got))
            ctx.count("tie-refusals")
            ctx.explored += 1
            if got != "ValueError":
                ctx.violation("direct:tie-refusal", "add_tie accepted an unknown name / unequal priors",
                              dict(kind="tie", case=case, tie=tie))
    finish_corr(ctx, "C11t", exprs, metas)


def gen_numeric_scat(rng, depth=0):
    """scatterers without priors, for the rebuild clause"""
    def num():
        return ("c", rng.randint(1, 9))
    u = rng.random()
    if u < 0.4 or depth >= 2:
        v = rng.random()
        if v < 0.5:
            return ("leaf", "Sphere", [["n", num()], ["r", num()], ["center", ("list", [num(), num(), num()])]])
        if v < 0.75:
            k = rng.choice([2, 3])
            return ("leaf", "Sphere", [["n", ("list", [num() for _ in range(k)])],
                                       ["r", ("list", [("c", i + 1) for i in range(k)])],
                                       ["center", ("list", [num(), num(), num()])]])
        G = Gen(rng)
        d = gen_other(G)
        return ("leaf", d[1], [[kk, strip_priors(vv, rng)] for kk, vv in d[2]])
    cls = rng.choice(["Spheres", "Scatterers"])
    if cls == "Spheres":
        return ("group", cls, [("leaf", "Sphere", [["n", num()], ["r", ("c", 1)],
                                                   ["center", ("list", [("c", 10 * i), num(), num()])]])
                               for i in range(rng.choice([1, 2, 3, 4]))])
    return ("group", cls, [gen_numeric_scat(rng, depth + 1) for _ in range(rng.choice([1, 2, 3]))])


def strip_priors(d, rng):
    t = d[0]
    if t in ("list", "tuple"):
        return ("list", [strip_priors(c, rng) for c in d[1]])
    if t == "c":
        return d
    return ("c", rng.randint(1, 9))


def mutate_all(s):
    """overwrite every mutable container reachable from a scatterer (lists / arrays in place)"""
    import numpy as np
    from holopy.scattering.scatterer import Scatterers
    if isinstance(s, Scatterers):
        for x in s.scatterers:
            mutate_all(x)
        if isinstance(s.scatterers, list):
            s.scatterers.append(None)
        return
    for k, v in list(vars(s).items()):
        if isinstance(v, list):
            for i in range(len(v)):
                v[i] = -777
        elif isinstance(v, np.ndarray) and v.ndim >= 1 and v.dtype != object:
            v[...] = -777


def stage_rebuild(ctx):
    """rebuilding from the own parameter dictionary gives an equal scatterer that shares no mutable state"""
    rng = ctx.subrng("rebuild")
    exprs, metas = [], []
    for k in range(ctx.n(120, 1000)):
        with_priors = rng.random() < 0.4
        if with_priors:
            G = Gen(rng)
            d = gen_scat(G)
            P = build_priors(G.info)
        else:
            d = gen_numeric_scat(rng)
            P = []
        with warnings.catch_warnings():
            warnings.simplefilter("ignore")
            s = build_scat(d, P)
            before = repr(s)
            pars = s.parameters
            s2 = s.from_parameters(pars)
            ctx.explored += 1
            ctx.count("rebuild:" + ("priors" if with_priors else "numeric"))
            if not (s2 == s) or type(s2) is not type(s):
                ctx.violation("direct:rebuild-equal", "from_parameters(parameters) is not equal to the original scatterer",
                              dict(kind="rebuild", scat=d, original=before, rebuilt=repr(s2)))
                continue
            # key round trip against the model (flattened keys, order)
            keys = list(pars.keys())
            exprs.append("leqb String.eqb (map fst (scat_params %s)) %s" % (scat_lit(d), listlit([strlit(x) for x in keys])))
            metas.append(dict(what="parameters:keys", scat=d, impl=keys))
            # aliasing: wreck the copy and the handed-out dictionary, the original must not notice
            mutate_all(s2)
            for kk, v in pars.items():
                if isinstance(v, list):
                    for i in range(len(v)):
                        v[i] = -555
            if repr(s) != before:
                ctx.violation("direct:rebuild-aliasing", "the rebuilt scatterer / the parameters dict shares mutable state with the original",
                              dict(kind="rebuild", scat=d, original=before, after=repr(s)))
            ctx.nontriv(("rebuild", before))
    finish_corr(ctx, "C11r", exprs, metas)


def stage_rigid(ctx):
    """RigidCluster: correspondence with the faithful model (which collapses to plain Spheres) and the property
    itself (the rebuilt scatterer must be the rotated + translated collection)."""
    import numpy as np
    rng = ctx.subrng("rigid")
    exprs, metas = [], []
    for k in range(ctx.n(25, 100)):
        case = gen_case(rng, rigid=True)
        # rotation angles: the model carries integers; the real object gets integer/8 radians through a
        # transformation-free scaling of the VALUES, so build with angles as they are and compare exactly
        m, scat, P = build_model(case)
        names, ids, vals, got = observe_model(ctx, case, m, rng, exprs, metas, "rigid:")
        check_property_direct(ctx, case, m, names, ids, vals, got, "direct")
        ctx.count("scat:rigid")
        # property: equals the equivalent rotated and translated sphere collection
        sigma = {i: v for i, v in zip(ids, vals)}
        sites = set(scat_sites(case["scat"], []))
        if not sites <= set(sigma):
            continue
        d = case["scat"]
        from holopy.scattering import Sphere, Spheres
        sph = [Sphere(**{kk: spec_value(v, sigma) for kk, v in leaf[2]}) for leaf in d[1][2]]
        tr = spec_value(d[2], sigma)
        rot = spec_value(d[3], sigma)
        with warnings.catch_warnings():
            warnings.simplefilter("ignore")
            want = Spheres(sph, warn=False).rotated(rot).translated(tr)
            direct = scat.from_parameters(dict(
                [("%d:%s" % (i, kk), spec_value(v, sigma)) for i, leaf in enumerate(d[1][2]) for kk, v in leaf[2]]
                + [("rotation", rot), ("translation", tr)]))
        cw = np.array([np.asarray(s.center, dtype=float) for s in want.scatterers])
        cg = np.array([np.asarray(s.center, dtype=float) for s in got.scatterers])
        cd = np.array([np.asarray(s.center, dtype=float) for s in direct.scatterers])
        ctx.explored += 1
        scale = 1 + np.abs(cw).max()
        if np.abs(cd - cw).max() > 1e-9 * scale:
            ctx.violation("rigidcluster:from_parameters", "RigidCluster.from_parameters is not the rotated+translated collection",
                          dict(kind="rigid", case=case, vals=vals, expected=cw.tolist(), observed=cd.tolist()))
        has_free = bool(prior_sites(d[2], []) or prior_sites(d[3], []))
        moved = np.abs(cw - np.array([np.asarray(s.center, dtype=float) for s in sph])).max() > 1e-6
        if np.abs(cg - cw).max() > 1e-9 * scale:
            ctx.nontriv(("rigid", k))
            ctx.violation("rigidcluster:model-params",
                          "a RigidCluster inside a Model loses rotation/translation: scatterer_from_parameters returns the "
                          "untransformed spheres (centres %s, expected %s)" % (cg.tolist(), np.round(cw, 6).tolist()),
                          dict(kind="rigid", case=case, vals=vals, names=names, expected_centers=cw.tolist(),
                               observed_centers=cg.tolist(), free_rotation_or_translation=has_free))
        elif moved:
            ctx.nontriv(("rigid-ok", k))
    finish_corr(ctx, "C11g", exprs, metas)


# source tie: the index arithmetic of core/mapping.py:edit_map_indices as written now
def _src_items():
    from harness.lib import pyidx
    return [dict(file="holopy/core/mapping.py", qualname="edit_map_indices", name="edit_idx_src", fn=pyidx.edit_map_indices)]


def stage_srctie(ctx):
    from harness.lib import srctie
    ok = srctie.run(ctx, "C11", "From Coq Require Import Lia Arith.\nFrom HV Require Import C11.Model C11.Lemmas C11.Props.\n", _src_items())
    ctx.count("srctie:%s" % ("ok" if ok else "broken"))


def run(ctx):
    ctx.rule = ("models = scatterer (Sphere incl. layered / per-channel / complex index, Ellipsoid, Cylinder, Spheroid, Spheres of "
                "1-4, nested Scatterers, RigidCluster) x theory (Mie, MieLens, AberratedMieLens) x optics (None / number / prior / "
                "list / dict / xarray) x AlphaModel|ExactModel, priors at random sites with 40% re-use of an existing prior object, "
                "names from a colliding pool (x, x_0, x_1, n, r, 0:n, center.0, ...), transformations add / mul / affine up to "
                "depth 3; non-trivial = case with a shared prior, case with colliding explicit names, distinct (case, tie subset), "
                "distinct rebuilt scatterer, rigid cluster whose expected result is actually moved")
    ctx.clauses_proved = [
        "names stay pairwise distinct (and one per parameter) under any sequence of conversions with one Mapper, any prior names, "
        "prefixes and sharing (names_nodup); add_tie keeps them distinct unless the user-supplied new name collides (add_tie_spec)",
        "add_parameter's unbounded de-duplication loop stops within length(names)+1 steps at the first free base_k "
        "(fresh_name_terminates, fresh_name_is_first_free; pigeonhole over injective candidate names)",
        "parameters = the distinct prior objects in first-occurrence order, no duplicates (one_param_per_prior)",
        "read_map (convert t) vals = t with every prior replaced by the value at its final index, constants untouched, None "
        "dictionary entries dropped, transformations applied, for every tree (nested lists / dicts / xarrays / complex / "
        "transformations of any depth), any earlier Mapper state, any later extension of the parameter list and any "
        "interpretation of the transformations (read_convert, read_convert_sequence, value_of_ith_parameter, "
        "model_maps_read_back for Model.__init__'s four maps)",
        "Model.scatterer_from_parameters = the scatterer with every prior replaced by its value, end to end through the dummy "
        "scatterer and 'i:key' from_parameters, for simple scatterers and nested collections (scatterer_from_parameters_spec)",
        "guess values give the guess tree / validate_scatterer gives the guess scatterer (guess_values_give_guess_tree, "
        "guess_scatterer)",
        "name-keyed values in any insertion order = list-ordered values (dict_vs_list; uses names_nodup)",
        "tie: edit_map_indices' shift formula = position after deletion; the descending del loop removes exactly indices[1:]; "
        "tied model on the shortened vector = untied model when the values agree on the tie; all of Model.add_tie incl. the "
        "sort (edit_index_is_position, tie_removes_duplicates, tie_semantics, add_tie_spec)",
        "'i:key' flattening and collection are inverse; from_parameters with a complete dictionary places every value; "
        "rebuilding from the own parameters is the identity on the tree model (flatten_unflatten_keys, "
        "from_parameters_places_every_value, rebuild_id)",
        "RigidCluster inside a Model: the faithful model provably loses rotation / translation "
        "(rigid_cluster_in_model_loses_parameters; Findings.v also shows that a class-preserving template would not)"]
    ctx.clauses_explored = [
        "rebuilt scatterer shares no mutable state with the original (python object aliasing is outside the tree model)",
        "RigidCluster.from_parameters = rotated + translated collection (numerical, uses the C19 rotation); rigid_equiv is not "
        "proved",
        "python-level statement of placement / guess / tie semantics evaluated directly on the implementation",
        "add_tie with repeated names in the tie list and theory.from_parameters' own attribute handling are not covered by a "
        "theorem (the former is outside the property's quantifier, the latter is compared in the correspondence only)"]
    ctx.trusted += ["oracle: the transformation functions (operator.add, operator.mul, complex, user callables) - abstract symbols in "
                    "the theorems, integer arithmetic in the executed instance",
                    "oracle: python object identity (is) modelled as equality of prior ids; copy.deepcopy modelled as structural copy",
                    "oracle: Spheres.rotated / translated used to state the rigid-cluster clause"]
    ctx.trusted.append("source reader harness/lib/pyidx.py (python ints read as Z; `x in l`, `l[0]`, `(np.array(l) < x).sum()` read as "
                       "membership, head and a count; the string prefix / format compared as text) for the source tie")
    ctx.clauses_proved.append(
        "source tie: the index arithmetic of core/mapping.py:edit_map_indices, read from the current source text on every run over "
        "unbounded ints, computes the model's edit_idx for every non-empty duplicate-free index list and every old index (never "
        "negative); a tied index goes to the smallest tied index and any other to its position after deleting indices[1:], restated "
        "for the source [edit_idx_src_is_model, edit_tag_src_consistent, src_edit_index_is_position]")
    guarded(ctx, "prove", ctx.prove)
    guarded(ctx, "source-tie", stage_srctie, ctx)
    boot.boot()
    guarded(ctx, "models", stage_models, ctx)
    guarded(ctx, "ties", stage_ties, ctx)
    guarded(ctx, "rebuild", stage_rebuild, ctx)
    guarded(ctx, "rigid", stage_rigid, ctx)


def replay(ctx, data):
    """re-run the stored failing case on the current tree"""
    boot.boot()
    d = data["data"]
    kind = d.get("kind")
    if kind == "rigid":
        import numpy as np
        case = _detuple(d["case"])
        m, scat, P = build_model(case)
        got = m.scatterer_from_parameters(list(d["vals"]))
        cg = np.array([np.asarray(s.center, dtype=float) for s in got.scatterers])
        cw = np.array(d["expected_centers"])
        ctx.explored += 1
        print("replay: scatterer_from_parameters centres %s expected %s" % (cg.tolist(), cw.tolist()))
        if np.abs(cg - cw).max() > 1e-9 * (1 + np.abs(cw).max()):
            ctx.violation(data["key"], data["what"], d)
    elif kind in ("corr", "case", "tie") and "case" in d:
        case = _detuple(d["case"])
        import random
        rng = random.Random(1)
        exprs, metas = [], []
        m, scat, P = build_model(case)
        for t in d.get("ties", []):
            m.add_tie(t["tie"], t["new_name"])
        if not d.get("ties"):
            names, ids, vals, got = observe_model(ctx, case, m, rng, exprs, metas)
            check_property_direct(ctx, case, m, names, ids, vals, got, "direct")
            finish_corr(ctx, "C11replay", exprs, metas)
        else:
            print("replay: tie case; re-running the tie stage with the recorded seed")
            ctx.seed = data.get("seed", ctx.seed)
            guarded(ctx, "ties", stage_ties, ctx)
    else:
        print("replay: re-running the whole check with the recorded seed")
        ctx.seed = data.get("seed", ctx.seed)
        run(ctx)


def _detuple(case):
    def val(d):
        t = d[0]
        if t in ("list", "tuple"):
            return (t, [val(c) for c in d[1]])
        if t == "dict":
            return (t, [[k, val(c)] for k, c in d[1]])
        if t == "xarr":
            return (t, d[1], [[k, val(c)] for k, c in d[2]])
        if t == "trans":
            return (t, d[1], [val(c) for c in d[2]], d[3])
        if t == "cplx":
            return (t, val(d[1]), val(d[2]), d[3])
        return tuple(d)

    def sc(d):
        if d[0] == "leaf":
            return ("leaf", d[1], [[k, val(v)] for k, v in d[2]])
        if d[0] == "group":
            return ("group", d[1], [sc(m) for m in d[2]])
        return ("rigid", sc(d[1]), val(d[2]), val(d[3]))
    out = dict(case)
    out["scat"] = sc(case["scat"])
    out["theory"] = (case["theory"][0], [[k, val(v)] for k, v in case["theory"][1]])
    out["optics"] = [[k, val(v)] for k, v in case["optics"]]
    out["modelp"] = [[k, val(v)] for k, v in case["modelp"]]
    return out

"""C18 - image-processing identities: proof obligations (coq/C18/Props.v), correspondence of the
Gallina model with the implementation (exact on dyadic data where float arithmetic is exact,
1e-9 tolerance where a division / least-squares fit rounds), and direct exploration of the
property's own predicates on the implementation (incl. the centre finder, which has no theorem)."""
import itertools
import math
import time
from fractions import Fraction

from harness.lib import boot
from harness.lib.coqrun import qlit, zlit, blit, listlit, run_mismatch_cases
from harness.lib.ctx import guarded

REQ = "From HV Require Import Common.Generic Common.Cmp C18.Model.\nOpen Scope Q_scope.\n"
DEFS = """
Definition tol : Q := (1 # 1000000000).
Definition rows_close (a b : list (list Q)) : bool := list_eqb (qlist_close tol) a b.
Definition rows_exact (a b : list (list Q)) : bool := list_eqb qlist_eqb a b.
Definition oimg_close := option_eqb rows_close.
Definition oimg_exact := option_eqb rows_exact.
Definition cimg_eqb (a b : cimage Q Z) : bool :=
  qlist_eqb (cxs a) (cxs b) && qlist_eqb (cys a) (cys b) && list_eqb zlist_eqb (cpix a) (cpix b).
Definition oq_close (a b : option Q) : bool := option_eqb (qclose tol) a b.
Definition tol32 : Q := (1 # 100000).
Definition oimg_close32 := option_eqb (list_eqb (qlist_close tol32)).
"""
INT_DTYPES = ["uint8", "uint16", "int32", "int64"]   # camera frames are integers
DTYPES = INT_DTYPES + ["float32"]


def rand_scale(rng):
    """positive intensity-unit changes over many decades: exact powers of two 2^-60..2^60, and 1e-12 / 1e12"""
    r = rng.random()
    if r < 0.15:
        return 1e-12
    if r < 0.3:
        return 1e12
    if r < 0.65:
        return 2.0 ** rng.randint(-60, -30)
    return 2.0 ** rng.randint(-30, 60)

TOL = 1e-9


# --- literals -----------------------------------------------------------------
def natlit(n):
    return "%d%%nat" % n


def ql(xs):
    return listlit([qlit(float(x)) for x in xs])


def rowsl(rows):
    return listlit([ql(r) for r in rows])


def zrowsl(rows):
    return listlit([listlit([zlit(int(v)) for v in r]) for r in rows])


def dy(rng, lo, hi, bits=4):
    s = 1 << bits
    return rng.randint(int(lo * s), int(hi * s)) / s


def is_pow2(x):
    fr = Fraction(x)
    return fr > 0 and (fr.numerator & (fr.numerator - 1)) == 0 and (fr.denominator & (fr.denominator - 1)) == 0


def gen_shape(rng, lo=1, hi=7):
    r = rng.random()
    if r < 0.1:
        return (1, rng.randint(lo, hi))
    if r < 0.2:
        return (rng.randint(lo, hi), 1)
    return (rng.randint(lo, hi), rng.randint(lo, hi))


def gen_values(rng, shape, lo=0.25, hi=16, bits=4):
    return [[dy(rng, lo, hi, bits) for _ in range(shape[1])] for _ in range(shape[0])]


META = dict(medium_index=1.33, illum_wavelen=0.66, illum_polarization=(1, 0), noise_sd=0.0625)


def mk(rows, spacing=1.0, name="img", origin=None, dtype=None, **over):
    """public constructor: a (z=1, x, y) image with optics metadata"""
    import numpy as np
    from holopy.core.metadata import data_grid
    kw = dict(META)
    kw.update(over)
    arr = np.array(rows, dtype=float)
    if dtype is not None:
        arr = arr.astype(dtype)
    im = data_grid(arr, spacing=spacing, name=name, **kw)
    if origin is not None:
        im = im.assign_coords(x=im.x + origin[0], y=im.y + origin[1])
    return im


def meta_diff(old, new, coords=True):
    """'' if new carries old's metadata (attrs, name and, if asked, coordinates), else what differs"""
    import numpy as np
    import xarray as xr
    if new.name != old.name:
        return "name %r -> %r" % (old.name, new.name)
    if set(old.attrs) != set(new.attrs):
        return "attrs keys %s -> %s" % (sorted(old.attrs), sorted(new.attrs))
    for k, v in old.attrs.items():
        w = new.attrs[k]
        if isinstance(v, xr.DataArray) or isinstance(w, xr.DataArray):
            same = isinstance(v, xr.DataArray) and isinstance(w, xr.DataArray) and v.equals(w)
        else:
            same = (v is None and w is None) or (v is not None and w is not None and np.array_equal(v, w))
        if not same:
            return "attr %s: %r -> %r" % (k, v, w)
    if list(old.dims) != list(new.dims):
        return "dims %s -> %s" % (old.dims, new.dims)
    if coords:
        if set(old.coords) != set(new.coords):
            return "coords %s -> %s" % (sorted(old.coords), sorted(new.coords))
        for k in old.coords:
            if not np.array_equal(old.coords[k].values, new.coords[k].values):
                return "coordinate %s changed" % k
    return ""


def nonfinite(ctx, op, res, data):
    """inf/nan in an implementation result (never produced on valid input by the modelled code): a property failure
    reported under its own key instead of a literal-conversion crash"""
    flat = [v for r in (res or []) for v in r]
    if all(math.isfinite(v) for v in flat):
        return False
    ctx.violation("%s:nonfinite" % op, "%s returned inf/nan where the defining formula is finite" % op, data)
    return True


def finish_cases(ctx, tag, exprs, metas, keyfn, whatfn):
    # at most 4 coqc processes per stage (shared machine); each file stays well under a minute
    chunk = max(25, -(-len(exprs) // 4))
    mism, errors, _ = run_mismatch_cases(tag, REQ, exprs, chunk=chunk, jobs=4, defs=DEFS)
    ctx.corr_cases += len(exprs)
    for e in errors:
        ctx.violation("corr-eval-error", "model evaluation failed: " + e[:300], dict(kind="coq-error", log=e), nofail=True)
    for i in mism:
        ctx.disagree(keyfn(metas[i]), whatfn(metas[i]), metas[i])


# --- normalize ------------------------------------------------------------------
def stage_normalize(ctx):
    import numpy as np
    from holopy.core.process import normalize
    from holopy.core.metadata import data_grid
    rng = ctx.subrng("normalize")
    exprs, metas = [], []
    for k in range(ctx.n(70, 700)):
        shape = gen_shape(rng)
        dtype = rng.choice(DTYPES) if rng.random() < 0.25 else None
        if dtype is None:
            rows = gen_values(rng, shape, lo=rng.choice([0.25, -8, 0]), hi=rng.choice([4, 16, 1024]))
            if rng.random() < 0.5:      # the same image in other intensity units (exact: powers of two, 2^-60..2^60)
                unit = 2.0 ** rng.randint(-60, 60)
                rows = [[v * unit for v in r] for r in rows]
        else:                           # integer (camera) and single-precision pixels
            lo = 0 if dtype.startswith("uint") else -50
            rows = [[float(rng.randint(lo, 200)) for _ in range(shape[1])] for _ in range(shape[0])]
        tot = sum(Fraction(v) for r in rows for v in r)
        mean_abs = sum(abs(Fraction(v)) for r in rows for v in r) / (shape[0] * shape[1])
        if abs(tot) < mean_abs / 16 or tot == 0:
            ctx.count("normalize:skipped-illconditioned")
            continue  # sum ~ 0: the property assumes a non-zero sum; cancellation is excluded by the generator
        sp = rng.choice([1.0, 0.5, 0.125, 0.1])
        multichannel = dtype is None and rng.random() < 0.15
        if multichannel:
            cols = ["red", "green"]
            arr = np.array([rows, [[v * 2 + v for v in r] for r in rows]], dtype=float).transpose(1, 2, 0)[None]
            im = data_grid(arr, spacing=sp, name="mc", extra_dims={"illumination": cols}, **META)
            flat_in = [float(v) for v in im.values.ravel()]
        else:
            im = mk(rows, sp, origin=(dy(rng, -4, 4), dy(rng, -4, 4)) if rng.random() < 0.3 else None, dtype=dtype)
            flat_in = [v for r in rows for v in r]
        scale = rand_scale(rng) if rng.random() < 0.75 else dy(rng, 0.25, 64, 2)
        data = dict(kind="normalize", values=flat_in, scale=scale, dtype=dtype)
        ctx.explored += 1
        try:
            out = normalize(im)
            n2 = normalize(out)
            n3 = normalize(im * scale)
        except Exception as e:  # noqa  - a valid image (sum != 0) must be normalised, whatever its units
            ctx.violation("normalize:raises", "normalize raised %s on a valid image (sum %.3g, rescaled by %.3g): %s" % (
                type(e).__name__, float(tot), scale, str(e)[:120]), data)
            continue
        flat = [float(v) for v in out.values.ravel()]
        if nonfinite(ctx, "normalize", [flat], dict(data, got=repr(flat))):
            continue
        ctx.count("normalize:%s" % ("multichannel" if multichannel else dtype if dtype else
                                    "%dx%d" % shape if shape[0] * shape[1] <= 4 else "grid"))
        ctx.count("normalize:unit-decade-%+03d" % (int(math.floor(math.log10(float(mean_abs)) / 6)) * 6))
        ctx.nontriv(("norm", shape, multichannel, dtype))
        exprs.append("qlist_close %s (normalize QO %s) %s" % ("tol32" if dtype == "float32" else "tol", ql(flat_in), ql(flat)))
        metas.append(dict(kind="corr-normalize", values=flat_in, impl=flat, dtype=dtype))
        # direct predicates on the implementation
        dtol = 1e-5 if dtype == "float32" else 1e-12
        m = float(out.values.astype(float).mean())
        bad = None
        if out.shape != im.shape:
            bad = "shape changed"
        elif abs(m - 1) > dtol:
            bad = "mean of normalized image is %r" % m
        elif float(abs(n2 - out).max()) > dtol * float(abs(out).max()):
            bad = "not idempotent"
        elif float(abs(n3 - out).max()) > dtol * float(abs(out).max()):
            bad = "not invariant to rescaling by %r" % scale
        if bad:
            ctx.violation("normalize:identity", "normalize: " + bad, data)
        md = meta_diff(im, out)
        if md:
            ctx.violation("metadata:normalize", "normalize does not keep metadata: " + md, dict(kind="meta", op="normalize", values=flat_in))
        if k < 1:
            ctx.sample(dict(op="normalize", values=flat_in[:6], result=flat[:6]))
    finish_cases(ctx, "C18n", exprs, metas, lambda m: "corr:normalize",
                 lambda m: "model and implementation disagree on normalize")


# --- zero_filter / bg_correct -----------------------------------------------------
def zf_call(rows, xs, ys):
    return "zero_filter QO %s %s (getc QO %s) (getc QO %s) (getpix QO %s)" % (
        natlit(len(rows)), natlit(len(rows[0])), ql(xs), ql(ys), rowsl(rows))


def run_zf(rows, sp, xs=None, ys=None, dtype=None):
    """returns (result rows | None for BadImage, input image, output image)"""
    from holopy.core.process import zero_filter
    from holopy.core.errors import BadImage
    im = mk(rows, sp, dtype=dtype)
    if xs is not None:
        im = im.assign_coords(x=xs, y=ys)
    try:
        out = zero_filter(im)
    except BadImage:
        return None, im, None
    return [[float(v) for v in r] for r in out.values[0]], im, out


def zf_direct(ctx, rows, res, sp_uniform, tag, dtype=None):
    """the property's own clauses, evaluated on the implementation's result"""
    nx, ny = len(rows), len(rows[0])
    dead = [(i, j) for i in range(nx) for j in range(ny) if not rows[i][j] > 0]
    corners = {(0, 0), (0, ny - 1), (nx - 1, 0), (nx - 1, ny - 1)}
    ctx.explored += 1
    data = dict(kind="zero_filter", rows=rows, result=res, dtype=dtype)
    if any(d in corners for d in dead):
        if res is not None:
            ctx.violation("zero_filter:corner", "zero_filter accepted an image with a dead corner", data)
        return
    if res is None:
        return  # refusals beyond dead corners are decided by the model correspondence
    for i in range(nx):
        for j in range(ny):
            if rows[i][j] > 0 and res[i][j] != rows[i][j]:
                ctx.violation("zero_filter:positive", "zero_filter changed a positive pixel", dict(data, at=[i, j]))
                return
    if not sp_uniform:
        return
    for (i, j) in dead:
        nb = [(i - 1, j), (i + 1, j), (i, j - 1), (i, j + 1)]
        nbin = [(a, b) for a, b in nb if 0 <= a < nx and 0 <= b < ny]
        if any((a, b) in dead for a, b in nbin):
            continue
        want = None
        if len(nbin) == 4:
            want = sum(rows[a][b] for a, b in nbin) / 4
        elif len(nbin) == 3 and nx > 1 and ny > 1:
            along = [(a, b) for a, b in nbin if ((a == i) if i in (0, nx - 1) else (b == j))]
            if len(along) == 2:
                want = sum(rows[a][b] for a, b in along) / 2
        if want is not None and abs(res[i][j] - want) > 1e-12 * max(1.0, abs(want)):
            ctx.violation("zero_filter:neighbours", "isolated dead pixel is not replaced by the mean of its neighbours",
                          dict(data, at=[i, j], want=want, got=res[i][j]))
            return


def stage_zero_filter(ctx):
    rng = ctx.subrng("zf")
    exprs, metas = [], []

    def one(rows, sp, nonuni=False, exact=False, tag="rand", dtype=None):
        nx, ny = len(rows), len(rows[0])
        if nonuni:
            xs = list(itertools.accumulate([dy(rng, 0.25, 2, 2) for _ in range(nx)]))
            ys = list(itertools.accumulate([dy(rng, 0.25, 2, 2) for _ in range(ny)]))
            res, im, out = run_zf(rows, sp, xs, ys, dtype=dtype)
        else:
            xs = [i * sp for i in range(nx)]
            ys = [j * sp for j in range(ny)]
            res, im, out = run_zf(rows, sp, dtype=dtype)
        if nonfinite(ctx, "zero_filter", res, dict(kind="zero_filter", rows=rows, result=repr(res))):
            return res
        cmpf = "oimg_exact" if exact else "oimg_close"
        lit = "None" if res is None else "(Some %s)" % rowsl(res)
        exprs.append("%s (%s) %s" % (cmpf, zf_call(rows, xs, ys), lit))
        metas.append(dict(kind="corr-zero_filter", rows=rows, xs=xs, ys=ys, impl=res, exact=exact, stream=tag, dtype=dtype))
        ctx.count("zero_filter:%s" % tag)
        ctx.count("zero_filter:%s" % ("refused" if res is None else "ok"))
        zf_direct(ctx, rows, res, not nonuni, tag, dtype)
        if out is not None:
            md = meta_diff(im, out)
            if md:
                ctx.violation("metadata:zero_filter", "zero_filter does not keep metadata: " + md,
                              dict(kind="meta", op="zero_filter", rows=rows))
        return res

    # (a) every single dead-pixel position on small images (exact: gaps of two pixels, power-of-two spacing)
    shapes = [(3, 3), (3, 4), (2, 5), (1, 4), (4, 1)] if ctx.tier != "thorough" else \
        [(a, b) for a in range(1, 8) for b in range(1, 8)]
    for shape in shapes:
        base = gen_values(rng, shape)
        sp = rng.choice([1.0, 0.5, 0.125])
        for i in range(shape[0]):
            for j in range(shape[1]):
                rows = [list(r) for r in base]
                rows[i][j] = rng.choice([0.0, 0.0, -1.5])
                one(rows, sp, exact=True, tag="single")
                ctx.nontriv(("zf1", shape, i, j))
    # (b) several dead pixels: runs, L-shapes, whole rows; non power-of-two spacing; non-uniform coordinates
    for k in range(ctx.n(80, 1500)):
        shape = gen_shape(rng, 2, 7)
        rows = gen_values(rng, shape)
        nd = rng.choice([0, 1, 2, 2, 3, 4, 6])
        for _ in range(nd):
            i, j = rng.randrange(shape[0]), rng.randrange(shape[1])
            if rng.random() < 0.85 and (i in (0, shape[0] - 1)) and (j in (0, shape[1] - 1)):
                continue  # dead corners only sometimes
            rows[i][j] = rng.choice([0.0, -2.0])
            if rng.random() < 0.4 and j + 1 < shape[1] - 1:
                rows[i][j + 1] = 0.0
            if rng.random() < 0.3 and i + 1 < shape[0] - 1:
                rows[i + 1][j] = 0.0
        nonuni = rng.random() < 0.2
        res = one(rows, rng.choice([1.0, 0.5, 0.1, 3.0]), nonuni=nonuni, tag="nonuniform" if nonuni else "multi")
        if res is not None and nd:
            ctx.nontriv(("zfm", k))
        if k < 1:
            ctx.sample(dict(op="zero_filter", rows=rows, result=res))
    # (c) integer (camera) and single-precision pixel types: an isolated interior / edge dead pixel whose neighbour mean is
    #     NOT an integer (the model's prediction is the exact rational mean), and a few multi-dead images
    for k in range(ctx.n(30, 300)):
        dtype = DTYPES[k % len(DTYPES)]
        shape = (rng.randint(3, 7), rng.randint(3, 7))
        rows = [[float(rng.randint(1, 200)) for _ in range(shape[1])] for _ in range(shape[0])]
        where = ["interior", "edge", "multi"][(k // len(DTYPES)) % 3]
        if where == "interior":
            i, j = rng.randint(1, shape[0] - 2), rng.randint(1, shape[1] - 2)
            nb = [(i - 1, j), (i + 1, j), (i, j - 1), (i, j + 1)]
        elif where == "edge":
            if rng.random() < 0.5:
                i, j = rng.choice([0, shape[0] - 1]), rng.randint(1, shape[1] - 2)
                nb = [(i, j - 1), (i, j + 1)]
            else:
                i, j = rng.randint(1, shape[0] - 2), rng.choice([0, shape[1] - 1])
                nb = [(i - 1, j), (i + 1, j)]
        else:
            i, j = rng.randint(0, shape[0] - 1), rng.randint(1, shape[1] - 2)
            nb = []
            rows[(i + 2) % shape[0]][j] = 0.0 if shape[0] > 3 or (i + 2) % shape[0] != i else rows[(i + 2) % shape[0]][j]
        rows[i][j] = 0.0
        if nb and sum(rows[a][b] for a, b in nb) % len(nb) == 0:
            rows[nb[0][0]][nb[0][1]] += 1.0      # make the neighbour mean fractional (x.25 / x.5 / x.75)
        res = one(rows, rng.choice([1.0, 0.5, 0.125]), tag="dtype", dtype=dtype)
        ctx.count("zero_filter:dtype-%s" % dtype)
        ctx.nontriv(("zfd", dtype, where, k))
    finish_cases(ctx, "C18z", exprs, metas, lambda m: "corr:zero_filter:%s" % m["stream"],
                 lambda m: "model and implementation disagree on zero_filter (%s dead-pixel stream)" % m["stream"])


def stage_bg_correct(ctx):
    import numpy as np
    from holopy.core.process import bg_correct
    from holopy.core.errors import BadImage
    rng = ctx.subrng("bg")
    exprs, metas = [], []
    for k in range(ctx.n(80, 1000)):
        shape = (rng.randint(2, 6), rng.randint(2, 6))   # get_spacing needs two pixels per axis
        sp = rng.choice([1.0, 0.5, 0.1])
        use_df = rng.random() < 0.6
        dtype = rng.choice(DTYPES) if rng.random() < 0.35 else None
        mode = rng.random()
        if dtype is None:
            raw = gen_values(rng, shape, 0, 16)
            bg = gen_values(rng, shape, 2, 16)
            df = gen_values(rng, shape, 0, 2, 3) if use_df else [[0.0] * shape[1] for _ in range(shape[0])]
        else:
            # integer camera frames (and float32): integer counts, raw >= df and bg >= df so that unsigned
            # subtraction never wraps; a dead background pixel is bg == df
            shape = (rng.randint(3, 6), rng.randint(3, 6))
            df = [[float(rng.randint(0, 3)) if use_df else 0.0 for _ in range(shape[1])] for _ in range(shape[0])]
            raw = [[d + rng.randint(0, 200) for d in r] for r in df]
            bg = [[d + rng.randint(2, 200) for d in r] for r in df]
            if mode >= 0.35 and mode <= 0.9 and rng.random() < 0.6:
                mode = 0.0
        if mode < 0.35 and shape[0] * shape[1] > 1:      # dead background pixel(s): bg == df or bg < df
            for _ in range(rng.choice([1, 1, 2])):
                i, j = rng.randrange(shape[0]), rng.randrange(shape[1])
                if dtype is not None and rng.random() < 0.7 and (i in (0, shape[0] - 1)) and (j in (0, shape[1] - 1)):
                    i = 1       # mostly away from the corners, so that the interpolated value is observed
                bg[i][j] = df[i][j] - (rng.choice([0.0, 0.0, 0.5]) if dtype is None else 0.0)
        bshape, bsp, dshape = shape, sp, shape
        if mode > 0.9:    # guard: different shape or spacing
            which = rng.choice(["shape", "spacing", "dfshape"] if use_df else ["shape", "spacing"])
            if which == "shape":
                bshape = (shape[0] + 1, shape[1])
                bg = bg + [bg[-1]]
            elif which == "spacing":
                bsp = sp * 2
            else:
                dshape = (shape[0], shape[1] + 1)
                df = [r + [0.0] for r in df]
        raw_sd = rng.choice([None, 0.0625])
        bg_sd = rng.choice([None, 0.125])
        imr = mk(raw, sp, name="raw", noise_sd=raw_sd, dtype=dtype)
        imb = mk(bg, bsp, name="bg", noise_sd=bg_sd, dtype=dtype)
        imd = mk(df, sp, name="df", dtype=dtype) if use_df else None
        try:
            out = bg_correct(imr, imb, imd)
            res = [[float(v) for v in r] for r in out.values[0]]
        except BadImage:
            out, res = None, None
        if nonfinite(ctx, "bg_correct", res, dict(kind="bg", raw=raw, bg=bg, df=df, dtype=dtype, got=repr(res))):
            continue
        guard = "bg_guard QO %s %s %s %s %s %s" % (
            listlit([zlit(1), zlit(shape[0]), zlit(shape[1])]), listlit([zlit(1), zlit(bshape[0]), zlit(bshape[1])]),
            listlit([zlit(1), zlit(dshape[0]), zlit(dshape[1])]), ql([sp, sp]), ql([bsp, bsp]), ql([sp, sp]))
        if bshape == shape and dshape == shape:
            call = "bg_correct QO (%s) %s %s (getc QO %s) (getc QO %s) (getpix QO %s) (getpix QO %s) (getpix QO %s)" % (
                guard, natlit(shape[0]), natlit(shape[1]), ql([i * sp for i in range(shape[0])]),
                ql([j * sp for j in range(shape[1])]), rowsl(raw), rowsl(bg), rowsl(df))
        else:
            call = "bg_correct QO (%s) 0%%nat 0%%nat (getc QO []) (getc QO []) (getpix QO []) (getpix QO []) (getpix QO [])" % guard
        lit = "None" if res is None else "(Some %s)" % rowsl(res)
        exprs.append("%s (%s) %s" % ("oimg_close32" if dtype == "float32" else "oimg_close", call, lit))
        metas.append(dict(kind="corr-bg_correct", what="values", raw=raw, bg=bg, df=df if use_df else None,
                          spacing=[sp, bsp], impl=res, dtype=dtype))
        ctx.count("bg_correct:%s" % ("refused" if res is None else "ok"))
        if dtype:
            ctx.count("bg_correct:dtype-%s" % dtype)
        ctx.nontriv(("bg", k))
        if out is not None:
            got_sd = out.attrs.get("noise_sd")
            got_sd = None if got_sd is None else float(got_sd)
            exprs.append("oq_close (bg_noise %s %s) %s" % (
                "None" if raw_sd is None else "(Some %s)" % qlit(raw_sd),
                "None" if bg_sd is None else "(Some %s)" % qlit(bg_sd),
                "None" if got_sd is None else "(Some %s)" % qlit(got_sd)))
            metas.append(dict(kind="corr-bg_correct", what="noise_sd", raw_sd=raw_sd, bg_sd=bg_sd, impl=got_sd))
            # direct: pixelwise formula wherever the background is alive; metadata of raw (noise_sd filled from bg)
            ctx.explored += 1
            for i in range(shape[0]):
                for j in range(shape[1]):
                    den = bg[i][j] - df[i][j]
                    if den > 0:
                        want = (raw[i][j] - df[i][j]) / den
                        if abs(res[i][j] - want) > (1e-5 if dtype == "float32" else 1e-12) * max(1.0, abs(want)):
                            ctx.violation("bg_correct:formula", "bg_correct is not (raw-df)/(bg-df) at a live pixel",
                                          dict(kind="bg", raw=raw, bg=bg, df=df, dtype=dtype, at=[i, j], want=want, got=res[i][j]))
            ref = imr if raw_sd is not None else mk(raw, sp, name="raw", noise_sd=bg_sd, dtype=dtype)
            md = meta_diff(ref, out)
            if md:
                ctx.violation("metadata:bg_correct", "bg_correct does not keep raw's metadata: " + md,
                              dict(kind="meta", op="bg_correct", raw=raw))
        # image divided by itself: exactly 1
        if all(v > 0 for r in raw for v in r):
            ctx.explored += 1
            self1 = bg_correct(imr, imr)
            if not bool((self1.values == 1.0).all()):
                ctx.violation("bg_correct:self", "an image divided by itself is not exactly 1",
                              dict(kind="bg-self", raw=raw, got=self1.values.tolist()))
        if k < 1:
            ctx.sample(dict(op="bg_correct", raw=raw, bg=bg, df=df, result=res))
    finish_cases(ctx, "C18b", exprs, metas, lambda m: "corr:bg_correct:%s" % m["what"],
                 lambda m: "model and implementation disagree on bg_correct (%s)" % m["what"])


# --- subimage -------------------------------------------------------------------------
def crop_case(ctx, exprs, metas, shape, sp, org, center, cshape, tag, dtype=None):
    import numpy as np
    from holopy.core.process import subimage
    nx, ny = shape
    rows = [[10 * i + j + 1 for j in range(ny)] for i in range(nx)]
    im = mk(rows, sp, origin=org, dtype=dtype)
    xs = [float(v) for v in im.x.values]
    ys = [float(v) for v in im.y.values]
    try:
        out = subimage(im, tuple(center), cshape if np.isscalar(cshape) else tuple(cshape))
        res = dict(xs=[float(v) for v in out.x.values], ys=[float(v) for v in out.y.values],
                   pix=[[int(v) for v in r] for r in out.values[0]])
    except (AssertionError, IndexError) as e:
        out, res = None, type(e).__name__
    sh = "(inl %s)" % zlit(cshape) if np.isscalar(cshape) else "(inr %s)" % listlit([zlit(s) for s in cshape])
    call = "subimage 3%%nat (mkC %s %s %s) %s %s" % (ql(xs), ql(ys), zrowsl(rows), ql(center), sh)
    lit = "None" if out is None else "(Some (mkC %s %s %s))" % (ql(res["xs"]), ql(res["ys"]), zrowsl(res["pix"]))
    exprs.append("option_eqb cimg_eqb (%s) %s" % (call, lit))
    metas.append(dict(kind="corr-subimage", shape=shape, spacing=sp, origin=org, center=list(center),
                      crop_shape=cshape, impl=res, stream=tag))
    ctx.count("subimage:%s" % tag)
    if out is None:
        ctx.count("subimage:raises")
        return
    # direct: every retained pixel keeps value and physical coordinates (value 10*i+j+1 encodes the source pixel)
    ctx.explored += 1
    ok = True
    for a, xv in enumerate(res["xs"]):
        for b, yv in enumerate(res["ys"]):
            v = res["pix"][a][b] - 1
            i, j = v // 10, v % 10
            if not (0 <= i < nx and 0 <= j < ny and xs[i] == xv and ys[j] == yv):
                ok = False
    if not ok:
        ctx.violation("subimage:coords", "a retained pixel does not keep its value/physical coordinates",
                      dict(kind="subimage", shape=shape, spacing=sp, origin=org, center=list(center), crop_shape=cshape, impl=res))
    # fitting crop of even size s centred on an integer pixel: exactly s pixels starting at c - s/2
    if np.isscalar(cshape) and cshape % 2 == 0 and len(center) == 2:
        cc = [round(c) for c in center]   # python round = half-even, as np.round
        if all(0 <= c - cshape // 2 and c + cshape // 2 <= n for c, n in zip(cc, (nx, ny))):
            ctx.count("subimage:fits-even")
            ctx.nontriv(("crop", shape, tuple(center), cshape))
            want_x = xs[cc[0] - cshape // 2: cc[0] + cshape // 2]
            want_y = ys[cc[1] - cshape // 2: cc[1] + cshape // 2]
            if res["xs"] != want_x or res["ys"] != want_y:
                ctx.violation("subimage:extent", "fitting even crop is not [c-s/2, c+s/2)",
                              dict(kind="subimage", shape=shape, spacing=sp, origin=org, center=list(center),
                                   crop_shape=cshape, impl=res))
    md = meta_diff(im, out, coords=False)
    if md:
        ctx.violation("metadata:subimage", "subimage does not keep metadata: " + md,
                      dict(kind="meta", op="subimage", shape=shape, center=list(center), crop_shape=cshape))


def stage_subimage(ctx):
    rng = ctx.subrng("crop")
    exprs, metas = [], []

    def axis_cases(n):
        """all (centre, size) on one axis: centres at integers and half-integers (the half-even cases)"""
        out = []
        for s in range(1, n + 2):
            for c2 in range(-1, 2 * n + 2):
                out.append((c2 / 2, s))
        return out

    shapes = [(a, b) for a in range(1, 8) for b in range(1, 8)] if ctx.tier == "thorough" else \
        [(4, 5), (7, 3), (1, 6), (2, 2), (5, 5)]
    for shape in shapes:
        sp = rng.choice([1.0, 0.5, 0.125, 0.1])
        org = (dy(rng, -4, 4), dy(rng, -4, 4)) if rng.random() < 0.5 else None
        ax, ay = axis_cases(shape[0]), axis_cases(shape[1])
        if shape[0] * shape[1] <= 9 and ctx.tier == "thorough":
            pairs = [(a, b) for a in ax for b in ay if a[1] == b[1]]      # full product (scalar shape)
        else:
            rng.shuffle(ay)
            pairs = []
            for k in range(max(len(ax), len(ay))):
                a, b = ax[k % len(ax)], ay[k % len(ay)]
                pairs.append((a, (b[0], a[1])))     # scalar shape: same size on both axes
            # make sure every y-centre is met with every size at least once
            for b in ay:
                cand = [q for q in ax if q[1] == b[1]]
                if cand:
                    pairs.append((rng.choice(cand), b))
        for (cx, s), (cy, _) in pairs:
            crop_case(ctx, exprs, metas, shape, sp, org, (cx, cy), s, "exhaustive-axis")
    # random: non-half fractions, different sizes per axis (3-tuples), wrong arity, out-of-range centres
    for k in range(ctx.n(120, 1500)):
        shape = gen_shape(rng, 1, 7)
        sp = rng.choice([1.0, 0.5, 0.1])
        org = (dy(rng, -4, 4), dy(rng, -4, 4)) if rng.random() < 0.5 else None
        cx, cy = dy(rng, -2, shape[0] + 2, 2), dy(rng, -2, shape[1] + 2, 2)
        r = rng.random()
        dtype = rng.choice(DTYPES) if rng.random() < 0.4 else None     # integer / float32 pixels keep their values too
        if r < 0.5:
            crop_case(ctx, exprs, metas, shape, sp, org, (cx, cy), rng.randint(0, 8), "random-scalar", dtype)
        elif r < 0.8:
            crop_case(ctx, exprs, metas, shape, sp, org, (cx, cy, dy(rng, 0, 3, 1)),
                      (rng.randint(1, 7), rng.randint(1, 7), rng.randint(1, 3)), "random-3tuple", dtype)
        elif r < 0.9:
            crop_case(ctx, exprs, metas, shape, sp, org, (cx, cy), (rng.randint(1, 7), rng.randint(1, 7)), "arity-2tuple-shape")
        else:
            crop_case(ctx, exprs, metas, shape, sp, org, (cx,), rng.randint(1, 4), "arity-1-centre")
    ctx.sample(metas[len(metas) // 2])
    finish_cases(ctx, "C18c", exprs, metas, lambda m: "corr:subimage:%s" % m["stream"],
                 lambda m: "model and implementation disagree on subimage (%s)" % m["stream"])


# --- detrend --------------------------------------------------------------------------------
def stage_detrend(ctx):
    import numpy as np
    from holopy.core.process import detrend
    rng = ctx.subrng("detrend")
    exprs, metas = [], []
    for k in range(ctx.n(40, 500)):
        shape = gen_shape(rng, 1, 7)
        rows = gen_values(rng, shape, -8, 8)
        im = mk(rows, rng.choice([1.0, 0.5, 0.1]))
        out = detrend(im)
        res = [[float(v) for v in r] for r in out.values[0]]
        if nonfinite(ctx, "detrend", res, dict(kind="detrend", rows=rows, got=repr(res))):
            continue
        call = "tabulate %s %s (detrend QOr %s %s (getpix QO %s))" % (
            natlit(shape[0]), natlit(shape[1]), natlit(shape[0]), natlit(shape[1]), rowsl(rows))
        exprs.append("rows_close (%s) %s" % (call, rowsl(res)))
        metas.append(dict(kind="corr-detrend", rows=rows, impl=res))
        ctx.count("detrend:%s" % ("line" if 1 in shape else "grid"))
        ctx.nontriv(("dt", shape, k % 5))
        # direct: an added plane is removed exactly (up to rounding of the least-squares solve)
        a, b, c = dy(rng, -64, 64), dy(rng, -16, 16), dy(rng, -16, 16)
        pl = np.array([[a + b * i + c * j for j in range(shape[1])] for i in range(shape[0])])
        im2 = im + pl[None, :, :]
        im2.attrs = im.attrs
        out2 = detrend(im2)
        scale = max(1.0, float(np.abs(im2.values).max()))
        ctx.explored += 1
        err = float(np.abs(out2.values - out.values).max())
        if err > 1e-11 * scale:
            ctx.violation("detrend:plane", "detrend does not remove an added plane (error %.3g)" % err,
                          dict(kind="detrend", rows=rows, plane=[a, b, c], err=err))
        md = meta_diff(im, out)
        if md:
            ctx.violation("metadata:detrend", "detrend does not keep metadata: " + md, dict(kind="meta", op="detrend", rows=rows))
        if k < 1:
            ctx.sample(dict(op="detrend", rows=rows, result=res))
    finish_cases(ctx, "C18d", exprs, metas, lambda m: "corr:detrend",
                 lambda m: "model and implementation disagree on detrend")


# --- Accumulator ------------------------------------------------------------------------------
def stage_accumulator(ctx):
    import numpy as np
    from holopy.core.io.io import Accumulator
    rng = ctx.subrng("acc")
    exprs, metas = [], []
    for k in range(ctx.n(80, 1000)):
        n = rng.choice([0, 1, 1, 2, 3, 5, 8, 13])
        kind = rng.choice(["scalar", "array", "image"])
        npx = 1 if kind == "scalar" else 3
        xs = [[dy(rng, -8, 64) for _ in range(npx)] for _ in range(n)]
        if rng.random() < 0.15 and n > 1:
            xs = [list(xs[0]) for _ in range(n)]     # constant stream: variance exactly 0
        acc = Accumulator()
        for x in xs:
            if kind == "scalar":
                acc.push(x[0])
            elif kind == "array":
                acc.push(np.array(x))
            else:
                acc.push(mk([x], 0.5))
        m, s = acc.mean(), acc.std()
        mv = [float(v) for v in np.ravel(getattr(m, "values", m))] if n else [float(m)] * npx
        sv = None if s is None else [float(v) for v in np.ravel(getattr(s, "values", s))]
        ctx.count("accumulator:%s" % kind)
        ctx.count("accumulator:n=%d" % n)
        ctx.nontriv(("acc", n, kind))
        for p in range(npx):
            seq = [x[p] for x in xs]
            varlit = "None" if sv is None else "(Some %s)" % qlit(Fraction(sv[p]) ** 2)   # sqrt oracle: s*s
            exprs.append("(let a := push_all QOr %s in qclose tol (acc_mean a) %s && oq_close (acc_var QOr a) %s)" % (
                ql(seq), qlit(mv[p]), varlit))
            metas.append(dict(kind="corr-accumulator", pushes=seq, impl_mean=mv[p], impl_std=None if sv is None else sv[p]))
        if n == 0:
            continue
        # direct: equals the batch values, whatever the order
        ctx.explored += 1
        A = np.array(xs)
        bm, bs = A.mean(axis=0), A.std(axis=0)
        scale = max(1.0, float(np.abs(A).max()))
        perm = list(xs)
        rng.shuffle(perm)
        acc2 = Accumulator()
        for x in perm:
            acc2.push(np.array(x))
        bad = None
        if np.abs(np.array(mv) - bm).max() > 1e-12 * scale or np.abs(np.array(sv) - bs).max() > 1e-9 * scale:
            bad = "running mean/std differ from the batch values"
        elif np.abs(acc2.mean() - bm).max() > 1e-12 * scale or np.abs(acc2.std() - bs).max() > 1e-9 * scale:
            bad = "running mean/std depend on the order of pushes"
        if bad:
            ctx.violation("accumulator:batch", bad, dict(kind="accumulator", pushes=xs, order=perm, mean=mv, std=sv))
        # queried after EVERY push (a running display): each answer equals the batch value of what was pushed so far
        acc3 = Accumulator()
        for j, x in enumerate(xs):
            acc3.push(np.array(x))
            mj, sj = acc3.mean(), acc3.std()
            Aj = np.array(xs[:j + 1])
            if np.abs(np.asarray(mj) - Aj.mean(axis=0)).max() > 1e-12 * scale or np.abs(np.asarray(sj) - Aj.std(axis=0)).max() > 1e-9 * scale:
                ctx.violation("accumulator:interleaved", "mean()/std() queried after push number %d (and after every earlier push) differ from "
                              "the batch values of the data pushed so far" % (j + 1),
                              dict(kind="accumulator", pushes=xs, upto=j + 1, mean=np.asarray(mj).tolist(), std=np.asarray(sj).tolist()))
                break
        if kind == "image":
            md = meta_diff(mk([xs[0]], 0.5), acc.mean())
            if md:
                ctx.violation("metadata:accumulator", "accumulated mean image loses metadata: " + md,
                              dict(kind="meta", op="accumulator", pushes=xs))
        if k < 1:
            ctx.sample(dict(op="accumulator", pushes=xs, mean=mv, std=sv))
    finish_cases(ctx, "C18a", exprs, metas, lambda m: "corr:accumulator",
                 lambda m: "model and implementation disagree on Accumulator mean/std")


# --- centre finder (exploration only) and make_center_priors (arithmetic correspondence) --------------
def gen_hologram(rng):
    from holopy.scattering import Sphere, calc_holo
    from holopy.core.metadata import detector_grid
    npx = rng.randint(60, 160)
    npy = npx if rng.random() < 0.5 else rng.randint(60, 160)
    sp = rng.choice([0.08, 0.1, 0.12, 0.15])
    fx, fy = rng.uniform(0.2, 0.8), rng.uniform(0.2, 0.8)
    cx, cy = fx * (npx - 1) * sp, fy * (npy - 1) * sp
    r, n, z = rng.uniform(0.3, 1.0), rng.uniform(1.4, 1.65), rng.uniform(5, 20)
    par = dict(npx=npx, npy=npy, spacing=sp, center=[cx, cy, z], r=r, n=n)
    holo = calc_holo(detector_grid((npx, npy), sp), Sphere(n=n, r=r, center=(cx, cy, z)), medium_index=1.33,
                     illum_wavelen=0.66, illum_polarization=(1, 0))
    return holo, par


def rescaled(holo, unit):
    if unit == 1.0:
        return holo
    out = holo * unit
    out.attrs = holo.attrs
    out.name = holo.name
    return out


def center_error(holo, par):
    from holopy.core.process import center_find
    c = center_find(holo)
    sp = par["spacing"]
    return [float(c[0]), float(c[1])], max(abs(float(c[0]) - par["center"][0] / sp), abs(float(c[1]) - par["center"][1] / sp))


def stage_center(ctx):
    import numpy as np
    from holopy.core.prior import make_center_priors
    from holopy.core.process import center_find
    rng = ctx.subrng("center")
    exprs, metas = [], []
    worst = 0.0
    nprior = ctx.n(6, 40)
    for k in range(ctx.n(30, 300)):
        holo, par = gen_hologram(rng)
        # the same hologram in other intensity units (2 of 3): 2^-60..2^60, 1e-12, 1e12
        par["unit"] = rand_scale(rng) if k % 3 else 1.0
        holo = rescaled(holo, par["unit"])
        ctx.explored += 1
        try:
            found, err = center_error(holo, par)
        except Exception as e:  # noqa
            ctx.violation("center_find:raises", "center_find raised %s on a computed hologram rescaled by %.3g: %s" % (
                type(e).__name__, par["unit"], str(e)[:120]), dict(kind="center", par=par))
            continue
        worst = max(worst, err)
        ctx.count("center_find:unit-%s" % ("1" if par["unit"] == 1.0 else "small" if par["unit"] < 1 else "large"))
        ctx.count("center_find:detector-%d" % (par["npx"] // 40 * 40))
        ctx.nontriv(("cf", k))
        if not err <= 1.0:
            ctx.violation("center_find:accuracy", "center_find is off by %.2f pixels on a computed single-sphere hologram" % err,
                          dict(kind="center", par=par, found=found, err=err))
        if k >= nprior:
            continue
        # make_center_priors arithmetic (origin shifted so that the + [x0, y0] term is exercised)
        org = (dy(rng, -8, 8), dy(rng, -8, 8))
        h2 = holo.assign_coords(x=holo.x + org[0], y=holo.y + org[1])
        unc = rng.choice([1, 1, 2, 0.5])
        zre = rng.choice([5, 5, 2])
        cf = center_find(h2)
        pri = make_center_priors(h2, z_range_extents=zre, xy_uncertainty_pixels=unc)
        xs, ys = [float(v) for v in h2.x.values], [float(v) for v in h2.y.values]
        spx, spy = xs[1] - xs[0], ys[1] - ys[0]
        got = [float(pri[0].mu), float(pri[0].sd), float(pri[1].mu), float(pri[1].sd),
               float(pri[2].lower_bound), float(pri[2].upper_bound)]
        e = ("(let '(mx, sx) := center_prior QO %s %s %s %s in let '(my, sy) := center_prior QO %s %s %s %s in "
             "let '(z0, z1) := z_range QO %s %s %s in qlist_close tol [mx; sx; my; sy; z0; z1] %s)") % (
            qlit(float(cf[0])), qlit(spx), qlit(xs[0]), qlit(unc), qlit(float(cf[1])), qlit(spy), qlit(ys[0]), qlit(unc),
            ql(xs), ql(ys), qlit(zre), ql(got))
        exprs.append(e)
        metas.append(dict(kind="corr-center-prior", par=par, origin=org, center_find=[float(cf[0]), float(cf[1])],
                          unc=unc, zre=zre, impl=got))
        # direct: with the default one-pixel uncertainty the truth lies within one sd of the prior mean
        ctx.explored += 1
        tx, ty = par["center"][0] + org[0], par["center"][1] + org[1]
        if abs(got[0] - tx) > max(unc, 1) * spx * (1 + 1e-9) or abs(got[2] - ty) > max(unc, 1) * spy * (1 + 1e-9):
            ctx.violation("center_prior:covers", "default centre prior is more than one pixel from the true centre",
                          dict(kind="center-prior", par=par, origin=org, impl=got))
        # z_range_units overrides
        pz = make_center_priors(h2, z_range_units=(1.5, 7.25))
        if (float(pz[2].lower_bound), float(pz[2].upper_bound)) != (1.5, 7.25):
            ctx.violation("center_prior:zunits", "z_range_units is not used verbatim", dict(kind="center-prior-z", par=par))
    ctx.notes.append("center_find worst error over %d holograms: %.3f px (bound 1.0)" % (ctx.n(30, 300), worst))
    ctx.hist["center_find:worst_error_millipixel"] = int(worst * 1000)
    finish_cases(ctx, "C18p", exprs, metas, lambda m: "corr:center_prior",
                 lambda m: "model and implementation disagree on make_center_priors arithmetic")


# ------------------------------------------------------------------------------------------
# source tie: Accumulator.push as written now, translated and proved equal to the model

SRC_ITEMS = [dict(file="holopy/core/io/io.py", qualname="Accumulator.push", name="push_src", rettype="R * R * R",
                  params=[("x", "R")], state=["_n", "_running_mean", "_running_var"]),
             dict(file="holopy/core/process/img_proc.py", qualname="(header)", name="asum",
                  fn=lambda repo: __import__("harness.lib.pyarr", fromlist=["x"]).HEADER),
             dict(file="holopy/core/process/img_proc.py", qualname="normalize", name="normalize_src",
                  fn=lambda repo: __import__("harness.lib.pyarr", fromlist=["x"]).translate_elementwise_return(
                      repo, "holopy/core/process/img_proc.py", "normalize", "normalize_src", [("image", "R")], ["image"],
                      passthrough={"copy_metadata": 1}, size_attrs={"image.size"}))]


def stage_srctie(ctx):
    from harness.lib import srctie
    ok = srctie.run(ctx, "C18", "From Coq Require Import Permutation Lia Psatz.\nFrom HV Require Import C18.Model C18.Lemmas C18.Props.\n", SRC_ITEMS)
    ctx.count("srctie:%s" % ("ok" if ok else "broken"))


def run(ctx):
    ctx.rule = ("pixel types float64 / float32 / uint8 / uint16 / int32 / int64; intensity units over 2^-60..2^60, 1e-12, 1e12 "
                "(normalize inputs and rescalings, holograms for the centre finder); "
                "dyadic images 1x1..7x7 (incl. 1xN, Nx1, multi-channel) with origin/spacing varied; every single dead-pixel "
                "position + multi-dead/runs/non-uniform coordinates; crops: every integer and half-integer centre x every size "
                "per axis (incl. non-fitting, wrap-around, wrong arity); push streams of 0-13 scalars/arrays/images; computed "
                "single-sphere holograms 60-160 px, centre in the central 60%, r 0.3-1.0, n 1.4-1.65, z 5-20; non-trivial = "
                "distinct (shape, dead position) / fitting even crop / non-refused multi-dead image / distinct stream")
    ctx.clauses_proved = [
        "normalize: mean exactly 1, idempotent, invariant to any non-zero rescaling (premise: pixel sum != 0) "
        "[normalize_mean1, normalize_idem, normalize_scale_inv]",
        "bg_correct = (raw-df)/(bg-df) pixelwise wherever bg-df > 0, whole image when all are; image/itself = exactly 1; "
        "refused on a shape/spacing mismatch and on a dead corner [bg_formula, bg_formula_pixel, bg_self_one, bg_refusals]",
        "zero_filter: positive pixels untouched; isolated interior dead pixel -> mean of its 4 neighbours; isolated edge dead "
        "pixel -> mean of its 2 neighbours along the edge (all four edges); dead corner refused; result image = per-pixel "
        "values (hypothesis made explicit: the dead pixel's coordinate is midway between its neighbours', e.g. uniform grid) "
        "[zf_positive_kept, zf_isolated_interior, zf_edge, zf_corner_rejected, zero_filter_image]",
        "subimage: for EVERY extent (fitting, clipped, negative = wrapped) each retained pixel keeps its value and both "
        "physical coordinates and the result is well-formed; every centre (any rational) x every even size that fits gives "
        "exactly s pixels from round_half_even(c)-s/2; odd sizes give s-1 or s+1; np.round model is a nearest integer, even "
        "at ties [crop_values_coords, crop_fits_even, crop_extent_even_odd, round_half_even_spec, subimage_arguments]",
        "detrend removes any added plane at every pixel for every image size, and sends a plane to 0: for any 1-D detrender "
        "that is additive, local and annihilates affine sequences, and for the least-squares line residual which is proved to "
        "be one for every length [detrend_plane_oracle, lsq_detrender_meets_oracle_hyps, detrend_plane]",
        "Welford accumulator: mean and variance equal the batch values for every non-empty push sequence, hence independent "
        "of the order of pushes; mean 0 / std None when nothing was pushed "
        "[welford_equals_batch, welford_order_independent, welford_nothing_pushed]",
        "make_center_priors: mean = centre*spacing + origin, sd = uncertainty*spacing, truth within one sd whenever the centre "
        "finder is within `uncertainty` pixels; extent = span + mean step [center_prior_arith, extent_is_span_plus_mean_step]",
        "the executed rational instances (QO; QOr = reduced fractions) compute the Q2R-preimage of the R instance for every "
        "model function, unconditionally [executed_instances_are_homomorphic, model_agrees_on_Q]"]
    ctx.clauses_explored = [
        "center_find locates the centre of a computed single-sphere hologram within one pixel (heuristic; no theorem possible; "
        "sampled on computed holograms)",
        "metadata (attrs, name, dims, coordinates) kept by normalize/detrend/zero_filter/bg_correct/subimage/Accumulator on "
        "the implementation (sampled; xarray attrs handling is not modelled)",
        "float rounding: identities hold on the implementation to 1e-12 relative (normalize, bg, zero_filter), 1e-11 (detrend)"]
    ctx.trusted += ["oracle: numpy sqrt in Accumulator.std (enters as the relation s*s = var; sampled each run)",
                    "oracle: scipy.signal.detrend(type='linear') = residual of the least-squares line (hypotheses of "
                    "detrend_plane_oracle proved for the model's dt_seq; scipy's agreement with dt_seq sampled each run)",
                    "oracle: xarray interpolate_na / numpy.interp = linear interpolation in the coordinate between the nearest "
                    "valid neighbours, no extrapolation (correspondence sampled)",
                    "oracle: numpy.round = round-half-even, python slice semantics (model rhe/pyslice; correspondence exact)",
                    "not modelled: scipy gaussian_filter, sobel and the Hough vote inside center_find (explored only)"]
    def timed(tag, fn, *a):
        t = time.time()
        guarded(ctx, tag, fn, *a)
        ctx.notes.append("stage %s: %.1f s" % (tag, time.time() - t))

    ctx.trusted.append("source translator harness/lib/pysrc.py (python floats / ints read as reals; see its docstring) for the source tie")
    ctx.clauses_proved.append("source tie: Accumulator.push of core/io/io.py, translated from the current source text on every run as a state "
                              "transformer, is proved equal to the model's push; Welford = batch mean / variance and order independence restated "
                              "for the translated source; img_proc.normalize (numpy vector code read elementwise by pyarr) likewise proved "
                              "equal to the model's normalize for every pixel list, mean 1 and scale invariance restated for the source")
    timed("prove", ctx.prove)
    timed("source-tie", stage_srctie, ctx)
    t = time.time()
    boot.boot()
    ctx.notes.append("stage boot: %.1f s" % (time.time() - t))
    timed("normalize", stage_normalize, ctx)
    timed("zero_filter", stage_zero_filter, ctx)
    timed("bg_correct", stage_bg_correct, ctx)
    timed("subimage", stage_subimage, ctx)
    timed("detrend", stage_detrend, ctx)
    timed("accumulator", stage_accumulator, ctx)
    timed("center", stage_center, ctx)


def replay(ctx, data):
    """re-run the stored failing case on the current tree"""
    boot.boot()
    d = data["data"]
    kind = d.get("kind")
    if kind == "tie":
        ctx.prove()
        stage_srctie(ctx)
    elif kind == "center":
        from holopy.scattering import Sphere, calc_holo
        from holopy.core.metadata import detector_grid
        par = d["par"]
        holo = calc_holo(detector_grid((par["npx"], par["npy"]), par["spacing"]),
                         Sphere(n=par["n"], r=par["r"], center=tuple(par["center"])), medium_index=1.33,
                         illum_wavelen=0.66, illum_polarization=(1, 0))
        holo = rescaled(holo, par.get("unit", 1.0))
        ctx.explored += 1
        try:
            found, err = center_error(holo, par)
        except Exception as e:  # noqa
            print("replay: center_find raised %s: %s" % (type(e).__name__, e))
            ctx.violation(data["key"], data["what"], d)
            return
        print("replay: center_find=%s true=%s error=%.3f px" % (found, [c / par["spacing"] for c in par["center"][:2]], err))
        if not err <= 1.0:
            ctx.violation(data["key"], data["what"], d)
    elif kind == "zero_filter":
        res, _, _ = run_zf(d["rows"], 1.0, dtype=d.get("dtype"))
        print("replay: zero_filter ->", res)
        zf_direct(ctx, d["rows"], res, True, "replay", d.get("dtype"))
    elif kind == "normalize":
        import numpy as np
        from holopy.core.process import normalize
        im = mk([d["values"]], 1.0, dtype=d.get("dtype"))
        ctx.explored += 1
        try:
            out = normalize(im)
            n3 = normalize(im * d.get("scale", 2.0))
        except Exception as e:  # noqa
            print("replay: normalize raised %s: %s" % (type(e).__name__, e))
            ctx.violation(data["key"], data["what"], d)
            return
        print("replay: normalize mean=%r idem-err=%.3g scale-err=%.3g" % (
            float(out.values.mean()), float(abs(normalize(out) - out).max()), float(abs(n3 - out).max())))
        tol = 1e-12 * float(abs(out).max())
        if abs(float(out.values.mean()) - 1) > 1e-12 or float(abs(normalize(out) - out).max()) > tol or \
                float(abs(n3 - out).max()) > tol:
            ctx.violation(data["key"], data["what"], d)
    elif kind in ("subimage", "corr-subimage"):
        exprs, metas = [], []
        crop_case(ctx, exprs, metas, tuple(d["shape"]), d.get("spacing", 1.0), d.get("origin"), tuple(d["center"]),
                  d["crop_shape"], "replay")
        print("replay: subimage ->", metas[0]["impl"])
        finish_cases(ctx, "C18c", exprs, metas, lambda m: "corr:subimage:%s" % m["stream"],
                     lambda m: "model and implementation disagree on subimage (%s)" % m["stream"])
    elif kind == "detrend":
        import numpy as np
        from holopy.core.process import detrend
        rows, (a, b, c) = d["rows"], d["plane"]
        im = mk(rows, 1.0)
        pl = np.array([[a + b * i + c * j for j in range(len(rows[0]))] for i in range(len(rows))])
        im2 = im + pl[None, :, :]
        im2.attrs = im.attrs
        err = float(np.abs(detrend(im2).values - detrend(im).values).max())
        ctx.explored += 1
        print("replay: detrend plane-removal error %.3g" % err)
        if err > 1e-11 * max(1.0, float(np.abs(im2.values).max())):
            ctx.violation(data["key"], data["what"], d)
    else:
        print("replay: re-running the whole check with the recorded seed")
        ctx.seed = data.get("seed", ctx.seed)
        run(ctx)

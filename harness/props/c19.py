"""C19 - coordinate conversions and Euler rotations: proof obligations; correspondence of
 * the rotation matrix / rotate_points / composite moves (Q instance of the generic model, run by
   vm_compute on the implementation's own cos/sin values passed as exact rationals),
 * the rotation matrix and the six conversions as R models, evaluated inside Coq by Coq-Interval at the
   exact dyadic inputs the implementation received (branch selection of atan2 / mod 2pi by the
   rewriting lemmas of Lemmas.v);
and direct exploration of the property's own predicates on the implementation."""
import itertools
import math
import warnings
from fractions import Fraction

from harness.lib import boot
from harness.lib.coqrun import qlit, listlit, run_mismatch_cases, eval_files
from harness.lib.ctx import guarded

REQ = "From HV Require Import Common.Generic Common.Cmp C19.Model.\nOpen Scope Q_scope.\n"
IHEAD = """From Coq Require Import ZArith Reals List Lra.
From Interval Require Import Tactic.
From HV Require Import Common.Generic C19.Model C19.Lemmas.
Import ListNotations.
Open Scope R_scope.
(* the harness names the atan2 / mod-2pi branch (it knows the signs); the side condition is still proved
   by lra / interval, and the generic search of Lemmas.v (conv_eval) is the fallback *)
Ltac c19_unf := unfold comp, transform, cart2sph, sph2cart, cart2cyl, cyl2cart, cyl2sph, sph2cyl; cbn [fst snd].
Ltac conv_a L := first [ c19_unf; rewrite L by sidec; interval with (i_prec 80) | conv_eval ].
Ltac conv_am L M := first [ c19_unf; rewrite L by sidec; rewrite M by (split; sidec); interval with (i_prec 80) | conv_eval ].
"""
NAMES = ["cartesian", "spherical", "cylindrical"]
CTOR = {"cartesian": "Cart", "spherical": "Sphr", "cylindrical": "Cyl"}
COMPN = {"cartesian": ["x", "y", "z"], "spherical": ["r", "theta", "phi"], "cylindrical": ["rho", "phi", "z"]}
ISLEN = {"cartesian": [1, 1, 1], "spherical": [1, 0, 0], "cylindrical": [1, 0, 1]}
TWO_PI = 2 * math.pi
JOBS = 10


def dy(rng, lo, hi, bits=6):
    s = 1 << bits
    return rng.randint(int(lo * s), int(hi * s)) / s


def rlit(x):
    """exact literal of a float as a term of type R"""
    fr = Fraction(*float(x).as_integer_ratio()) if not isinstance(x, Fraction) else x
    n, d = fr.numerator, fr.denominator
    if d == 1:
        return "(%d)" % n if n < 0 else "%d" % n
    return "(%d / %d)" % (n, d)


def vq(v):
    return "(%s, %s, %s)" % tuple(qlit(float(x)) for x in v)


def isneg0(x):
    return x == 0 and math.copysign(1.0, x) < 0


# ------------------------------------------------------------------------------------------
# interval runner: each goal is a Prop over R; a goal that does not check is a disagreement

def run_interval(tag, goals, tactic, chunk=70):
    """goals: list of str; tactic: one str or one per goal. Returns (bad_indices, errors)"""
    tacs = tactic if isinstance(tactic, list) else [tactic] * len(goals)
    files = []
    for s in range(0, len(goals), chunk):
        text = IHEAD
        for q, g in enumerate(goals[s:s + chunk]):
            text += ("Goal True. first [ assert (%s) by (%s); idtac \"C19OK %d\" | idtac \"C19BAD %d\" ]. "
                     "exact I. Qed.\n" % (g, tacs[s + q], s + q, s + q))
        files.append(("iv_%04d" % (s // chunk), text))
    res = eval_files(tag, files, jobs=JOBS)
    bad, seen, errors = [], set(), []
    for name, rc, out in res:
        if rc != 0:
            errors.append("%s rc=%d %s" % (name, rc, out[-600:]))
        for line in out.split("\n"):
            if line.startswith("C19OK "):
                seen.add(int(line.split()[1]))
            elif line.startswith("C19BAD "):
                i = int(line.split()[1])
                seen.add(i)
                bad.append(i)
    if len(seen) != len(goals) and not errors:
        errors.append("interval run returned %d of %d verdicts" % (len(seen), len(goals)))
    return bad, errors


# ------------------------------------------------------------------------------------------
# angles

def angle_triples(rng, n, degrees=False):
    hp = math.pi / 2
    special = [0.0, hp, -hp, math.pi, -math.pi, 3 * hp, TWO_PI, 2.0 ** -30, -2.0 ** -30, hp + 2.0 ** -40, 1.0, -2.5]
    if degrees:
        special = [0.0, 90.0, -90.0, 180.0, 270.0, 360.0, 45.0, 30.0, 60.0, -120.0, 2.0 ** -20, 720.0]
    out = []
    for k in range(n):
        t = []
        for q in range(3):
            u = rng.random()
            if u < 0.35:
                t.append(rng.choice(special))
            elif u < 0.85:
                t.append(dy(rng, -400, 400, 4) if degrees else dy(rng, -7, 7, 8))
            else:
                t.append(rng.uniform(-360, 360) if degrees else rng.uniform(-7, 7))
        out.append(tuple(t))
    return out


def leaves(a, b, g, radians=True):
    """the implementation's own primitive values for the six leaves (oracle arguments)"""
    import numpy as np
    if not radians:
        a, b, g = a * (np.pi / 180.), b * (np.pi / 180.), g * (np.pi / 180.)
    return [float(v) for v in (np.cos(a), np.sin(a), np.cos(b), np.sin(b), np.cos(g), np.sin(g))]


def rotm_lit(lv):
    return "(rotM QO %s)" % " ".join(qlit(v) for v in lv)


def check_oracle(ctx, lv, ang):
    for c, s in ((lv[0], lv[1]), (lv[2], lv[3]), (lv[4], lv[5])):
        if abs(Fraction(c) ** 2 + Fraction(s) ** 2 - 1) > Fraction(1, 10 ** 14):
            ctx.violation("oracle:cos-sin", "numpy cos/sin values do not satisfy c^2+s^2=1 to 1e-14",
                          dict(kind="oracle", angles=ang, c=c, s=s))


# ------------------------------------------------------------------------------------------
# stage 1: rotation matrix and rotate_points, Q instance on oracle leaves

def stage_rotation_q(ctx):
    import numpy as np
    from holopy.core.math import rotation_matrix, rotate_points
    rng = ctx.subrng("rotq")
    exprs, metas = [], []
    n = ctx.n(150, 1500)
    trip = [(t, True) for t in angle_triples(rng, n)] + [(t, False) for t in angle_triples(rng, n // 3, True)]
    # the same three NUMBERS read as radians and straight afterwards as degrees (and the other way round): one-factor siblings
    sib = []
    for t in angle_triples(rng, n // 10) + angle_triples(rng, n // 10, True):
        first = rng.random() < 0.5
        sib += [(t, first), (t, not first)]
    trip = trip[:n // 2] + sib + trip[n // 2:]
    for k, (ang, rad) in enumerate(trip):
        if rad and k % 2:
            m = rotation_matrix(*ang)                  # default radians
        else:
            m = rotation_matrix(*ang, radians=rad)
        m = np.asarray(m, dtype=float)
        lv = leaves(*ang, radians=rad)
        check_oracle(ctx, lv, ang)
        ctx.count("rotmat:%s" % ("radians" if rad else "degrees"))
        ctx.nontriv(("rot", ang, rad))
        if m.shape != (3, 3):
            ctx.violation("rotation_matrix:shape", "rotation_matrix does not return a 3x3 array",
                          dict(kind="rotmat-shape", angles=ang, radians=rad, shape=list(m.shape)))
            continue
        e = "qlist_close (1 # 1000000000000) (mat_list %s) %s" % (
            rotm_lit(lv), listlit([qlit(float(v)) for v in m.reshape(-1)]))
        exprs.append(e)
        metas.append(dict(what="rotation_matrix", angles=ang, radians=rad, leaves=lv, impl=m.tolist()))
        if k < 2:
            ctx.sample(dict(angles=ang, radians=rad, rotation_matrix=m.tolist()))
    # rotate_points: 1..6 points as (n,3), a bare 3-vector, lists
    for k in range(ctx.n(80, 1000)):
        ang = angle_triples(rng, 1)[0]
        npts = rng.choice([1, 1, 2, 3, 4, 5, 6])
        pts = [[dy(rng, -8, 8) for _ in range(3)] for _ in range(npts)]
        form = rng.choice(["array", "list", "vector"] if npts == 1 else ["array", "list"])
        arg = np.array(pts) if form == "array" else (pts if form == "list" else np.array(pts[0]))
        ctx.count("rotate_points:%s:%d" % (form, npts))
        try:
            out = np.asarray(rotate_points(arg, *ang), dtype=float)
        except Exception as ex:  # noqa
            ctx.violation("rotate_points:raises:%s" % type(ex).__name__,
                          "rotate_points raised %s for %d point(s) given as %s" % (type(ex).__name__, npts, form),
                          dict(kind="rotate_points", points=pts, form=form, angles=ang, error=str(ex)))
            continue
        want_shape = (3,) if form == "vector" else (npts, 3)
        ctx.explored += 1
        if out.shape != want_shape:
            ctx.violation("rotate_points:shape:%s" % ("single" if npts == 1 else "many"),
                          "rotate_points: %d point(s) of shape %s came back with shape %s" % (npts, want_shape, out.shape),
                          dict(kind="rotate_points", points=pts, form=form, angles=ang, shape=list(out.shape)))
            continue
        lv = leaves(*ang)
        flat = out.reshape(-1, 3)
        e = "list_eqb (fun a b => qlist_close (1 # 10000000000) (vec_list a) (vec_list b)) (rotate_points QO %s %s) %s" % (
            rotm_lit(lv), listlit([vq(p) for p in pts]), listlit([vq(p) for p in flat]))
        exprs.append(e)
        metas.append(dict(what="rotate_points", angles=ang, points=pts, form=form, leaves=lv, impl=flat.tolist()))
    mism, errors, _ = run_mismatch_cases("C19q", REQ, exprs, chunk=40, jobs=JOBS)
    ctx.corr_cases += len(exprs)
    for e in errors:
        ctx.violation("corr-eval-error", "model evaluation failed: " + e[:300], dict(kind="coq-error", log=e), nofail=True)
    for i in mism:
        m = metas[i]
        ctx.disagree("corr:%s" % m["what"], "%s differs from the model (nine z-y-z entries on the implementation's cos/sin)" % m["what"],
                     dict(kind="corr-rot", **m))


# ------------------------------------------------------------------------------------------
# stage 2: rotation matrix as R model (cos / sin / pi/180 inside Coq), interval-evaluated

def stage_rotation_interval(ctx):
    import numpy as np
    from holopy.core.math import rotation_matrix
    rng = ctx.subrng("roti")
    goals, metas = [], []
    n = ctx.n(24, 240)
    trip = [(t, True) for t in angle_triples(rng, n)] + [(t, False) for t in angle_triples(rng, n, True)]
    for ang, rad in trip:
        m = np.asarray(rotation_matrix(*ang, radians=rad), dtype=float).reshape(-1)
        if m.shape != (9,):
            continue
        for k in range(9):
            goals.append("Rabs (nth %d (mat_list (rotation_matrix %s %s %s %s)) 0 - %s) <= %s" % (
                k, rlit(ang[0]), rlit(ang[1]), rlit(ang[2]), "true" if rad else "false", rlit(m[k]),
                rlit(Fraction(1, 10 ** 11))))
            metas.append(dict(what="rotation_matrix", entry=k, angles=ang, radians=rad, impl=float(m[k])))
        ctx.count("rotmat-interval:%s" % ("radians" if rad else "degrees"))
    bad, errors = run_interval("C19ri", goals, "rot_eval")
    ctx.corr_cases += len(goals)
    for e in errors:
        ctx.violation("corr-eval-error", "interval evaluation failed: " + e[:300], dict(kind="coq-error", log=e), nofail=True)
    for i in bad:
        m = metas[i]
        ctx.disagree("corr:rotmat-R:%s" % ("radians" if m["radians"] else "degrees"),
                     "rotation_matrix entry differs from the R model (cos/sin evaluated inside Coq)", dict(kind="corr-rot-R", **m))


# ------------------------------------------------------------------------------------------
# stage 3: the conversions, R model evaluated by Coq-Interval

def gen_cart(rng):
    u = rng.random()
    tiny = rng.choice([2.0 ** -30, 2.0 ** -60, 2.0 ** -200])
    z0 = rng.choice([0.0, -0.0])
    if u < 0.34:
        return [dy(rng, -8, 8) for _ in range(3)]
    if u < 0.40:   # on the polar axis / on the negative x axis (the arctan2 cut), zeros of either sign
        if rng.random() < 0.5:
            return [rng.choice([0.0, -0.0]), rng.choice([0.0, -0.0]), dy(rng, -8, 8) or 1.0]
        return [-abs(dy(rng, -8, 8) or 1.0), rng.choice([0.0, -0.0]), dy(rng, -8, 8)]
    if u < 0.55:   # on an axis / in a coordinate plane, with signed zeros
        p = [dy(rng, -8, 8) for _ in range(3)]
        for i in rng.sample([0, 1, 2], rng.choice([1, 2])):
            p[i] = rng.choice([0.0, -0.0])
        return p
    if u < 0.72:   # next to a quadrant boundary / to the polar axis
        p = [dy(rng, -8, 8) for _ in range(3)]
        i = rng.choice([0, 1, 2])
        p[i] = rng.choice([-1, 1]) * tiny
        if rng.random() < 0.3:
            p[(i + 1) % 3] = z0
        return p
    if u < 0.86:   # huge / small magnitudes, same scale
        s = 2.0 ** rng.choice([-400, -300, -100, 100, 300, 400, 490])
        return [dy(rng, -8, 8) * s for _ in range(3)]
    if u < 0.96:   # mixed magnitudes
        return [dy(rng, -8, 8) * 2.0 ** rng.choice([-300, -40, 0, 0, 40, 300]) for _ in range(3)]
    return [rng.choice([0.0, -0.0]) for _ in range(3)]   # the origin


def gen_angle(rng, lo, hi, polar):
    u = rng.random()
    hp = math.pi / 2
    if u < 0.3:
        return rng.choice([0.0, hp, math.pi] if polar else [0.0, hp, math.pi, 3 * hp, TWO_PI, hp / 2, 5 * hp / 2])
    if u < 0.9:
        return dy(rng, lo, hi, 8)
    return rng.choice([-1, 1]) * dy(rng, 0, 12, 8)     # outside the canonical range: the formulas do not care


def gen_len(rng, signed=False):
    u = rng.random()
    if u < 0.7:
        v = dy(rng, 0, 8)
    elif u < 0.9:
        v = dy(rng, 0, 8) * 2.0 ** rng.choice([-400, -100, 100, 400])
    else:
        v = 0.0
    if signed and rng.random() < 0.5:
        v = -v
    return v


def gen_sph(rng):
    r = gen_len(rng)
    if rng.random() < 0.05:
        r = -r if r else r
    return [r, gen_angle(rng, 0, math.pi, True), gen_angle(rng, 0, TWO_PI, False)]


def gen_cyl(rng):
    rho = gen_len(rng) + 0.0      # never -0.0: a negative-signed rho is outside the domain
    z = gen_len(rng, signed=True)
    if abs(z) > 1e60 and 0 < rho < 1e-60 or abs(rho) > 1e60 and 0 < abs(z) < 1e-60:
        z = dy(rng, -8, 8)
    return [rho, gen_angle(rng, 0, TWO_PI, False), z]


GEN = {"cartesian": gen_cart, "spherical": gen_sph, "cylindrical": gen_cyl}


def skip_component(a, b, k, p):
    """coordinate singularities where the value returned is decided by the SIGN of an IEEE zero
    (arctan2(+-0, +-0)); the property does not define the angle there, only its range"""
    if a == "cartesian" and COMPN[b][k] == "phi" and p[0] == 0 and p[1] == 0:
        return True
    if a == "cartesian" and b == "spherical" and k == 1 and p[0] == 0 and p[1] == 0 and p[2] == 0:
        return True
    if a == "cylindrical" and b == "spherical" and k == 1 and p[0] == 0 and p[2] == 0:
        return True
    return False


def atan2_lemma(y, x):
    """name of the branch lemma of Lemmas.v for arctan2(y, x) and of the modulo branch for its value"""
    if y == 0 and x > 0:
        return "atan2_y0_xpos", "mod2pi_nonneg"
    if y == 0 and x < 0:
        return "atan2_y0_xneg", "mod2pi_nonneg"
    if x == 0:
        return ("atan2_x0_ypos", "mod2pi_nonneg") if y > 0 else ("atan2_x0_yneg", "mod2pi_neg") if y < 0 else ("atan2_x0_y0", "mod2pi_nonneg")
    if x > 0:
        return "atan2_xpos", ("mod2pi_nonneg" if y > 0 else "mod2pi_neg")
    return ("atan2_xneg_ynn", "mod2pi_nonneg") if y > 0 else ("atan2_xneg_yneg", "mod2pi_neg")


def conv_tactic(a, b, k, p):
    nm = COMPN[b][k]
    if a == "cartesian" and nm == "phi":
        return "conv_am %s %s" % atan2_lemma(p[1], p[0])
    if a == "cartesian" and nm == "theta":
        rho_pos = 1.0 if (p[0] != 0 or p[1] != 0) else 0.0
        return "conv_a %s" % atan2_lemma(rho_pos, p[2])[0]
    if a == "cylindrical" and nm == "theta":
        return "conv_a %s" % atan2_lemma(p[0], p[2])[0]
    return "conv_eval"


PASS = {("cartesian", "cylindrical"): {2: 2}, ("cylindrical", "cartesian"): {2: 2},
        ("cylindrical", "spherical"): {2: 1}, ("spherical", "cylindrical"): {1: 2}}   # output comp -> input comp copied


def length_scale(a, p):
    return max([abs(p[i]) for i in range(3) if ISLEN[a][i]] + [0.0])


def conv_tol(a, b, k, p, out):
    sc = length_scale(a, p) if ISLEN[b][k] else 1.0
    t = 1e-12 * max(abs(out), sc)
    return t if t > 0 else 1e-300


def check_ranges(ctx, a, b, p, out, form):
    """the property's own range clauses on the implementation"""
    for k, nm in enumerate(COMPN[b]):
        v = float(out[k])
        ctx.explored += 1
        if nm == "phi" and a == "cartesian" and not (0 <= v <= TWO_PI):
            ctx.violation("range:phi:%s->%s" % (a, b), "azimuth outside [0, 2 pi]: %r" % v,
                          dict(kind="conv", src=a, dst=b, point=[float(q).hex() for q in p], comp=k, value=v, form=form,
                               pred="range"))
        if nm == "theta" and (a == "cartesian" or (a == "cylindrical" and not math.copysign(1, p[0]) < 0 and p[0] >= 0)) \
                and not (0 <= v <= math.pi):
            ctx.violation("range:theta:%s->%s" % (a, b), "polar angle outside [0, pi]: %r" % v,
                          dict(kind="conv", src=a, dst=b, point=[float(q).hex() for q in p], comp=k, value=v, form=form,
                               pred="range"))
        if nm in ("r", "rho") and a == "cartesian" and not v >= 0:
            ctx.violation("range:%s:%s->%s" % (nm, a, b), "negative radius %r" % v,
                          dict(kind="conv", src=a, dst=b, point=[float(q).hex() for q in p], comp=k, value=v, form=form,
                               pred="range"))


def stage_conversions(ctx):
    import numpy as np
    from holopy.core.math import find_transformation_function as ftf
    rng = ctx.subrng("conv")
    goals, metas, tacs = [], [], []
    npts = ctx.n(90, 800)
    for a in NAMES:
        pts = [GEN[a](rng) for _ in range(npts)]
        arr = np.array(pts).T.copy()          # shape (3, N) as the library's callers pass it
        for b in NAMES:
            if a == b:
                out = np.asarray(ftf(a, b)(arr))
                ctx.explored += 1
                if out.shape != arr.shape or not np.array_equal(out, arr):
                    ctx.violation("identity:%s" % a, "the %s->%s entry is not the identity" % (a, b),
                                  dict(kind="identity", src=a))
                continue
            with np.errstate(all="ignore"):
                out = np.asarray(ftf(a, b)(arr.copy()), dtype=float)
            if out.shape != arr.shape:
                ctx.violation("conv:shape:%s->%s" % (a, b), "output shape %s for input shape %s" % (out.shape, arr.shape),
                              dict(kind="conv-shape", src=a, dst=b))
                continue
            # scalar third coordinate (the np.full branch): same z for a sub-batch
            zsc = [i for i in range(npts) if i % 7 == 3] if a != "spherical" else []
            if zsc:
                zval = pts[zsc[0]][2]
                sub = [np.array([pts[i][0] for i in zsc]), np.array([pts[i][1] for i in zsc]), zval]
                with np.errstate(all="ignore"):
                    out_s = np.asarray(ftf(a, b)(sub), dtype=float)
                sub_pts = [[pts[i][0], pts[i][1], zval] for i in zsc]
            else:
                out_s, sub_pts = np.zeros((3, 0)), []
            for form, P, O in (("array-z", pts, out), ("scalar-z", sub_pts, out_s)):
                if O.shape != (3, len(P)):
                    ctx.violation("conv:shape:%s->%s" % (a, b), "output shape %s for %d points (%s)" % (O.shape, len(P), form),
                                  dict(kind="conv-shape", src=a, dst=b, form=form))
                    continue
                ctx.count("conv:%s->%s:%s" % (a, b, form), len(P))
                for i, p in enumerate(P):
                    o = [float(O[k, i]) for k in range(3)]
                    check_ranges(ctx, a, b, p, o, form)
                    if any(v != v or abs(v) == float("inf") for v in o):
                        ctx.violation("conv:nonfinite:%s->%s" % (a, b), "non-finite output for a finite point",
                                      dict(kind="conv", src=a, dst=b, point=[float(q).hex() for q in p], value=o, form=form,
                                           pred="finite"))
                        continue
                    cls = ("origin" if length_scale(a, p) == 0 else "axis" if (a == "cartesian" and p[0] == 0 and p[1] == 0)
                           else "negzero" if any(isneg0(q) for q in p) else "huge" if length_scale(a, p) > 1e20
                           else "tiny" if length_scale(a, p) < 1e-20 else "plain")
                    ctx.count("point:" + cls)
                    ctx.nontriv(("conv", a, b, tuple(p)))
                    for k in range(3):
                        if skip_component(a, b, k, p):
                            ctx.count("skipped-singular-angle")
                            continue
                        src = PASS.get((a, b), {}).get(k)
                        if src is not None:
                            # the model's component is the input itself: compared here, no Coq goal needed
                            ctx.explored += 1
                            if not abs(o[k] - p[src]) <= conv_tol(a, b, k, p, o[k]):
                                ctx.violation("passthrough:%s->%s:%s" % (a, b, COMPN[b][k]),
                                              "%s->%s: %s is not handed through unchanged" % (a, b, COMPN[b][k]),
                                              dict(kind="conv", src=a, dst=b, point=[float(q).hex() for q in p], comp=k,
                                                   value=o[k], form=form, pred="passthrough"))
                            continue
                        goals.append("Rabs (comp %d (transform %s %s (%s, %s, %s)) - %s) <= %s" % (
                            k, CTOR[a], CTOR[b], rlit(p[0]), rlit(p[1]), rlit(p[2]), rlit(o[k]),
                            rlit(conv_tol(a, b, k, p, o[k]))))
                        tacs.append(conv_tactic(a, b, k, p))
                        metas.append(dict(src=a, dst=b, comp=k, name=COMPN[b][k], point=[float(q) for q in p],
                                          point_hex=[float(q).hex() for q in p], impl=o[k], form=form, cls=cls))
            if len(ctx.samples) < 5:
                ctx.sample(dict(conversion="%s->%s" % (a, b), point=pts[0], out=[float(out[k, 0]) for k in range(3)]))
    bad, errors = run_interval("C19c", goals, tacs)
    ctx.corr_cases += len(goals)
    for e in errors:
        ctx.violation("corr-eval-error", "interval evaluation failed: " + e[:300], dict(kind="coq-error", log=e), nofail=True)
    for i in bad:
        m = metas[i]
        ctx.disagree("corr:conv:%s->%s:%s" % (m["src"], m["dst"], m["name"]),
                     "%s->%s: component %s differs from the R model (interval enclosure at the exact input)" % (
                         m["src"], m["dst"], m["name"]), dict(kind="corr-conv", **m))


# ------------------------------------------------------------------------------------------
# stage 4: composites (Q instance, oracle leaves)

def tree_lit(t):
    if t[0] == "leaf":
        return "(Leaf %s)" % vq(t[1])
    return "(Node %s)" % listlit([tree_lit(x) for x in t[1]])


def tree_leaves(t):
    return [t[1]] if t[0] == "leaf" else [c for x in t[1] for c in tree_leaves(x)]


def build_tree(t, radii, top=True):
    from holopy.scattering import Sphere, Spheres, Scatterers
    if t[0] == "leaf":
        return Sphere(n=1.5, r=radii.pop(0), center=tuple(t[1]))
    kids = [build_tree(x, radii, False) for x in t[1]]
    return Scatterers(kids) if top else Spheres(kids, warn=False)


def impl_leaves(obj):
    import numpy as np
    if hasattr(obj, "scatterers"):
        return [c for s in obj.scatterers for c in impl_leaves(s)]
    return [[float(v) for v in np.asarray(obj.center, dtype=float)]]


def pairwise2(cs):
    return [sum((Fraction(a[q]) - Fraction(b[q])) ** 2 for q in range(3)) for a, b in itertools.combinations(cs, 2)]


def centroid(cs):
    return [sum(Fraction(c[q]) for c in cs) / len(cs) for q in range(3)]


def rigid_predicates(ctx, key, before, after, shift, meta, members=None):
    """the property's own predicate on the implementation: pairwise distances kept, centroid fixed / shifted.
    members = (centres of the top-level members before, after) when they are not the leaves (nested composites)"""
    ctx.explored += 1
    if len(after) != len(before):
        ctx.violation("composite:%s:members" % key, "number of members changed", dict(kind="composite", **meta))
        return
    sc = max([1.0] + [abs(v) for c in before for v in c])
    for d0, d1 in zip(pairwise2(before), pairwise2(after)):
        if abs(d0 - d1) > Fraction(1e-9) * max(1, d0, Fraction(sc) ** 2):
            ctx.violation("composite:%s:pairwise" % key, "a pairwise distance between members changed (%.12g -> %.12g, squared)" % (
                float(d0), float(d1)), dict(kind="composite", pred="pairwise", **meta))
            break
    c0, c1 = (centroid(before), centroid(after)) if members is None else (centroid(members[0]), centroid(members[1]))
    for q in range(3):
        if abs(c1[q] - c0[q] - Fraction(shift[q])) > Fraction(1e-9) * Fraction(sc):
            ctx.violation("composite:%s:centroid" % key,
                          "centroid moved by %r instead of %r" % ([float(c1[i] - c0[i]) for i in range(3)], list(shift)),
                          dict(kind="composite", pred="centroid", **meta))
            break


def composite_angles(rng):
    hp = math.pi / 2
    u = rng.random()
    if u < 0.15:
        return (0.0, 0.0, 0.0)
    if u < 0.45:
        return tuple(rng.choice([0.0, hp, -hp, math.pi, 3 * hp]) for _ in range(3))
    return angle_triples(rng, 1)[0]


def stage_composites(ctx):
    import numpy as np
    from holopy.scattering import Sphere, Spheres, Scatterers
    from holopy.scattering.scatterer import RigidCluster
    rng = ctx.subrng("comp")
    exprs, metas = [], []
    tol = "(1 # 1000000000)"

    def vlist_cmp(exact, model, impl):
        if exact:
            return "list_eqb (fun a b => qlist_eqb (vec_list a) (vec_list b)) %s %s" % (model, listlit([vq(c) for c in impl]))
        return "list_eqb (fun a b => qlist_close %s (vec_list a) (vec_list b)) %s %s" % (tol, model, listlit([vq(c) for c in impl]))

    for k in range(ctx.n(140, 1800)):
        nmem = rng.choice([1, 1, 2, 2, 3, 4, 5, 6])
        cs = [[dy(rng, -8, 8, 3) for _ in range(3)] for _ in range(nmem)]
        if rng.random() < 0.3:
            off = [dy(rng, -30, 30, 3) for _ in range(3)]       # far from the origin: the pivot matters
            cs = [[c[q] + off[q] for q in range(3)] for c in cs]
        equal = rng.random() < 0.3
        radii = [0.25] * nmem if equal else [dy(rng, 0.0625, 1.5, 4) or 0.5 for _ in range(nmem)]
        ang = composite_angles(rng)
        t = [dy(rng, -6, 6, 3) for _ in range(3)]
        kind = rng.choice(["Spheres", "Spheres", "Scatterers", "RigidCluster", "nested"])
        if kind == "nested" and nmem < 2:
            kind = "Scatterers"
        layered = rng.random() < 0.15
        lv = leaves(*ang)
        M = rotm_lit(lv)
        cl = listlit([vq(c) for c in cs])
        meta = dict(case=k, cls=kind, centers=cs, radii=radii, angles=list(ang), t=t, leaves=lv)
        ctx.count("composite:%s:%d" % (kind, nmem))
        ctx.count("radii:%s" % ("equal" if equal or nmem == 1 else "unequal"))
        if any(ang) and nmem > 1:
            ctx.nontriv(("comp", k))

        def mk(c, r):
            if layered:
                return Sphere(n=[1.5, 1.4], r=[r / 2, r], center=tuple(c))
            return Sphere(n=1.5, r=r, center=tuple(c))
        with warnings.catch_warnings():
            warnings.simplefilter("ignore")
            try:
                if kind == "nested":
                    # Scatterers([Sphere..., Spheres([...])]) : split the members
                    cut = rng.randint(1, nmem - 1)
                    tree = ("node", [("leaf", c) for c in cs[:cut]] + [("node", [("leaf", c) for c in cs[cut:]])])
                    if rng.random() < 0.5 and nmem - cut >= 2:
                        tree = ("node", [("node", [("leaf", c) for c in cs[cut:]])] + [("leaf", c) for c in cs[:cut]])
                    order = tree_leaves(tree)
                    obj = build_tree(tree, [radii[cs.index(c)] for c in order])
                    rot = obj.rotated(*ang) if k % 2 else obj.rotated(tuple(ang))
                    rc = impl_leaves(rot)
                    tr = obj.translated(np.array(t)) if k % 2 else obj.translated(*t)
                    tc = impl_leaves(tr)
                    meta.update(tree=tree)
                    mc = lambda o: [[float(v) for v in np.asarray(s.center, dtype=float)] for s in o.scatterers]
                    rigid_predicates(ctx, "rotated:nested", order, rc, [0, 0, 0], dict(op="rotated", impl=rc, **meta),
                                     members=(mc(obj), mc(rot)))
                    rigid_predicates(ctx, "translated:nested", order, tc, t, dict(op="translated", impl=tc, **meta),
                                     members=(mc(obj), mc(tr)))
                    exprs.append(vlist_cmp(False, "(leaves (rotated QO %s %s))" % (M, tree_lit(tree)), rc))
                    metas.append(dict(what="rotated:nested", impl=rc, **meta))
                    exprs.append(vlist_cmp(True, "(leaves (translate QO %s %s))" % (vq(t), tree_lit(tree)), tc))
                    metas.append(dict(what="translated:nested", impl=tc, **meta))
                    continue
                members = [mk(c, r) for c, r in zip(cs, radii)]
                if kind == "RigidCluster":
                    base = Spheres(members, warn=False)
                    obj = RigidCluster(base, translation=tuple(t), rotation=tuple(ang))
                    out = [[float(v) for v in s.center] for s in obj.scatterers]
                    rr = [float(np.max(s.r)) for s in obj.scatterers]
                    # predicate: rigid; centroid = old centroid + t
                    rigid_predicates(ctx, "rigidcluster", cs, out, t, dict(op="rigidcluster", impl=out, **meta))
                    if rr != [float(r) for r in radii]:
                        ctx.violation("composite:rigidcluster:radii", "member radii changed", dict(kind="composite", **meta))
                    exprs.append(vlist_cmp(nmem == 1, "(rigid_cluster QO %s %s %s)" % (M, vq(t), cl), out))
                    metas.append(dict(what="rigidcluster", impl=out, **meta))
                    continue
                obj = Spheres(members, warn=False) if kind == "Spheres" else Scatterers(members)
                form = rng.choice(["three", "tuple"])
                rot = obj.rotated(*ang) if form == "three" else obj.rotated(tuple(ang))
                rc = [[float(v) for v in s.center] for s in rot.scatterers]
                tform = rng.choice(["three", "array", "list", "tuple"])
                tr = (obj.translated(*t) if tform == "three" else obj.translated(np.array(t)) if tform == "array"
                      else obj.translated(list(t)) if tform == "list" else obj.translated(tuple(t)))
                tc = [[float(v) for v in s.center] for s in tr.scatterers]
                meta.update(rot_form=form, trans_form=tform)
                rigid_predicates(ctx, "rotated:%s" % kind, cs, rc, [0, 0, 0], dict(op="rotated", impl=rc, **meta))
                rigid_predicates(ctx, "translated:%s" % kind, cs, tc, t, dict(op="translated", impl=tc, **meta))
                ctx.explored += 1
                if [float(np.max(s.r)) for s in rot.scatterers] != [float(r) for r in radii] or type(rot) is not type(obj):
                    ctx.violation("composite:rotated:%s:carried" % kind, "rotation changed radii or the class",
                                  dict(kind="composite", **meta))
                if kind == "Spheres":
                    ctx.explored += 1
                    c0, c1 = np.asarray(obj.center, float), np.asarray(rot.center, float)
                    if not np.allclose(c0, c1, rtol=0, atol=1e-9 * max(1, np.abs(c0).max())):
                        ctx.violation("composite:rotated:Spheres:centroid", "Spheres.center differs before/after rotation",
                                      dict(kind="composite", pred="centroid", op="rotated", impl=rc, **meta))
                # chains on objects that have already answered other requests: translate the (already rotated once)
                # original and rotate the copy; translate the rotated result and rotate again.  Each rotation is about the
                # composite's OWN current centroid, so the centroid ends at the old one + t and all distances are kept.
                ang2 = composite_angles(rng)
                for cname, chain in (("translated-rotated", obj.translated(*t).rotated(*ang2)),
                                     ("rotated-translated-rotated", rot.translated(np.array(t)).rotated(tuple(ang2)))):
                    cc = [[float(v) for v in s.center] for s in chain.scatterers]
                    rigid_predicates(ctx, "chain:%s:%s" % (cname, kind), cs, cc, t,
                                     dict(op="chain:" + cname, impl=cc, angles2=list(ang2), **meta))
                # the original must not be modified
                if [[float(v) for v in s.center] for s in obj.scatterers] != cs:
                    ctx.violation("composite:%s:mutates" % kind, "rotated/translated modified the original composite",
                                  dict(kind="composite", **meta))
                exact = (nmem == 1) or (not any(ang) and nmem in (1, 2, 4))
                exprs.append(vlist_cmp(exact, "(rotated_flat QO %s %s)" % (M, cl), rc))
                metas.append(dict(what="rotated:%s" % kind, impl=rc, exact=exact, **meta))
                exprs.append(vlist_cmp(True, "(translated_flat QO %s %s)" % (vq(t), cl), tc))
                metas.append(dict(what="translated:%s" % kind, impl=tc, exact=True, **meta))
                if k < 2:
                    ctx.sample(dict(cls=kind, centers=cs, angles=list(ang), rotated=rc, t=t, translated=tc))
            except Exception as ex:  # noqa
                import traceback
                ctx.violation("composite:%s:raises:%s" % (kind if nmem > 1 else kind + ":single", type(ex).__name__),
                              "%s with %d member(s): rotated/translated raised %s: %s" % (kind, nmem, type(ex).__name__, str(ex)[:120]),
                              dict(kind="composite", pred="raises", error=traceback.format_exc()[-1500:], **meta))
    mism, errors, _ = run_mismatch_cases("C19s", REQ, exprs, chunk=40, jobs=JOBS)
    ctx.corr_cases += len(exprs)
    for e in errors:
        ctx.violation("corr-eval-error", "model evaluation failed: " + e[:300], dict(kind="coq-error", log=e), nofail=True)
    for i in mism:
        m = metas[i]
        ctx.disagree("corr:%s" % m["what"], "member centres after %s differ from the model" % m["what"],
                     dict(kind="corr-composite", **m))


# ------------------------------------------------------------------------------------------
# stage 5: direct exploration on arbitrary (non-dyadic) doubles

def ang_dist(a, b):
    import numpy as np
    d = np.abs(a - b) % TWO_PI
    return np.minimum(d, TWO_PI - d)


def stage_explore(ctx):
    import numpy as np
    from holopy.core.math import find_transformation_function as ftf, rotation_matrix, rotate_points
    rng = ctx.subrng("explore")
    nrng = np.random.RandomState(rng.randrange(1 << 30))
    N = ctx.n(20000, 200000)

    def sample(sysname, n):
        s = 10.0 ** nrng.uniform(-6, 6, n)
        if sysname == "cartesian":
            return nrng.normal(size=(3, n)) * s
        if sysname == "spherical":   # interior of the chart
            return np.array([s, nrng.uniform(0.05, math.pi - 0.05, n), nrng.uniform(0, TWO_PI, n)])
        z = nrng.normal(size=n) * s * 10.0 ** nrng.uniform(-1, 1, n)
        return np.array([s, nrng.uniform(0, TWO_PI, n), z])

    def same(sysname, p, q):
        """max deviation, lengths relative to the distance from the origin, angles as angles"""
        if sysname == "cartesian":
            d = np.sqrt((p ** 2).sum(0))
            return float(np.max(np.abs(p - q) / d))
        if sysname == "spherical":
            return float(max(np.max(np.abs(p[0] - q[0]) / p[0]), np.max(np.abs(p[1] - q[1])), np.max(ang_dist(p[2], q[2]))))
        d = np.sqrt(p[0] ** 2 + p[2] ** 2)
        return float(max(np.max(np.abs(p[0] - q[0]) / d), np.max(ang_dist(p[1], q[1])), np.max(np.abs(p[2] - q[2]) / d)))

    def dist0(sysname, p):
        return (np.sqrt((p ** 2).sum(0)) if sysname == "cartesian" else np.abs(p[0]) if sysname == "spherical"
                else np.sqrt(p[0] ** 2 + p[2] ** 2))

    def conditioned(sysname, p):
        """keep points where the angles are well conditioned (away from the polar axis)"""
        if sysname == "cartesian":
            rho = np.sqrt(p[0] ** 2 + p[1] ** 2)
            return rho > 1e-3 * np.sqrt((p ** 2).sum(0))
        if sysname == "cylindrical":
            return p[0] > 1e-3 * np.sqrt(p[0] ** 2 + p[2] ** 2)
        return np.ones(p.shape[1], bool)

    # the value of a conversion must not depend on the container type of the coordinates: integer-typed arrays (pixel index
    # grids), float32 arrays and lists of python numbers give what the same numbers give as float64
    ipts = np.array([[3, -4, 0, 7, -2, 5, 1], [4, 3, 5, -1, -6, 0, 1], [12, 0, -3, 2, 9, -8, 1]])
    for a in NAMES:
        for b in NAMES:
            if a == b:
                continue
            src = np.abs(ipts) if a != "cartesian" else ipts        # radii / angles as non-negative integers
            want = np.asarray(ftf(a, b)(src.astype(float)), dtype=float)
            for tname, arr in (("int64", src.astype(np.int64)), ("int32", src.astype(np.int32)), ("float32", src.astype(np.float32)),
                               ("list", [list(map(int, r)) for r in src])):
                ctx.explored += 1
                ctx.count("explore:container:%s" % tname)
                try:
                    got = np.asarray(ftf(a, b)(arr if tname != "list" else [np.array(r) for r in arr]), dtype=float)
                except Exception as ex:  # noqa
                    ctx.violation("conv:container:%s->%s:raises" % (a, b), "conversion %s->%s raises %s for %s coordinates"
                                  % (a, b, type(ex).__name__, tname), dict(kind="container", src=a, dst=b, dtype=tname, points=src.tolist()))
                    continue
                tolc = 1e-5 if tname == "float32" else 1e-12
                if got.shape != want.shape or not np.allclose(got, want, rtol=tolc, atol=tolc * 20):
                    ctx.violation("conv:container:%s->%s" % (a, b), "conversion %s->%s of %s coordinates differs from the conversion of the "
                                  "same numbers as float64" % (a, b, tname),
                                  dict(kind="container", src=a, dst=b, dtype=tname, points=src.tolist(), got=got.tolist(), want=want.tolist()))
    for a in NAMES:
        p = sample(a, N)
        p = p[:, conditioned(a, p)]
        for b in NAMES:
            if a == b:
                continue
            q = ftf(a, b)(p.copy())
            back = ftf(b, a)(q.copy())
            ctx.explored += p.shape[1]
            ctx.count("explore:roundtrip:%s->%s" % (a, b), p.shape[1])
            dev = same(a, p, back)
            if not dev <= 1e-9:
                ctx.violation("roundtrip:%s->%s" % (a, b), "%s->%s->%s is not the identity (max deviation %.3g)" % (a, b, a, dev),
                              dict(kind="explore", pred="roundtrip", src=a, dst=b, dev=dev))
            rdev = float(np.max(np.abs(dist0(b, q) - dist0(a, p)) / dist0(a, p)))
            if not rdev <= 1e-12:
                ctx.violation("radius:%s->%s" % (a, b), "distance from the origin changed (rel %.3g)" % rdev,
                              dict(kind="explore", pred="radius", src=a, dst=b, dev=rdev))
            c = [x for x in NAMES if x not in (a, b)][0]
            via = ftf(c, b)(ftf(a, c)(p.copy()))
            cdev = same(b, q, via)
            if not cdev <= 1e-9:
                ctx.violation("compose:%s->%s->%s" % (a, c, b), "%s->%s->%s differs from %s->%s (max deviation %.3g)" % (a, c, b, a, b, cdev),
                              dict(kind="explore", pred="compose", src=a, via=c, dst=b, dev=cdev))
            for k, nm in enumerate(COMPN[b]):
                if nm == "phi" and a == "cartesian" and not np.all((q[k] >= 0) & (q[k] <= TWO_PI)):
                    ctx.violation("range:phi:%s->%s" % (a, b), "azimuth outside [0, 2 pi]",
                                  dict(kind="explore", pred="range", src=a, dst=b))
                if nm == "theta" and a != "spherical" and not np.all((q[k] >= 0) & (q[k] <= math.pi)):
                    ctx.violation("range:theta:%s->%s" % (a, b), "polar angle outside [0, pi]",
                                  dict(kind="explore", pred="range", src=a, dst=b))
    # unknown names are refused, known ones all present
    for a, b in [("polar", "cartesian"), ("cartesian", "polar"), ("Cartesian", "spherical"), ("", "")]:
        ctx.explored += 1
        try:
            ftf(a, b)
            ctx.violation("table:unknown-accepted", "find_transformation_function accepts %r->%r" % (a, b), dict(kind="table", a=a, b=b))
        except NotImplementedError:
            pass
    # rotation matrix on arbitrary doubles: orthogonal, det 1, z-y-z, degrees
    def Rz(t):
        return np.array([[math.cos(t), -math.sin(t), 0], [math.sin(t), math.cos(t), 0], [0, 0, 1]])

    def Ry(t):
        return np.array([[math.cos(t), 0, math.sin(t)], [0, 1, 0], [-math.sin(t), 0, math.cos(t)]])
    for k in range(ctx.n(1000, 10000)):
        a, b, g = (rng.uniform(-10, 10) for _ in range(3))
        m = np.asarray(rotation_matrix(a, b, g))
        ctx.explored += 1
        err = max(np.abs(m @ m.T - np.eye(3)).max(), np.abs(m.T @ m - np.eye(3)).max(), abs(np.linalg.det(m) - 1),
                  np.abs(m - Rz(g) @ Ry(b) @ Rz(a)).max())
        md = np.asarray(rotation_matrix(math.degrees(a), math.degrees(b), math.degrees(g), radians=False))
        err = max(err, np.abs(md - m).max())
        if not err <= 1e-12:
            ctx.violation("rotmat:explore", "rotation_matrix is not orthogonal / det 1 / Rz Ry Rz / degree-consistent (%.3g)" % err,
                          dict(kind="explore", pred="rotmat", angles=[a, b, g], dev=float(err)))
        npt = rng.choice([1, 2, 3, 6])
        pts = nrng.normal(size=(npt, 3)) * 10.0 ** rng.uniform(-3, 3)
        try:
            out = np.asarray(rotate_points(pts, a, b, g))
        except Exception as ex:  # noqa
            ctx.violation("rotate_points:raises:%s" % type(ex).__name__, "rotate_points raised for %d points" % npt,
                          dict(kind="explore", pred="rotate_points", angles=[a, b, g], points=pts.tolist()))
            continue
        if out.shape != pts.shape:
            ctx.violation("rotate_points:shape:%s" % ("single" if npt == 1 else "many"),
                          "rotate_points: shape %s -> %s" % (pts.shape, out.shape),
                          dict(kind="explore", pred="rotate_points", angles=[a, b, g], points=pts.tolist()))
            continue
        sc = np.abs(pts).max()
        d0 = np.sqrt(((pts[:, None] - pts[None]) ** 2).sum(-1))
        d1 = np.sqrt(((out[:, None] - out[None]) ** 2).sum(-1))
        n0, n1 = np.sqrt((pts ** 2).sum(1)), np.sqrt((out ** 2).sum(1))
        if not (np.abs(d0 - d1).max() <= 1e-10 * sc and np.abs(n0 - n1).max() <= 1e-10 * sc
                and np.abs(out - pts @ m.T).max() <= 1e-10 * sc):
            ctx.violation("rotate_points:isometry", "rotate_points changes distances or differs from rot . p",
                          dict(kind="explore", pred="rotate_points", angles=[a, b, g], points=pts.tolist()))


# ------------------------------------------------------------------------------------------

# ------------------------------------------------------------------------------------------
# source tie: core/math.py as it is written now, translated and proved equal to the model

MATH = "holopy/core/math.py"
SRC_ITEMS = [
    dict(file=MATH, qualname="rotation_matrix", name="rotation_matrix_src", rettype="list R",
         params=[("alpha", "R"), ("beta", "R"), ("gamma", "R"), ("radians", "bool")]),
    dict(file=MATH, qualname="transform_cartesian_to_spherical", name="cart2sph_src", rettype="list R", params=[("x_y_z", "R3")]),
    dict(file=MATH, qualname="transform_spherical_to_cartesian", name="sph2cart_src", rettype="list R", params=[("r_theta_phi", "R3")]),
    dict(file=MATH, qualname="transform_cartesian_to_cylindrical", name="cart2cyl_src", rettype="list R", params=[("x_y_z", "R3")]),
    dict(file=MATH, qualname="transform_cylindrical_to_cartesian", name="cyl2cart_src", rettype="list R", params=[("rho_phi_z", "R3")]),
    dict(file=MATH, qualname="transform_cylindrical_to_spherical", name="cyl2sph_src", rettype="list R", params=[("rho_phi_z", "R3")]),
    dict(file=MATH, qualname="transform_spherical_to_cylindrical", name="sph2cyl_src", rettype="list R", params=[("r_theta_phi", "R3")]),
]
for _it in SRC_ITEMS:
    _it["calls"] = {"mod2pi": ("mod2pi", 1)}


def lut_defs(repo):
    """_transformation_lut as the source text has it: rows (from, to, function name)"""
    import ast
    import os
    from harness.lib.pysrc import Unsupported
    tree = ast.parse(open(os.path.join(repo, MATH)).read())
    lut = None
    for n in tree.body:
        if isinstance(n, ast.Assign) and len(n.targets) == 1 and getattr(n.targets[0], "id", None) == "_transformation_lut":
            lut = n.value
    if not isinstance(lut, ast.Dict):
        raise Unsupported("_transformation_lut is not a dictionary literal")
    rows = []
    for k, v in zip(lut.keys, lut.values):
        if not (isinstance(k, ast.Constant) and isinstance(v, ast.Dict)):
            raise Unsupported("_transformation_lut row")
        for k2, v2 in zip(v.keys, v.values):
            if not (isinstance(k2, ast.Constant) and isinstance(v2, ast.Name)):
                raise Unsupported("_transformation_lut entry")
            rows.append('("%s", "%s", "%s")' % (k.value, k2.value, v2.id))
    return "Definition lut_src : list (string * string * string) := [%s]%%string.\n" % "; ".join(rows)


def stage_srctie(ctx):
    from harness.lib import srctie
    ok = srctie.run(ctx, "C19", "From HV Require Import C19.Model C19.Lemmas C19.Props.\n", SRC_ITEMS, lut_defs)
    ctx.count("srctie:%s" % ("ok" if ok else "broken"))


def run(ctx):
    ctx.rule = ("conversion points: dyadic cloud + axes / planes with signed zeros + 2^-30..2^-200 either side of quadrant "
                "boundaries and of the polar axis + magnitudes 2^-400..2^490 (equal and mixed) + origin, for each of the six "
                "ordered pairs, array and scalar third coordinate; angle triples: multiples of pi/2 (and 90 deg), tiny, dyadic, "
                "random, radians and degrees; composites of 1-6 members (Spheres, Scatterers, Scatterers holding a Spheres, "
                "RigidCluster; equal / unequal radii; layered members; far from the origin), both calling forms. "
                "non-trivial = distinct (conversion, point) / distinct angle triple / composite with >=2 members and a non-zero angle")
    ctx.clauses_proved = [
        "cos/sin of arctan2 reproduce the point (everywhere); arctan2 in (-pi, pi]; a % 2pi in [0, 2pi)",
        "cart->sph->cart and cart->cyl->cart, cyl->sph->cyl are the identity everywhere; the reverse round trips on the open charts",
        "all six compositions through a third system equal the direct conversion",
        "distance from the origin kept by all nine table entries",
        "phi in [0, 2pi), theta in [0, pi], r, rho >= 0",
        "rotation_matrix = Rz(gamma) Ry(beta) Rz(alpha), radians or degrees; orthogonal (both sides); det = +1",
        "rotate_points keeps mutual distances and norms, any number of points",
        "Scatterers.rotated = rigid map about the centroid (pairwise distances, centroid, member count), any number >= 1 of members; "
        "single member stays; translated shifts the centroid by the vector; RigidCluster = rotation then translation",
        "Q instance executed = R instance proved about",
        "source tie: rotation_matrix, the six transform_* functions and _transformation_lut of core/math.py, translated from the current "
        "source text on every run, are proved equal to the model; round trips, compositions, ranges, z-y-z form, orthogonality and det = 1 "
        "restated for the translated source"]
    ctx.clauses_explored = [
        "azimuth reaching exactly 2 pi by rounding (closed upper end) - ranges checked on the implementation's doubles",
        "round trips / compositions / radius on arbitrary (non-dyadic) doubles within 1e-9 (rounding is outside the real-number theorems)",
        "angles at coordinate singularities (x=y=0; origin) where arctan2 is decided by the sign of an IEEE zero: only ranges are checked",
        "nested composites (Scatterers holding Spheres): rigid-motion predicate and model correspondence, no theorem"]
    ctx.trusted += ["source translator harness/lib/pysrc.py (python floats read as reals, numpy arrays as their generic element, np.cos/sin/sqrt/"
                    "arctan2 and % (2 pi) mapped to cos/sin/sqrt/atan2/mod2pi of the model)",
                    "oracle: numpy cos/sin of the three Euler angles (hypothesis c^2+s^2=1 sampled each run; enters rotM as arguments)",
                    "Coq-Interval (interval with i_prec 80) evaluates atan/cos/sin/sqrt/PI of the R model at the sample points",
                    "oracle: numpy arctan2/sqrt/mod inside the conversions are compared against the R model only at sampled dyadic points"]
    ctx.notes.append("find_transformation_function('cartesian','cylindrical') (and the reverse) raises ValueError (inhomogeneous array) when all "
                     "three coordinates are python scalars under numpy>=1.24; not demanded by the property text (arrays with scalar z are), not alarmed")
    import time

    def timed(tag, fn, *a):
        t0 = time.time()
        guarded(ctx, tag, fn, *a)
        ctx.count("wall_s:" + tag, round(time.time() - t0, 1))
    timed("prove", ctx.prove)
    timed("source-tie", stage_srctie, ctx)
    boot.boot()
    timed("rotation-q", stage_rotation_q, ctx)
    timed("composites", stage_composites, ctx)
    timed("explore", stage_explore, ctx)
    timed("rotation-interval", stage_rotation_interval, ctx)
    timed("conversions", stage_conversions, ctx)


def replay(ctx, data):
    """re-run the stored failing case on the current tree"""
    import numpy as np
    boot.boot()
    d = data["data"]
    kind = d.get("kind")
    if kind in ("conv", "corr-conv") and ("point" in d or "point_hex" in d):
        from holopy.core.math import find_transformation_function as ftf
        hexes = d.get("point_hex") or d["point"]
        p = [float.fromhex(h) if isinstance(h, str) else float(h) for h in hexes]
        a, b = d["src"], d["dst"]
        arr = np.array([[v] for v in p])
        with np.errstate(all="ignore"):
            out = np.asarray(ftf(a, b)(arr), dtype=float)[:, 0]
        print("replay: %s->%s %r -> %r" % (a, b, p, out.tolist()))
        check_ranges(ctx, a, b, p, out, "array-z")
        goals, names = [], []
        for k in range(3):
            if not skip_component(a, b, k, p):
                goals.append("Rabs (comp %d (transform %s %s (%s, %s, %s)) - %s) <= %s" % (
                    k, CTOR[a], CTOR[b], rlit(p[0]), rlit(p[1]), rlit(p[2]), rlit(out[k]), rlit(conv_tol(a, b, k, p, out[k]))))
                names.append(COMPN[b][k])
        ctx.prove()
        bad, errors = run_interval("C19r", goals, "conv_eval")
        ctx.corr_cases += len(goals)
        for i in bad:
            ctx.disagree("corr:conv:%s->%s:%s" % (a, b, names[i]), data["what"], d)
    elif kind == "tie":
        ctx.prove()
        stage_srctie(ctx)
    else:
        print("replay: re-running the whole check with the recorded seed")
        ctx.seed = data.get("seed", ctx.seed)
        run(ctx)

"""C08 - MieLens = Lens(Mie): proof obligations (algebraic / discrete skeleton), correspondence of
the modelled parts with the implementation, and direct exploration of the quantitative core
(agreement of the two theories, quadrature refinement, interpolation options, zero aberration).

PARTIAL by construction: the Bessel-integral identity behind MieLens's analytic azimuthal
integral and the convergence of both quadratures are NOT proved; they are explored with the
tolerances below (measured on the unchanged tree, 2026-10-01, seeds 0/1, 160 cases + convergence
scans of 450 evaluations):

  quantity (converged regime, scale = max(1, max|E|))      measured       tolerance
  MieLens(n) vs MieLens(2n)                                1.4e-11        1e-8
  Lens(nt, np) vs Lens(2nt, 2np), equal or unequal counts  8.4e-14        1e-9
  MieLens vs Lens(Mie)                                     1.5e-8         1e-6   (truncation of the two
                                                                          independent Mie series, systematic)
  interpolation True / False / 'check' (defaults)          9e-12          1e-8
  interpolation with degree >= window/2 + 20               1e-11          1e-8
  AberratedMieLens(0 | [0]*k) vs MieLens                   0 (bitwise)    1e-14

"Converged" is decided by the GENERATOR, never by filtering results: with
Phi = krho_max*sin(alpha) + |kz|*(1 - cos(alpha)) the MieLens order is n >= Phi/2 (measured: error
<= 5e-12 up to Phi/(2n) = 1.3, wrong by O(1) from 1.6), the Lens polar order is n_theta >= 0.75*Phi
and the Lens azimuthal order is n_phi >= a + 12 a^(1/3) + 24, a = krho_max*sin(alpha).
The default orders (100) are used whenever they satisfy these rules.  Beyond them the implementation
is documented to lose accuracy ("problems for large rho, z"): e.g. default MieLens at krho=370,
kz=250, alpha=1.2 is off by 0.16 although krho is below the 3.9*quad_npts cut-off -- recorded as a
note in the evidence, not a violation of the property (which speaks of converged quadrature).
"""
import math
import warnings
from fractions import Fraction

from harness.lib import boot
from harness.lib.coqrun import qlit, zlit, blit, listlit, run_mismatch_cases
from harness.lib.ctx import guarded

REQ = ("From Coq Require Import Qround.\n"
       "From HV Require Import Common.Generic Common.Cmp C08.Model.\nOpen Scope Q_scope.\n")
DEFS = """
Definition cclose (tol : Q) (a b : cx Q) : bool := qclose tol (fst a) (fst b) && qclose tol (snd a) (snd b).
Definition v3close (tol : Q) (a b : vec3 Q) : bool :=
  let '(a1, a2, a3) := a in let '(b1, b2, b3) := b in cclose tol a1 b1 && cclose tol a2 b2 && cclose tol a3 b3.
Definition tolc : Q := 1 # 1000000000.
Definition tolp : Q := 1 # 1000000000000.
Definition smat0 : smat Q := ((0,0),(0,0),(0,0),(0,0)).
Definition tab_of (tab : list (list (smat Q))) (it ip : Z) : smat Q :=
  nth (Z.to_nat ip) (nth (Z.to_nat it) tab []) smat0.
"""

N_MED, WL = 1.33, 0.66
K = 2 * math.pi * N_MED / WL

T_ML_REF, T_LENS_REF, T_ML_LENS, T_INTERP, T_ABERR0 = 1e-8, 1e-9, 1e-6, 1e-8, 1e-14
KEY_UNEQUAL = "lens:quad_npts_unequal"
WHAT_UNEQUAL = ("Lens with quad_npts_theta != quad_npts_phi: the wrapped theory's scattering matrices (laid out "
                "(nphi, ntheta) by np.meshgrid) are reshaped as (ntheta, nphi), so pupil node (theta_p, phi_q) is "
                "multiplied by the matrix of another direction; the field is wrong by O(1)")


FB = 80


def ql(x):
    """leaf literal with the common denominator 2^80 (exact for every double of magnitude >= 2^-27, otherwise rounded
    at 2^-80 ~ 8e-25): lets the QF instance add without multiplying denominators.  Decisions use the exact qlit."""
    fr = Fraction(float(x))
    n = fr.numerator * (1 << FB)
    n = (2 * n + fr.denominator) // (2 * fr.denominator)
    return "(%s # %d)" % (("(%d)" % n) if n < 0 else str(n), 1 << FB)


def clit(z):
    z = complex(z)
    return "(%s, %s)" % (ql(z.real), ql(z.imag))


def dy(rng, lo, hi, bits=6):
    s = 1 << bits
    return rng.randint(int(math.ceil(lo * s)), int(math.floor(hi * s))) / s


def field(theory, sph, x, y, pol, z=None):
    import numpy as np
    from holopy.core import detector_points
    from holopy.scattering import calc_field
    det = detector_points(x=np.asarray(x, float), y=np.asarray(y, float)) if z is None else \
        detector_points(x=np.asarray(x, float), y=np.asarray(y, float), z=z)
    f = calc_field(det, sph, medium_index=N_MED, illum_wavelen=WL, illum_polarization=pol, theory=theory)
    return np.asarray(f.values)          # (npoints, 3) complex


def corr_errors(ctx, errors):
    for e in errors:
        ctx.violation("corr-eval-error", "model evaluation failed: " + e[:300], dict(kind="coq-error", log=e), nofail=True)


# =============================================================================================
# correspondence 1: Lens pupil sum with a mock wrapped theory (all four amplitudes non-zero,
# azimuth dependent), small quadratures, equal AND unequal node counts
# =============================================================================================

def make_mock():
    import numpy as np
    from holopy.scattering.theory.scatteringtheory import ScatteringTheory

    class MockTheory(ScatteringTheory):
        """S(theta, phi): four distinct smooth complex amplitudes; records the directions it was asked for"""
        def __init__(self):
            super().__init__()
            self.asked = None

        def can_handle(self, scatterer):
            return True

        @staticmethod
        def S(theta, phi):
            theta = np.asarray(theta, float)
            phi = np.asarray(phi, float)
            s = np.zeros(theta.shape + (2, 2), dtype=complex)
            s[..., 0, 0] = (1.0 + 0.25j) * np.cos(theta) + 0.5 * np.sin(phi) + 0.125j * phi
            s[..., 0, 1] = (0.5 - 0.75j) * np.sin(theta) * np.cos(phi) + 0.0625j
            s[..., 1, 0] = (-0.25 + 0.5j) * np.sin(2 * theta) + 0.375 * np.cos(2 * phi)
            s[..., 1, 1] = (0.75 - 0.125j) * np.cos(2 * theta) - 0.25j * np.sin(phi) + 0.5
            return s

        def raw_scat_matrs(self, scatterer, pos, medium_wavevec, medium_index):
            self.asked = np.array(pos)
            return self.S(pos[1], pos[2])
    return MockTheory


def stage_pupil(ctx):
    import numpy as np
    from holopy.scattering import Sphere
    from holopy.scattering.theory import Lens
    from holopy.scattering.theory import lens as lens_mod
    Mock = make_mock()
    rng = ctx.subrng("pupil")
    exprs, metas = [], []
    for kcase in range(ctx.n(36, 400)):
        nth = rng.choice([2, 3, 4, 5, 6])
        nph = rng.choice([3, 4, 5, 6, 7, 8]) if rng.random() < 0.75 else nth
        la = rng.uniform(0.2, 1.4)
        g = rng.choice([0.0, math.pi / 2, rng.uniform(-math.pi, math.pi), rng.uniform(-math.pi, math.pi)])
        pol = (math.cos(g), math.sin(g))
        zd = rng.uniform(-25, 25) / K
        npt = 2
        xs = [rng.uniform(-8, 8) / K for _ in range(npt)]
        ys = [rng.uniform(-8, 8) / K for _ in range(npt)]
        mock = Mock()
        sph = Sphere(n=1.59, r=0.5, center=(0, 0, 0))
        with warnings.catch_warnings():
            warnings.simplefilter("ignore")
            th = Lens(la, mock, quad_npts_theta=nth, quad_npts_phi=nph)
            E = field(th, sph, xs, ys, pol, z=zd)
        tpts, twts = lens_mod.gauss_legendre_pts_wts(0, la, npts=nth)
        ppts, pwts = lens_mod.pts_wts_for_phi_integrals(nph)
        # the table S(theta_it, phi_ip) from what the wrapped theory was actually asked (no layout assumption)
        asked = mock.asked
        Sret = Mock.S(asked[1], asked[2])
        tab = [[None] * nph for _ in range(nth)]
        for kk in range(asked.shape[1]):
            it = int(np.argmin(np.abs(tpts - asked[1, kk])))
            ip = int(np.argmin(np.abs(ppts - asked[2, kk])))
            if abs(tpts[it] - asked[1, kk]) > 1e-12 or abs(ppts[ip] - asked[2, kk]) > 1e-12:
                raise RuntimeError("Lens asked the wrapped theory for a direction that is not a quadrature node")
            tab[it][ip] = Sret[kk]
        if any(v is None for row in tab for v in row):
            raise RuntimeError("Lens did not ask the wrapped theory for every quadrature node")
        tablit = listlit([listlit(["(%s, %s, %s, %s)" % (clit(m[0, 0]), clit(m[0, 1]), clit(m[1, 0]), clit(m[1, 1]))
                                   for m in row]) for row in tab])
        kz = -K * zd          # positions z = k * (z_sphere - z_detector)
        eikz = np.exp(1j * kz)
        cg, sg = math.cos(g), math.sin(g)
        # observed polarisation angle is arctan2(py, px): the same double up to rounding
        gobs = math.atan2(pol[1], pol[0])
        for i in range(npt):
            krho = K * math.hypot(xs[i], ys[i])
            php = math.atan2(K * ys[i], K * xs[i]) % (2 * math.pi)
            leaves = []
            for p in range(nth):
                ct, st = math.cos(tpts[p]), math.sin(tpts[p])
                e2 = np.exp(1j * kz * (1 - ct))
                for q in range(nph):
                    e1 = np.exp(1j * krho * st * math.cos(ppts[q] - php))
                    leaves.append("(%s, %s, %s, %s, %s, %s, %s, %s)" % (
                        clit(e1), clit(e2), ql(math.sqrt(ct)), ql(st), ql(float(pwts[q])), ql(float(twts[p])),
                        ql(math.cos(ppts[q] - gobs)), ql(math.sin(ppts[q] - gobs))))
            impl = "(%s, %s, %s)" % (clit(E[i, 0]), clit(E[i, 1]), clit(E[i, 2]))
            for lay in ("layout_fixed", "layout_asfound"):
                exprs.append(
                    "v3close tolc (lens_field QF (lens_terms QF %s %s (pupil_matrices (%s %s %s) (tab_of %s) %s %s)) %s %s %s) %s"
                    % (ql(0.5 / math.pi), listlit(leaves), lay, zlit(nth), zlit(nph), tablit, zlit(nth), zlit(nph),
                       ql(math.cos(gobs)), ql(math.sin(gobs)), clit(eikz), impl))
            metas.append(dict(case=kcase, point=i, lens_angle=la, quad_npts_theta=nth, quad_npts_phi=nph, pol_angle=g,
                              kz=kz, x=xs[i], y=ys[i], impl=[[E[i, j].real, E[i, j].imag] for j in range(3)]))
        ctx.count("pupil:%s" % ("equal" if nth == nph else "unequal"))
        ctx.nontriv(("pupil", nth, nph))
        if kcase < 1:
            ctx.sample(dict(stage="pupil", **metas[-1]))
    mism, errors, _ = run_mismatch_cases("C08p", REQ, exprs, chunk=40, defs=DEFS)
    ctx.corr_cases += len(metas)
    corr_errors(ctx, errors)
    bad = set(mism)
    for i, m in enumerate(metas):
        fixed_ok, asfound_ok = (2 * i) not in bad, (2 * i + 1) not in bad
        if fixed_ok:
            continue
        if m["quad_npts_theta"] != m["quad_npts_phi"] and asfound_ok:
            ctx.disagree(KEY_UNEQUAL, WHAT_UNEQUAL + " [pupil-sum correspondence: the implementation matches the model "
                         "with the as-found layout (Findings.reshape_unequal_refuted), not the intended one]",
                         dict(kind="pupil", **m))
        else:
            ctx.disagree("corr:lens_pupil_sum", "Lens(mock theory) field differs from the model pupil sum "
                         "(prefactor, integrands with S1..S4, lr->xyz, -exp(ikz), node layout)", dict(kind="pupil", **m))


# =============================================================================================
# correspondence 2: MieLensCalculator / AberratedMieLensCalculator with small quadratures:
# pupil integrals I_0, I_2 (incl. aberration phase), small-rho field, cut-off
# =============================================================================================

def stage_calculator(ctx):
    import numpy as np
    from numpy.polynomial.legendre import legval
    from scipy.special import j0
    from holopy.scattering.theory import mielensfunctions as mlf
    rng = ctx.subrng("calc")
    exprs, metas = [], []
    nphase = 0
    excluded = 0
    for kcase in range(ctx.n(30, 400)):
        npts = rng.choice([3, 4, 5, 6, 8])
        la = rng.uniform(0.5, 1.4)
        m = rng.uniform(1.05, 2.5)
        xsz = math.exp(rng.uniform(math.log(0.1), math.log(12)))
        kz = rng.uniform(-40, 60)
        kind = rng.choice(["none", "scalar", "list", "list", "zeros"])
        if kind == "none":
            coeffs = None
        elif kind == "scalar":
            coeffs = dy(rng, -3, 3, 4)
        elif kind == "zeros":
            coeffs = [0.0] * rng.choice([1, 2, 3, 5])
        else:
            coeffs = [dy(rng, -3, 3, 4) for _ in range(rng.choice([1, 2, 3, 4, 6]))]
        kw = dict(particle_kz=kz, index_ratio=m, size_parameter=xsz, lens_angle=la, quad_npts=npts,
                  interpolate_integrals=False)
        calc = mlf.MieLensCalculator(**kw) if coeffs is None else \
            mlf.AberratedMieLensCalculator(spherical_aberration=coeffs, **kw)
        cut_f = 3.9 * npts
        cut_q = Fraction(3.9) * npts
        rhos = [rng.uniform(0, cut_f), rng.uniform(0, cut_f), cut_f, float(np.nextafter(cut_f, 0)),
                float(np.nextafter(cut_f, 1e9)), rng.uniform(cut_f, 3 * cut_f)]
        keep = []
        for r in rhos:
            if (r < cut_f) != (Fraction(r) < cut_q):
                excluded += 1          # float product 3.9*npts rounded across this rho: not decidable exactly
            else:
                keep.append(r)
        rhos = keep
        phis = [rng.uniform(0, 2 * math.pi) for _ in rhos]
        ex, ey = calc.calculate_scattered_field(np.array(rhos), np.array(phis))
        # oracle leaves, from the module's own public helpers
        qx, qw = mlf.gauss_legendre_pts_wts(math.cos(la), 1.0, npts=npts)
        theta = np.arccos(qx)
        sperp = mlf.MieScatteringMatrix(parallel_or_perpendicular="perpendicular", index_ratio=m, size_parameter=xsz)(theta)
        sprll = mlf.MieScatteringMatrix(parallel_or_perpendicular="parallel", index_ratio=m, size_parameter=xsz)(theta)
        sint = np.sin(theta)
        clist = None if coeffs is None else list(np.reshape(coeffs, -1))
        phase = kz * (1 - qx)
        if clist is not None:
            phase = phase + (qx - 1) ** 2 * legval(qx - 1, np.array(clist, float))
        es = np.exp(1j * phase)
        nodes = listlit(["(%s, %s, %s, %s, %s, %s)" % (ql(float(qx[i])), ql(float(qw[i])), ql(float(sint[i])),
                                                       ql(float(np.sqrt(qx[i]))), clit(sperp[i]), clit(sprll[i]))
                         for i in range(npts)])
        eslit = listlit([clit(e) for e in es])
        # the aberration phase polynomial: Coq's legval (numpy's Clenshaw loop) against numpy's legval
        xsl = listlit([qlit(float(v)) for v in qx])
        if clist is None:
            exprs.append("qlist_close tolp (map (phase_unab QO %s) %s) %s" % (qlit(kz), xsl, listlit([qlit(float(v)) for v in phase])))
        else:
            exprs.append("qlist_close tolp (map (phase_ab QO %s %s) %s) %s" % (
                qlit(kz), listlit([qlit(float(c)) for c in clist]), xsl, listlit([qlit(float(v)) for v in phase])))
        metas.append(dict(what="phase", case=kcase, kz=kz, coeffs=coeffs, lens_angle=la, quad_npts=npts,
                          phase=[float(v) for v in phase]))
        nphase += 1
        for r, ph, vx, vy in zip(rhos, phis, ex, ey):
            js0 = listlit([ql(float(v)) for v in j0(r * sint)])
            js2 = listlit([ql(float(v)) for v in mlf.j2(r * sint)])
            exprs.append(
                "(let nodes := %s in let es := %s in let sc := mielens_scattered QF %s %s %s (i_n_sum QF 0 es %s nodes) "
                "(i_n_sum QF 2 es %s nodes) %s %s in cclose tolc (fst sc) %s && cclose tolc (snd sc) %s)"
                % (nodes, eslit, qlit(3.9), zlit(npts), qlit(r), js0, js2, ql(math.cos(2 * ph)), ql(math.sin(2 * ph)),
                   clit(vx), clit(vy)))
            metas.append(dict(what="scattered", case=kcase, krho=r, phi=ph, kz=kz, index_ratio=m, size_parameter=xsz,
                              lens_angle=la, quad_npts=npts, coeffs=coeffs, impl=[[vx.real, vx.imag], [vy.real, vy.imag]]))
            ctx.count("calc:rho_%s" % ("small" if r < cut_f else "beyond-cutoff"))
        ctx.count("calc:aberration:%s" % kind)
        ctx.nontriv(("calc", kind, npts, 0 if clist is None else len(clist)))
        if kcase < 1:
            ctx.sample(dict(stage="calculator", **metas[-1]))
    ctx.count("calc:excluded-float-ambiguous-cutoff", excluded)
    mism, errors, _ = run_mismatch_cases("C08c", REQ, exprs, chunk=60, defs=DEFS)
    ctx.corr_cases += len(exprs)
    corr_errors(ctx, errors)
    for i in mism:
        mm = metas[i]
        if mm["what"] == "phase":
            ctx.disagree("corr:aberr_phase", "model phase kz(1-x) + (x-1)^2 legval(x-1, c) differs from numpy's legval "
                         "(oracle check of the Clenshaw model)", dict(kind="calc", **mm))
        else:
            ctx.disagree("corr:calculator", "MieLens/AberratedMieLens calculator scattered field differs from the model "
                         "(I_0, I_2 pupil sums with phase, 0.5(I0 + I2 cos2phi), 0.5 I2 sin2phi, 3.9*npts cut-off)",
                         dict(kind="calc", **mm))


# =============================================================================================
# correspondence 3: interpolation decision, window break-points, window assignment (exact)
# =============================================================================================

def stage_interp(ctx):
    import numpy as np
    from holopy.scattering.theory import mielensfunctions as mlf
    rng = ctx.subrng("interp")
    exprs, metas = [], []
    orig = mlf.PiecewiseChebyshevApproximant
    log = []

    class Rec(orig):
        def __init__(self, function, degree, window_breakpoints, *args):
            log.append((int(degree), np.array(window_breakpoints, float)))
            super().__init__(function, degree, window_breakpoints, *args)

    c11q = Fraction(1.1)
    skipped = 0
    mlf.PiecewiseChebyshevApproximant = Rec
    try:
        for kcase in range(ctx.n(60, 800)):
            mode = rng.choice(["check", "check", "check", True, False])
            degree = rng.choice([8, 16, 32, 32])
            ws = rng.choice([4.0, 7.5, 16.0, 30.0, 30.0, 39.0])
            npt = rng.choice([1, 2, 3, 5, 8, 13, 40])
            lo = dy(rng, 0, 200)
            style = rng.random()
            if mode == "check" and style < 0.5 and npt > 1:
                # aim at the decision boundary degree*ptp/ws = 1.1*npt, a few per mille either side
                ptp = 1.1 * npt * ws / degree * rng.choice([0.99, 0.999, 1.001, 1.01, 0.9, 1.1])
                ptp = round(ptp * 64) / 64
            else:
                ptp = dy(rng, 0, 120)
            if style > 0.8:
                lo = ws * rng.randint(0, 6)          # minimum exactly on a break-point
            hi = lo + ptp
            if style > 0.9:
                hi = ws * math.ceil(hi / ws)         # maximum exactly on a break-point
            vals = [lo, hi] if npt > 1 else [lo]
            while len(vals) < npt:
                vals.append(round(rng.uniform(lo, hi) * 64) / 64)
            rng.shuffle(vals)
            if npt == 1:
                hi = lo
            krho = np.array(vals, float)
            nbig = rng.choice([0, 0, 1])             # points beyond the cut-off do not take part in the decision
            full = np.concatenate([krho, np.array([400.0 + 3 * i for i in range(nbig)])])
            ptp_q = Fraction(hi) - Fraction(lo)
            lhs = degree * ptp_q / Fraction(ws)
            rhs = c11q * npt
            if mode == "check" and abs(lhs - rhs) <= Fraction(1, 10 ** 9) * rhs:
                skipped += 1
                continue
            amb = False
            for v in (Fraction(lo) / Fraction(ws), Fraction(hi) / Fraction(ws) + Fraction(1e-4)):
                fr = v - math.floor(v)
                if 0 < fr < Fraction(1, 10 ** 9) or 1 - Fraction(1, 10 ** 9) < fr < 1:
                    amb = True
            if amb:
                skipped += 1
                continue
            calc = mlf.MieLensCalculator(particle_kz=5.0, index_ratio=1.2, size_parameter=2.0, lens_angle=0.8,
                                         interpolate_integrals=mode, interpolator_window_size=ws,
                                         interpolator_degree=degree)
            del log[:]
            calc.calculate_scattered_field(full, np.zeros(full.shape))
            interpolated = len(log) > 0
            mlit = {"check": "ICheck", True: "ITrue", False: "IOther"}[mode]
            exprs.append("Bool.eqb (interp_choice QO %s %s %s %s %s %s) %s" % (
                mlit, zlit(degree), qlit(float(hi) - float(lo)), qlit(ws), qlit(1.1), zlit(npt), blit(interpolated)))
            metas.append(dict(what="choice", mode=str(mode), degree=degree, window_size=ws, krho=[float(v) for v in full],
                              interpolated=interpolated))
            ctx.count("interp:%s:%s" % (mode, "interpolated" if interpolated else "direct"))
            ctx.nontriv(("choice", str(mode), interpolated, degree, ws))
            if interpolated:
                if any(d != degree for d, _ in log) or any(not np.array_equal(b, log[0][1]) for _, b in log):
                    ctx.violation("interp:inconsistent-windows", "the two pupil integrals were interpolated on different windows",
                                  dict(kind="interp", mode=str(mode), krho=[float(v) for v in full]))
                bps = log[0][1]
                exprs.append("qlist_eqb (breakpoints QO Qfloor %s %s %s %s) %s" % (
                    qlit(ws), qlit(lo), qlit(hi), qlit(1e-4), listlit([qlit(float(b)) for b in bps])))
                metas.append(dict(what="breakpoints", window_size=ws, min=lo, max=hi, impl=[float(b) for b in bps]))
                ctx.count("interp:windows", len(bps) - 1)
                # the property's own predicate: every rho in [min, max] lies in exactly one half-open window
                ctx.explored += 1
                for v in krho:
                    hits = sum(1 for a, b in zip(bps[:-1], bps[1:]) if a <= v < b)
                    if hits != 1:
                        ctx.violation("interp:windows-cover", "a radial coordinate lies in %d interpolation windows" % hits,
                                      dict(kind="interp", rho=float(v), breakpoints=[float(b) for b in bps]))
    finally:
        mlf.PiecewiseChebyshevApproximant = orig
    ctx.count("interp:skipped-float-ambiguous", skipped)

    # window assignment through the public class: f(x) = start of the window x belongs to (piecewise constant,
    # so every Chebyshev approximant reproduces it); exact break-points and their float neighbours included
    for kcase in range(ctx.n(40, 500)):
        ws = rng.choice([0.5, 4.0, 7.5, 30.0, 39.0])
        s0 = rng.randint(0, 9)
        nwin = rng.choice([1, 2, 3, 5])
        bps = ws * np.arange(s0, s0 + nwin + 1)
        f = lambda x, ws=ws: ws * np.floor(np.asarray(x) / ws)
        P = mlf.PiecewiseChebyshevApproximant(f, rng.choice([2, 5, 9]), bps)
        xs = []
        for _ in range(6):
            b = float(rng.choice(list(bps)))
            xs.append(rng.choice([b, float(np.nextafter(b, -1e9)), float(np.nextafter(b, 1e9)),
                                  rng.uniform(bps[0], bps[-1])]))
        inside = [v for v in xs if bps[0] <= v < bps[-1]]
        outside = [v for v in xs if not (bps[0] <= v < bps[-1])]
        bl = listlit([qlit(float(b)) for b in bps])
        if inside:
            got = P(np.array(inside))
            exprs.append("qlist_close tolc (map (piecewise_eval QO (fun w _ => fst w) 0 %s) %s) %s" % (
                bl, listlit([qlit(v) for v in inside]), listlit([qlit(float(np.real(v))) for v in got])))
            metas.append(dict(what="window-of", breakpoints=[float(b) for b in bps], x=inside, impl=[float(np.real(v)) for v in got]))
            ctx.count("interp:assign", len(inside))
        for v in outside + ([inside[0]] if inside else []):
            try:
                P(np.array([v]))
                ok = True
            except ValueError:
                ok = False
            exprs.append("Bool.eqb (domain_ok QO %s %s %s) %s" % (bl, qlit(v), qlit(v), blit(ok)))
            metas.append(dict(what="domain", breakpoints=[float(b) for b in bps], x=v, accepted=ok))
            ctx.count("interp:domain:%s" % ("accepted" if ok else "refused"))
        ctx.nontriv(("assign", ws, s0, nwin))
    mism, errors, _ = run_mismatch_cases("C08i", REQ, exprs, chunk=100, defs=DEFS)
    ctx.corr_cases += len(exprs)
    corr_errors(ctx, errors)
    for i in mism:
        mm = metas[i]
        ctx.disagree("corr:interp:%s" % mm["what"], {
            "choice": "interpolate-or-not decision differs from the model rule degree*ptp/window < 1.1*npts (check) / True / False",
            "breakpoints": "interpolation break-points differ from window*arange(floor(min/w), ceil(max/w + 1e-4) + 1)",
            "window-of": "a point was interpolated by another window than the half-open one containing it",
            "domain": "domain guard differs from  min >= first break-point and max < last break-point"}[mm["what"]],
            dict(kind="interp", **mm))


# =============================================================================================
# exploration: the quantitative core
# =============================================================================================

def gen_case(rng, tier_big):
    m = rng.uniform(1.05, 2.5)
    xsz = math.exp(rng.uniform(math.log(0.1), math.log(50)))
    kz = rng.uniform(-150, 300)
    la = rng.uniform(0.1, 1.4)
    g = rng.choice([0.0, math.pi / 2, math.pi / 4, -3 * math.pi / 4, rng.uniform(-math.pi, math.pi),
                    rng.uniform(-math.pi, math.pi), rng.uniform(-math.pi, math.pi)])
    rhomax = rng.choice([3, 20, 20, 60, 60, 150] + ([380, 700] if tier_big else [380]))
    npt = 6
    krho = [rng.uniform(0, rhomax) for _ in range(npt)]
    if rng.random() < 0.3:
        krho[0] = 0.0
    krho[1] = float(rhomax)
    phi = [rng.uniform(0, 2 * math.pi) for _ in range(npt)]
    return dict(m=m, x=xsz, kz=kz, la=la, g=g, krho=krho, phi=phi,
                d_theta=rng.choice([0, 7, 13]), d_phi=rng.choice([11, 29, 64]),
                zeros=rng.choice([[0.0], [0.0, 0.0], [0.0] * 3, [0.0] * 5, [0] * 2]),
                ws=rng.choice([4.0, 7.5, 16.0, 30.0, 39.0, 55.0]), ddeg=rng.choice([20, 24, 32]))


def orders(case):
    a = max(case["krho"]) * math.sin(case["la"])
    Phi = a + abs(case["kz"]) * (1 - math.cos(case["la"]))
    nml = max(100, int(math.ceil(Phi / 2)), int(max(case["krho"]) / 3.9) + 2)
    nth = max(100, int(math.ceil(0.75 * Phi)))
    nph = max(100, int(a + 12 * a ** (1 / 3.0) + 24))
    return nml, nth, nph


def explore_case(ctx, case, record=True):
    """evaluates the property's own predicates on one configuration; returns dict of measured deviations"""
    import numpy as np
    from holopy.scattering import Sphere, Mie, MieLens
    from holopy.scattering.theory import Lens
    from holopy.scattering.theory.mielens import AberratedMieLens
    krho = np.array(case["krho"])
    phi = np.array(case["phi"])
    x = krho * np.cos(phi) / K
    y = krho * np.sin(phi) / K
    sph = Sphere(n=case["m"] * N_MED, r=case["x"] / K, center=(0, 0, case["kz"] / K))
    pol = (math.cos(case["g"]), math.sin(case["g"]))
    la = case["la"]
    nml, nth, nph = orders(case)
    n_eq = max(nth, nph)
    ref = 2.0 if n_eq <= 260 else 1.4
    out = {}

    def ml(**kw):
        return field(MieLens(lens_angle=la, calculator_accuracy_kwargs=kw), sph, x, y, pol)

    def ln(nt, nphi):
        with warnings.catch_warnings():
            warnings.simplefilter("ignore")
            return field(Lens(la, Mie(False, False), quad_npts_theta=nt, quad_npts_phi=nphi), sph, x, y, pol)

    a = ml(quad_npts=nml) if nml != 100 else ml()
    scale = max(1.0, float(np.abs(a).max()))

    def dev(u, v):
        return float(np.abs(u - v).max()) / scale

    def report(key, what, val, tol, extra=None):
        out[key] = val
        ctx.explored += 1
        if not (val <= tol):          # also catches nan
            ctx.violation(key, what + " (deviation %.3g > %.1g, relative to max(1, max|E|) = %.3g)" % (val, tol, scale),
                          dict(kind="explore", check=key, case=case, deviation=val, tolerance=tol,
                               orders=dict(mielens=nml, lens_theta=nth, lens_phi=nph), extra=extra))

    # E_z = 0 for both
    b_eq = ln(n_eq, n_eq)
    report("ez:zero", "a lens theory returned a non-zero z component", float(max(np.abs(a[:, 2]).max(), np.abs(b_eq[:, 2]).max())), 0.0)
    # refinement of MieLens
    report("mielens:refine", "MieLens changes under quadrature refinement %d -> %d" % (nml, 2 * nml), dev(a, ml(quad_npts=2 * nml)), T_ML_REF)
    # refinement of Lens (equal counts)
    n2 = int(ref * n_eq)
    report("lens:refine", "Lens(Mie) changes under quadrature refinement %d -> %d (equal node counts)" % (n_eq, n2),
           dev(b_eq, ln(n2, n2)), T_LENS_REF)
    # unequal node counts, both converged: must not matter
    nt_u, np_u = nth + case["d_theta"], nph + case["d_phi"]
    if nt_u == np_u:
        np_u += 1
    b_un = ln(nt_u, np_u)
    d_un = dev(b_eq, b_un)
    out[KEY_UNEQUAL] = d_un
    ctx.explored += 1
    if not (d_un <= T_LENS_REF):
        ctx.violation(KEY_UNEQUAL, WHAT_UNEQUAL + " [Lens(%d, %d) vs Lens(%d, %d): deviation %.3g relative to max(1,max|E|)=%.3g; "
                      "vs MieLens: %.3g]" % (nt_u, np_u, n_eq, n_eq, d_un, scale, dev(a, b_un)),
                      dict(kind="explore", check=KEY_UNEQUAL, case=case, deviation=d_un, tolerance=T_LENS_REF,
                           quad_npts_theta=nt_u, quad_npts_phi=np_u))
    # the two theories
    report("mielens_vs_lens", "MieLens and Lens(Mie) (converged, %d x %d nodes) differ" % (n_eq, n_eq), dev(a, b_eq), T_ML_LENS)
    # interpolation options mutually consistent (defaults) and with other window sizes / degrees
    kw = {} if nml == 100 else dict(quad_npts=nml)
    a_on, a_off, a_chk = ml(interpolate_integrals=True, **kw), ml(interpolate_integrals=False, **kw), ml(interpolate_integrals="check", **kw)
    report("mielens:interp", "MieLens depends on interpolate_integrals (True / False / 'check')",
           max(dev(a_on, a_off), dev(a_chk, a_off), dev(a, a_chk)), T_INTERP)
    deg = int(case["ws"] / 2 + case["ddeg"])
    a_w = ml(interpolate_integrals=True, interpolator_window_size=case["ws"], interpolator_degree=deg, **kw)
    report("mielens:interp-window", "MieLens interpolated with window %g, degree %d differs from direct quadrature" % (case["ws"], deg),
           dev(a_w, a_off), T_INTERP)
    # zero aberration: scalar and a list
    z0 = field(AberratedMieLens(0.0, lens_angle=la, calculator_accuracy_kwargs=kw), sph, x, y, pol)
    zl = field(AberratedMieLens(case["zeros"], lens_angle=la, calculator_accuracy_kwargs=kw), sph, x, y, pol)
    report("aberrated:zero", "AberratedMieLens with all-zero coefficients (scalar 0.0 / %r) differs from MieLens" % (case["zeros"],),
           max(dev(z0, a), dev(zl, a)), T_ABERR0)
    # non-vacuity of the aberration: a non-zero coefficient changes the field (unless the pupil is tiny)
    if la > 0.6:
        z1 = field(AberratedMieLens([2.0, -1.0], lens_angle=la, calculator_accuracy_kwargs=kw), sph, x, y, pol)
        if float(np.abs(z1 - a).max()) > 1e-6 * float(np.abs(a).max()):
            ctx.nontriv(("aberration-matters", round(la, 2)))
    if record:
        ctx.count("explore:rhomax<=%d" % (3 if max(case["krho"]) <= 3 else 20 if max(case["krho"]) <= 20 else 60 if max(case["krho"]) <= 60
                                          else 150 if max(case["krho"]) <= 150 else 380 if max(case["krho"]) <= 380 else 700))
        ctx.count("explore:%s-focus" % ("above" if case["kz"] > 0 else "below"))
        ctx.count("explore:orders:%s" % ("default-100" if (nml, n_eq) == (100, 100) else "raised"))
        ctx.count("explore:x<1" if case["x"] < 1 else "explore:x<10" if case["x"] < 10 else "explore:x<=50")
        ctx.nontriv(("core", round(case["m"], 3), round(case["x"], 3), round(case["kz"], 1)))
    return out


def stage_explore(ctx):
    rng = ctx.subrng("explore")
    worst = {}
    for kcase in range(ctx.n(26, 320)):
        case = gen_case(rng, ctx.tier == "thorough")
        out = explore_case(ctx, case)
        for k, v in out.items():
            if v == v and v > worst.get(k, (-1.0,))[0]:
                worst[k] = (v, kcase)
        if kcase < 2:
            ctx.sample(dict(stage="explore", case=case, deviations=out))
    ctx.notes.append("largest deviations this run (relative to max(1, max|E|)): " +
                     ", ".join("%s %.2g" % (k, v[0]) for k, v in sorted(worst.items())))


def history_case(ctx, case):
    """one theory OBJECT of each kind used for a sequence of calculations (focus scan: same detector points and
    in-plane position, only z changes; then other points; then a repeat of the first step), each step compared with
    a fresh object of the same kind; and two spheres stacked on the optical axis in one call against the sum of the
    two single-sphere fields.  The value of a calculation must not depend on what the object computed before."""
    import numpy as np
    from holopy.scattering import Sphere, Spheres, Mie, MieLens
    from holopy.scattering.theory import Lens
    from holopy.scattering.theory.mielens import AberratedMieLens
    la, n, r = case["la"], case["m"] * N_MED, case["x"] / K
    pol = (math.cos(case["g"]), math.sin(case["g"]))
    krho, phi = np.array(case["krho"]), np.array(case["phi"])
    x, y = krho * np.cos(phi) / K, krho * np.sin(phi) / K
    makers = {"mielens": lambda: MieLens(lens_angle=la),
              "amielens": lambda: AberratedMieLens([0.5, -0.25], lens_angle=la),
              "lens": lambda: Lens(la, Mie(False, False), quad_npts_theta=case["nq"], quad_npts_phi=case["nq"])}
    steps = [("z", z) for z in case["zs"]] + [("pts", case["zs"][0]), ("z", case["zs"][0])]
    for name, mk in makers.items():
        shared = mk()
        worst, wstep = 0.0, None
        for i, (kind, z) in enumerate(steps):
            xs, ys = (x, y) if kind == "z" else (x[::-1] * 0.5, y[::-1] * 0.5)
            sph = Sphere(n=n, r=r, center=(case["cx"], case["cy"], z))
            a = field(shared, sph, xs + case["cx"], ys + case["cy"], pol)
            b = field(mk(), sph, xs + case["cx"], ys + case["cy"], pol)
            d = float(np.abs(a - b).max()) / max(1.0, float(np.abs(b).max()))
            if d > worst:
                worst, wstep = d, i
        ctx.explored += 1
        ctx.count("history:%s" % name)
        ctx.nontriv(("history", name, round(case["la"], 2), len(steps)))
        if not worst <= 1e-12:
            ctx.violation("history:%s" % name, "a %s object re-used for a sequence of calculations (same detector points, particle "
                          "moved along z only) returns a field that differs from a fresh object's at step %d (relative deviation %.3g)"
                          % (name, wstep, worst), dict(kind="history", theory=name, case=case, step=wstep, deviation=worst))
        # two spheres on the axis, one call
        s1 = Sphere(n=n, r=r, center=(case["cx"], case["cy"], case["zs"][0]))
        s2 = Sphere(n=n, r=r * 0.8, center=(case["cx"], case["cy"], case["zs"][0] + 4 * r + 1.0))
        both = field(mk(), Spheres([s1, s2]), x + case["cx"], y + case["cy"], pol)
        parts = field(mk(), s1, x + case["cx"], y + case["cy"], pol) + field(mk(), s2, x + case["cx"], y + case["cy"], pol)
        d = float(np.abs(both - parts).max()) / max(1.0, float(np.abs(parts).max()))
        ctx.explored += 1
        if not d <= 1e-12:
            ctx.violation("history:%s:stacked" % name, "%s: two spheres stacked on the optical axis in one call differ from the sum of "
                          "the two single-sphere fields (relative deviation %.3g)" % (name, d),
                          dict(kind="history", theory=name, case=case, step="stacked", deviation=d))


def siblings_case(ctx, case):
    """the SAME sphere looked at through several lenses one after the other (other acceptance angle, other quadrature order,
    other interpolation settings - one-factor siblings of one request), each compared with the converged Lens(Mie) and with
    AberratedMieLens(zeros): what a cache keyed on the particle alone would confuse"""
    import numpy as np
    from holopy.scattering import Sphere, Mie, MieLens
    from holopy.scattering.theory import Lens
    from holopy.scattering.theory.mielens import AberratedMieLens
    n, r = case["m"] * N_MED, case["x"] / K
    sph = Sphere(n=n, r=r, center=(0.0, 0.0, case["kz"] / K))
    pol = (math.cos(case["g"]), math.sin(case["g"]))
    krho, phi = np.array(case["krho"]), np.array(case["phi"])
    x, y = krho * np.cos(phi) / K, krho * np.sin(phi) / K
    for i, (la, kw) in enumerate(case["lenses"]):
        a = field(MieLens(lens_angle=la, calculator_accuracy_kwargs=kw), sph, x, y, pol)
        z = field(AberratedMieLens([0.0, 0.0], lens_angle=la, calculator_accuracy_kwargs=kw), sph, x, y, pol)
        with warnings.catch_warnings():
            warnings.simplefilter("ignore")
            b = field(Lens(la, Mie(False, False), quad_npts_theta=case["nq"], quad_npts_phi=case["nq"]), sph, x, y, pol)
        scale = max(1.0, float(np.abs(b).max()))
        d1, d2 = float(np.abs(a - b).max()) / scale, float(np.abs(a - z).max()) / scale
        ctx.explored += 1
        ctx.count("siblings:lens")
        ctx.nontriv(("siblings", round(la, 3), str(sorted(kw.items()))))
        meta = dict(kind="siblings", case=case, step=i, lens_angle=la, accuracy=kw, deviation=[d1, d2])
        if not d1 <= T_ML_LENS:
            ctx.violation("siblings:mielens_vs_lens", "MieLens(lens_angle=%.4g, %r), computed after the same sphere through other lenses, "
                          "differs from the converged Lens(Mie) by %.3g" % (la, kw, d1), meta)
        if not d2 <= T_ABERR0:
            ctx.violation("siblings:aberrated:zero", "AberratedMieLens(zeros) differs from MieLens (lens_angle=%.4g, %r) by %.3g in a series "
                          "over one sphere" % (la, kw, d2), meta)


def big_detector_case(ctx, case):
    """a detector of several thousand pixels with a generous pupil quadrature (tens of millions of integrand values):
    Lens(Mie) against MieLens pixel by pixel, and a few pixels again alone"""
    import numpy as np
    from holopy.scattering import Sphere, Mie, MieLens
    from holopy.scattering.theory import Lens
    nside, nq, la = case["nside"], case["nq"], case["la"]
    sph = Sphere(n=case["m"] * N_MED, r=case["x"] / K, center=(0.0, 0.0, case["kz"] / K))
    g = (np.arange(nside) - (nside - 1) / 2.0) * case["spacing"]
    X, Y = np.meshgrid(g, g, indexing="ij")
    x, y = X.ravel(), Y.ravel()
    pol = (math.cos(case["g"]), math.sin(case["g"]))
    with warnings.catch_warnings():
        warnings.simplefilter("ignore")
        b = field(Lens(la, Mie(False, False), quad_npts_theta=nq, quad_npts_phi=nq), sph, x, y, pol)
        idx = case["alone"]
        bs = field(Lens(la, Mie(False, False), quad_npts_theta=nq, quad_npts_phi=nq), sph, x[idx], y[idx], pol)
    a = field(MieLens(lens_angle=la), sph, x, y, pol)
    scale = max(1.0, float(np.abs(a).max()))
    d = float(np.abs(a - b).max()) / scale
    db = float(np.abs(b[idx] - bs).max()) / scale
    ctx.explored += 1
    ctx.count("big-detector:%dx%d:q%d" % (nside, nside, nq))
    ctx.nontriv(("big", nside, nq))
    meta = dict(kind="big-detector", case=case, deviation=[d, db], zeros=int(np.sum(np.abs(b).sum(axis=1) == 0)))
    if not d <= T_ML_LENS * 10:
        ctx.violation("big-detector:mielens_vs_lens", "on a %dx%d detector with a %dx%d pupil quadrature Lens(Mie) differs from MieLens by "
                      "%.3g (%d pixels are exactly 0)" % (nside, nside, nq, nq, d, meta["zeros"]), meta)
    if not db <= 1e-10:
        ctx.violation("big-detector:batch", "Lens(Mie) values depend on how many pixels are computed in one call (%.3g)" % db, meta)


def stage_history(ctx):
    rng = ctx.subrng("history")
    for kcase in range(ctx.n(3, 16)):
        z0 = rng.choice([1, -1]) * rng.uniform(1.0, 8.0)
        case = dict(m=rng.uniform(1.1, 1.3), x=rng.uniform(1.0, 8.0), la=rng.uniform(0.3, 1.1), g=rng.uniform(-math.pi, math.pi),
                    krho=[rng.uniform(0, 40) for _ in range(6)], phi=[rng.uniform(0, 2 * math.pi) for _ in range(6)],
                    cx=rng.uniform(-2, 2), cy=rng.uniform(-2, 2), nq=rng.choice([40, 60]),
                    zs=[z0, z0 + rng.uniform(0.5, 3.0), -z0, z0 - rng.uniform(0.5, 3.0)])
        history_case(ctx, case)
    for kcase in range(ctx.n(2, 8)):
        la0 = rng.uniform(0.5, 0.7)
        lenses = [(la0, {}), (la0 * 1.5, {}), (la0, dict(quad_npts=160)), (la0 * 0.7, dict(interpolate_integrals=False)),
                  (la0, dict(interpolate_integrals=True, interpolator_window_size=16.0, interpolator_degree=30)), (la0 * 1.5, {})]
        rng.shuffle(lenses)
        siblings_case(ctx, dict(m=rng.uniform(1.1, 1.3), x=rng.uniform(2.0, 8.0), kz=rng.uniform(-60, 90), g=rng.uniform(-math.pi, math.pi),
                                krho=[rng.uniform(0, 45) for _ in range(6)], phi=[rng.uniform(0, 2 * math.pi) for _ in range(6)],
                                nq=130, lenses=lenses))
    for kcase in range(ctx.n(1, 3)):
        nside, nq = rng.choice([(72, 64), (66, 63)])
        big_detector_case(ctx, dict(nside=nside, nq=nq, la=rng.uniform(0.5, 0.8), spacing=0.09, m=rng.uniform(1.1, 1.3),
                                    x=rng.uniform(2.0, 6.0), kz=rng.uniform(20, 70), g=rng.uniform(-math.pi, math.pi),
                                    alone=sorted(rng.sample(range(nside * nside), 5))))


def stage_cutoff(ctx):
    """documented truncation: at default order MieLens is exactly 0 at and beyond krho = 3.9*100; with the order raised so
    that the same points lie below the cut-off (and the quadrature is converged) it agrees with Lens again"""
    import numpy as np
    from holopy.scattering import Sphere, Mie, MieLens
    from holopy.scattering.theory import Lens
    rng = ctx.subrng("cutoff")
    for kcase in range(ctx.n(3, 24)):
        la = rng.uniform(0.3, 1.2)
        kz = rng.uniform(-40, 60)
        xsz = math.exp(rng.uniform(math.log(0.5), math.log(20)))
        m = rng.uniform(1.05, 2.5)
        g = rng.uniform(-math.pi, math.pi)
        cut = 3.9 * 100
        # detector coordinates are recomputed by the library (sqrt): stay 1e-9 away from the exact boundary
        krho = np.array([cut * (1 - 1e-9), cut * (1 + 1e-9), cut * (1 + 1e-6), rng.uniform(cut, 480), rng.uniform(cut, 480)])
        phi = np.array([rng.uniform(0, 2 * math.pi) for _ in krho])
        x, y = krho * np.cos(phi) / K, krho * np.sin(phi) / K
        sph = Sphere(n=m * N_MED, r=xsz / K, center=(0, 0, kz / K))
        pol = (math.cos(g), math.sin(g))
        a = field(MieLens(lens_angle=la), sph, x, y, pol)
        case = dict(kind="cutoff", m=m, x=xsz, kz=kz, la=la, g=g, krho=[float(v) for v in krho], phi=[float(v) for v in phi])
        ctx.explored += 1
        if not (np.abs(a[1:]).max() == 0.0 and np.abs(a[0]).max() > 0.0):
            ctx.violation("mielens:cutoff", "MieLens at default order is not (non-zero just below, exactly zero at and beyond) krho = 3.9*quad_npts",
                          dict(case=case, kind="cutoff", field_abs=[float(v) for v in np.abs(a).max(axis=1)]))
        Phi = krho.max() * math.sin(la) + abs(kz) * (1 - math.cos(la))
        aa = krho.max() * math.sin(la)
        nml = max(130, int(math.ceil(Phi / 2)))
        n_eq = max(100, int(math.ceil(0.75 * Phi)), int(aa + 12 * aa ** (1 / 3.0) + 24))
        a2 = field(MieLens(lens_angle=la, calculator_accuracy_kwargs=dict(quad_npts=nml)), sph, x, y, pol)
        with warnings.catch_warnings():
            warnings.simplefilter("ignore")
            b = field(Lens(la, Mie(False, False), quad_npts_theta=n_eq, quad_npts_phi=n_eq), sph, x, y, pol)
        scale = max(1.0, float(np.abs(a2).max()))
        d = float(np.abs(a2 - b).max()) / scale
        ctx.explored += 1
        ctx.count("cutoff:beyond-default-cutoff")
        ctx.nontriv(("cutoff", kcase))
        if not d <= T_ML_LENS:
            ctx.violation("mielens_vs_lens:beyond-default-cutoff", "MieLens (order raised to %d) and Lens(%d x %d) differ at krho "
                          "beyond 390 (%.3g)" % (nml, n_eq, n_eq, d), dict(kind="cutoff", case=case, deviation=d))
        if kcase == 0:
            ctx.notes.append("truncated field: |E| of the true field just beyond the default cut-off in the first sampled case = %.3g "
                             "(MieLens default returns exactly 0 there; documented)" % float(np.abs(a2[2:]).max()))


def stage_refusals(ctx):
    """inputs the property does not quantify over: recorded, never alarmed on"""
    import numpy as np
    from holopy.scattering import Sphere
    from holopy.scattering.theory.mielens import AberratedMieLens
    try:
        field(AberratedMieLens([], lens_angle=0.8), Sphere(n=1.59, r=0.5, center=(0, 0, 5)), [0.1], [0.2], (1, 0))
        ctx.notes.append("AberratedMieLens([]) (empty coefficient list) returned a field")
    except Exception as e:  # noqa
        ctx.notes.append("AberratedMieLens([]) (empty coefficient list) is refused with %s (numpy legval needs >= 1 coefficient); "
                         "'a list of any length' is read as length >= 1" % type(e).__name__)
    from holopy.scattering.theory import lens as lens_mod
    ctx.notes.append("numexpr installed: %s (only the numpy path of Lens exists here; 'independent of the acceleration library' "
                     "is not exercisable)" % lens_mod.NUMEXPR_INSTALLED)


def _src_items():
    from harness.lib import pysrc
    return [dict(file="holopy/scattering/theory/mielens.py", qualname="MieLens.raw_fields (index_ratio .. phi)", name="mielens_setup_src",
                 fn=lambda repo: pysrc.translate_segment(
                     repo, "holopy/scattering/theory/mielens.py", "MieLens.raw_fields", "mielens_setup_src", "index_ratio", "phi",
                     ["index_ratio", "size_parameter", "rho", "phi", "z", "pol_angle"], inputs=["medium_wavevec", "medium_index"],
                     triples=["positions"], calls={"mod2pi": ("mod2pi", 1), "np.arctan2": ("atan2", 2)},
                     opaque_exprs={"scatterer.n": "n", "scatterer.r": "r", "illum_polarization.values[1]": "py",
                                   "illum_polarization.values[0]": "px"},
                     extra_sig="(mod2pi : R -> R) (atan2 : R -> R -> R)"))]


def stage_srctie(ctx):
    from harness.lib import srctie
    ok = srctie.run(ctx, "C08", "From HV Require Import C08.Model C08.Lemmas C08.Props.\n", _src_items())
    ctx.count("srctie:%s" % ("ok" if ok else "broken"))


def run(ctx):
    ctx.rule = ("explore: sphere (m 1.05-2.5, size parameter 0.1-50 log-uniform) x k*z in [-150, 300] x lens angle 0.1-1.4 x "
                "polarisation angle (axes, diagonals, arbitrary) x 6 detector points with k*rho up to 3/20/60/150/380(/700 thorough); "
                "quadrature orders from the stated phase-budget rule (default 100 when it satisfies the rule); non-trivial = "
                "distinct (m, x, kz); correspondence: small quadratures (2-6 x 3-8 pupil nodes with a mock 4-amplitude theory, "
                "3-8 node MieLens calculators with 0-6 aberration coefficients), decision boundaries approached to 1e-3, "
                "break-points hit exactly and at adjacent doubles; non-trivial = distinct (nodes, kind) classes")
    ctx.clauses_proved = [
        "numpy legval (Clenshaw) on an all-zero list of any length / scalar 0 is 0; legval = Legendre series for every list",
        "all-zero aberration: phase, pupil integrals I_0, I_2 and field identical to MieLens (any oracles)",
        "phase factors exp(ikz)/(-1) and -exp(ikz) agree; E_z = 0 in both assemblies",
        "Lens pupil sum (any nodes/weights, diagonal azimuth-independent S) = 1/2(L0 + cos2d L2c - sin2d L2s, sin2d L2c + cos2d L2s); "
        "equal to the MieLens assembly for every azimuth and polarisation GIVEN L0 = I_0, L2c = I_2, L2s = 0",
        "cut-off: field exactly 0 iff krho >= 3.9*quad_npts; interpolation decision rule",
        "interpolation windows: guard accepts [min, max]; every rho in it lies in exactly one half-open window; overwrite loop returns it",
        "Lens matrix layout with reshape(nphi, ntheta): node (p,q) carries S(theta_p, phi_q) for all node counts; as-found reshape "
        "correct for equal counts, refuted for unequal (Findings.reshape_unequal_refuted)",
        "Q instance executed in the correspondence = R instance of the theorems (decisions, Lens integrands)"]
    ctx.clauses_explored = [
        "MieLens = Lens(Mie) numerically (the Bessel identity L0 = I_0, L2c = I_2, L2s = 0 and convergence of both quadratures): "
        "tolerance 1e-6 * max(1, max|E|), measured 1.5e-8",
        "refining either quadrature does not change the field (converged regime by the stated rule): 1e-8 / 1e-9",
        "unequal Lens node counts do not change the field: 1e-9",
        "interpolation True / False / 'check' and other window sizes / degrees (degree >= window/2 + 20) agree: 1e-8",
        "AberratedMieLens with zero coefficients (scalar, lists of length 1-5, int zeros) equals MieLens bit-close: 1e-14",
        "beyond the default cut-off: exactly 0 at default order; agreement with Lens once the order is raised",
        "independence of the numexpr acceleration: NOT exercisable (numexpr is not installed in this image)",
        "history independence: one MieLens / AberratedMieLens / Lens object re-used over a focus scan and other point sets equals a "
        "fresh object at every step (1e-12); two spheres stacked on the axis = sum of the single-sphere fields"]
    ctx.trusted += [
        "oracle: numpy exp/cos/sin/sqrt/arctan2/arccos, scipy j0, mielensfunctions.j2 values at the inputs (leaves of the model)",
        "oracle: Gauss-Legendre nodes/weights (numpy leggauss via the modules' gauss_legendre_pts_wts), equispaced azimuth nodes",
        "oracle: Mie amplitudes S_perp, S_prll (mielensfunctions.MieScatteringMatrix) and the mock theory's S1..S4; "
        "the Fortran far-field Mie amplitudes enter only the exploration",
        "oracle: numpy legval is compared with the model's Clenshaw loop to 1e-12 on every aberrated case",
        "unproved, explored only: (1/2pi) int exp(i a cos u) {1, cos2u, sin2u} du = {J0(a), -J2(a), 0}; quadrature convergence; "
        "Chebyshev interpolation accuracy"]
    ctx.clauses_proved.append(
        "source tie: the set-up lines of MieLens.raw_fields (index ratio, size parameter, azimuth measured from the polarisation "
        "direction and reduced modulo 2 pi), translated from the current source text on every run: the azimuth handed to the lens "
        "integrals is relative to the polarisation (turning detector and polarisation together leaves it unchanged), the sphere "
        "enters through n / n_m and k r only")
    ctx.trusted.append("translator harness/lib/pysrc.py (segment index_ratio .. phi of MieLens.raw_fields; np.arctan2 and the float "
                       "operator % (2 pi) are oracle parameters; scatterer.n, scatterer.r and the polarisation components opaque reals)")
    guarded(ctx, "prove", ctx.prove)
    guarded(ctx, "source-tie", stage_srctie, ctx)
    boot.boot()
    warnings.simplefilter("ignore")
    guarded(ctx, "pupil", stage_pupil, ctx)
    guarded(ctx, "calculator", stage_calculator, ctx)
    guarded(ctx, "interp", stage_interp, ctx)
    guarded(ctx, "explore", stage_explore, ctx)
    guarded(ctx, "history", stage_history, ctx)
    guarded(ctx, "cutoff", stage_cutoff, ctx)
    guarded(ctx, "refusals", stage_refusals, ctx)


def replay(ctx, data):
    """re-run the stored failing case on the current tree"""
    d = data["data"]
    if d.get("kind") == "tie":
        ctx.prove()
        stage_srctie(ctx)
        return
    boot.boot()
    warnings.simplefilter("ignore")
    if d.get("kind") == "history" and "case" in d:
        history_case(ctx, d["case"])
    elif d.get("kind") == "siblings" and "case" in d:
        siblings_case(ctx, d["case"])
    elif d.get("kind") == "big-detector" and "case" in d:
        big_detector_case(ctx, d["case"])
    elif d.get("kind") == "explore" and "case" in d:
        out = explore_case(ctx, d["case"], record=False)
        print("replay: deviations " + ", ".join("%s=%.3g" % kv for kv in sorted(out.items())))
    else:
        print("replay: re-running the whole check with the recorded seed")
        ctx.seed = data.get("seed", ctx.seed)
        run(ctx)

"""C10 - T-matrix theory: proof obligations + correspondence of argument parsing / guards /
packing / field assembly + direct exploration (sphere = Mie at every azimuth, symmetries,
never killing the interpreter).

Every call that may reach the Fortran code runs in a CHILD process (a Fortran STOP ends the whole
interpreter, possibly with exit status 0); the parent classifies each job as
returned / raised a Python exception / process died."""
import json
import math
import os
import subprocess
import sys
import time
from concurrent.futures import ThreadPoolExecutor
from fractions import Fraction

from harness.lib import boot
from harness.lib.coqrun import RUN_ROOT
from harness.lib.coqrun import qlit, zlit, blit, listlit, run_mismatch_cases, BUILD
from harness.lib.ctx import guarded

REQ = ("From Coq Require Import Qround.\nFrom HV Require Import Common.Generic Common.Cmp C10.Model.\n"
       "Open Scope Q_scope.\n")
DEFS = """
Definition piQ : Q := %s.
Definition cxclose (tol : Q) (a b : cx Q) : bool := qclose tol (fst a) (fst b) && qclose tol (snd a) (snd b).
Definition m22close (tol : Q) (a b : m22 Q) : bool :=
  let '(a11, a12, a21, a22) := a in let '(b11, b12, b21, b22) := b in
  cxclose tol a11 b11 && cxclose tol a12 b12 && cxclose tol a21 b21 && cxclose tol a22 b22.
Definition v3close (tol : Q) (a b : cx Q * cx Q * cx Q) : bool :=
  let '(a1, a2, a3) := a in let '(b1, b2, b3) := b in cxclose tol a1 b1 && cxclose tol a2 b2 && cxclose tol a3 b3.
Definition argsclose (tol : Q) (a b : args Q) : bool :=
  qclose tol (a_axi a) (a_axi b) && qclose tol (a_rat a) (a_rat b) && qclose tol (a_lam a) (a_lam b) &&
  qclose tol (a_mrr a) (a_mrr b) && qclose tol (a_mri a) (a_mri b) && qclose tol (a_eps a) (a_eps b) &&
  Z.eqb (a_np a) (a_np b) && Z.eqb (a_ndgs a) (a_ndgs b) &&
  qclose tol (a_alpha a) (a_alpha b) && qclose tol (a_beta a) (a_beta b) &&
  qclose tol (a_thet0 a) (a_thet0 b) && qlist_close tol (a_thet a) (a_thet b) &&
  qclose tol (a_phi0 a) (a_phi0 b) && qlist_close tol (a_phi a) (a_phi b) && Z.eqb (a_nang a) (a_nang b).
""" % qlit(math.pi)

TAGSUF = os.environ.get("C10_RUNTAG", "")   # lets two runs (mutation self-test) use separate scratch dirs
RUNDIR = os.path.join(RUN_ROOT, "C10jobs" + TAGSUF)
WAVELEN, NMED = 0.66, 1.33
K = 2 * math.pi / (WAVELEN / NMED)


# =============================================================================================
# child side
# =============================================================================================

def _mk_scatterer(sp):
    from holopy.scattering import Sphere, Spheroid, Cylinder
    n = complex(*sp["n"])
    if n.imag == 0:
        n = n.real
    kw = {}
    if sp.get("center") is not None:
        kw["center"] = tuple(sp["center"])
    if sp["kind"] == "sphere":
        return Sphere(n=n, r=sp["r"], **kw)
    if sp["kind"] == "spheroid":
        return Spheroid(n=n, r=tuple(sp["r"]), rotation=tuple(sp["rotation"]), **kw)
    return Cylinder(n=n, d=sp["d"], h=sp["h"], rotation=tuple(sp["rotation"]), **kw)


def _c(z):
    return [float(z.real), float(z.imag)]


def _carr(a):
    import numpy as np
    a = np.asarray(a)
    if a.ndim == 0:
        return _c(complex(a))
    return [_carr(x) for x in a]


def _theory(name):
    from holopy.scattering import Tmatrix, Mie
    from holopy.scattering.theory import Lens
    if name == "tmatrix":
        return Tmatrix()
    if name == "mie":
        return Mie(False, False)
    if name.startswith("lens:"):
        _, ang, inner = name.split(":")
        return Lens(float(ang), _theory(inner))
    raise ValueError(name)


def _child_job(job):
    import numpy as np
    import pandas as pd
    kind = job["kind"]
    if kind == "history":
        return _history_child(job["spec"])
    if kind == "seq":
        # a sequence of public calc_field requests in ONE interpreter (the Fortran solver keeps COMMON / SAVE state)
        from holopy.scattering import calc_field
        from holopy.core.metadata import detector_points
        out = []
        for i in job["order"]:
            q = job["requests"][i]
            p = np.array(q["points"], dtype=float)
            det = detector_points(x=p[:, 0], y=p[:, 1], z=p[:, 2])
            f = calc_field(det, _mk_scatterer(q["scat"]), medium_index=q["nmed"], illum_wavelen=q["wavelen"],
                           illum_polarization=(1, 0), theory=_theory("tmatrix"))
            out.append(_carr(np.asarray(f.transpose("point", "vector").values)))
        return dict(fields=out)
    if kind == "parse":
        from holopy.scattering import Tmatrix
        s = _mk_scatterer(job["scat"])
        args = Tmatrix()._parse_args(s, np.array(job["pos"], dtype=float).T, job["k"], job["nmed"])
        return dict(args=[(np.asarray(a, dtype=float).tolist() if np.ndim(a) else
                           (int(a) if isinstance(a, (int, np.integer)) and not isinstance(a, bool) else float(a)))
                          for a in args])
    if kind == "raw":
        from holopy.scattering import Tmatrix
        from holopy.scattering.theory.tmatrix_f.S import ampld
        th = Tmatrix()
        s = _mk_scatterer(job["scat"])
        pos = np.array(job["pos"], dtype=float).T
        args = th._parse_args(s, pos, job["k"], job["nmed"])
        raw = ampld(*args)[:4]
        raw = [np.array(r, dtype=complex) for r in raw]
        sm = np.asarray(th._run_tmat(args))
        f = np.asarray(th.raw_fields(pos, s, job["k"], job["nmed"], pd.Series([1, 0])))
        phideg = np.asarray(args[13], dtype=float)
        phir = phideg * np.pi / 180
        return dict(lam=float(args[2]), raw=[_carr(r) for r in raw], sm=_carr(sm), fields=_carr(f.T),
                    cs_run=[[float(np.cos(p)), float(np.sin(p))] for p in phir],
                    cs_pos=[[float(np.cos(p)), float(np.sin(p))] for p in pos[2]],
                    ctst=[[float(np.cos(t)), float(np.sin(t))] for t in pos[1]],
                    pref=[_c(1j / kr * np.exp(1j * kr)) for kr in pos[0]])
    if kind == "runargs":
        from holopy.scattering import Tmatrix
        a = list(job["args"])
        a[11] = np.array(a[11], dtype=float)
        a[13] = np.array(a[13], dtype=float)
        sm = np.asarray(Tmatrix()._run_tmat(a))
        return dict(finite=bool(np.isfinite(sm).all()))
    if kind == "smat":
        # public: calc_scat_matrix at far-field detector points
        from holopy.scattering import calc_scat_matrix
        from holopy.core.metadata import detector_points
        s = _mk_scatterer(job["scat"])
        det = detector_points(theta=np.array(job["theta"]), phi=np.array(job["phi"]))
        out = {}
        for th in job["theories"]:
            m = calc_scat_matrix(det, s, medium_index=job["nmed"], illum_wavelen=job["wavelen"],
                                 theory=_theory(th))
            out[th] = _carr(np.asarray(m.values))
        return out
    if kind == "field":
        # public: calc_field at detector points given in Cartesian coordinates
        from holopy.scattering import calc_field
        from holopy.core.metadata import detector_points
        s = _mk_scatterer(job["scat"])
        p = np.array(job["points"], dtype=float)
        det = detector_points(x=p[:, 0], y=p[:, 1], z=p[:, 2])
        out = {}
        for th in job["theories"]:
            f = calc_field(det, s, medium_index=job["nmed"], illum_wavelen=job["wavelen"],
                           illum_polarization=(1, 0), theory=_theory(th))
            out[th] = _carr(np.asarray(f.transpose("point", "vector").values))
        return out
    if kind == "holo":
        from holopy.scattering import calc_holo
        from holopy.core.metadata import detector_grid
        s = _mk_scatterer(job["scat"])
        det = detector_grid(shape=job["shape"], spacing=job["spacing"])
        out = {}
        for th in job["theories"]:
            h = calc_holo(det, s, medium_index=job["nmed"], illum_wavelen=job["wavelen"],
                          illum_polarization=(1, 0), theory=_theory(th))
            out[th] = np.asarray(h.values, dtype=float).reshape(-1).tolist()
        return out
    raise ValueError("unknown job kind " + kind)


def child_main(jobfile, resfile):
    boot.boot()
    jobs = [json.loads(l) for l in open(jobfile)]
    with open(resfile, "a") as out:
        for j in jobs:
            out.write(json.dumps({"id": j["id"], "start": True}) + "\n")
            out.flush()
            try:
                r = {"id": j["id"], "ok": _child_job(j)}
            except Exception as e:  # noqa - classification is the point
                r = {"id": j["id"], "exc": type(e).__name__, "msg": str(e)[:300]}
            out.write(json.dumps(r) + "\n")
            out.flush()
            os.fsync(out.fileno())
    sys.stdout.flush()
    os._exit(0)


# =============================================================================================
# parent side: job runner
# =============================================================================================

def _run_chunk(tag, chunk, timeout):
    """Run jobs in one child; when the child dies, the job it had started is classified as
    'died' and a fresh child goes on with the rest."""
    results = {}
    pending = list(chunk)
    rnd = 0
    env = dict(os.environ)
    env["PYTHONPATH"] = "%s:%s" % (os.path.dirname(BUILD), boot.REPO)
    env["HOLOPY_REPO"] = boot.REPO
    while pending:
        rnd += 1
        jf = os.path.join(RUNDIR, "%s_%d.jobs" % (tag, rnd))
        rf = os.path.join(RUNDIR, "%s_%d.res" % (tag, rnd))
        with open(jf, "w") as f:
            for j in pending:
                f.write(json.dumps(j) + "\n")
        if os.path.exists(rf):
            os.remove(rf)
        timed_out = False
        try:
            p = subprocess.run([sys.executable, "-W", "ignore", "-m", "harness.props.c10", "--child", jf, rf],
                               env=env, stdout=subprocess.DEVNULL, stderr=subprocess.PIPE, timeout=timeout,
                               cwd=os.path.dirname(BUILD))
            rc, err = p.returncode, p.stderr.decode("utf8", "replace")[-400:]
        except subprocess.TimeoutExpired:
            rc, err, timed_out = -999, "timeout", True
        started = None
        if os.path.exists(rf):
            for line in open(rf):
                try:
                    r = json.loads(line)
                except ValueError:
                    continue
                if r.get("start"):
                    started = r["id"]
                else:
                    results[r["id"]] = r
                    started = None
        before = len(pending)
        pending = [j for j in pending if j["id"] not in results]
        if pending and (started is not None or len(pending) == before):
            # the child ended while working on `started` (or before starting anything)
            victim = started if started is not None else pending[0]["id"]
            results[victim] = {"id": victim, "timeout": True} if timed_out else \
                {"id": victim, "died": True, "rc": rc, "stderr": err}
            pending = [j for j in pending if j["id"] != victim]
    return results


def run_jobs(tag, jobs, nproc=3, timeout=900):
    os.makedirs(RUNDIR, exist_ok=True)
    for i, j in enumerate(jobs):
        j["id"] = i
    chunks = [jobs[i::nproc] for i in range(nproc)]
    res = {}
    with ThreadPoolExecutor(nproc) as ex:
        for r in ex.map(lambda ic: _run_chunk("%s%d" % (tag, ic[0]), ic[1], timeout), enumerate(chunks)):
            res.update(r)
    return [res.get(i, {"id": i, "died": True, "rc": None, "stderr": "no result"}) for i in range(len(jobs))]


def outcome(r):
    if "ok" in r:
        return "returned"
    if "exc" in r:
        return "raised:" + r["exc"]
    if r.get("timeout"):
        return "timeout"
    return "died"


# =============================================================================================
# generators
# =============================================================================================

def dy(rng, lo, hi, bits=8):
    s = 1 << bits
    return rng.randint(int(lo * s), int(hi * s)) / s


def gen_angle(rng):
    """Euler angle in radians: mostly in range, often negative / beyond 2 pi, sometimes exact multiples of pi"""
    m = rng.random()
    if m < 0.35:
        return rng.uniform(0.01, math.pi - 0.01)
    if m < 0.55:
        return rng.uniform(-7.0, -0.01)
    if m < 0.75:
        return rng.uniform(math.pi + 0.01, 14.0)
    if m < 0.85:
        return rng.choice([0.0, math.pi, 2 * math.pi, -math.pi, math.pi / 2])
    return dy(rng, -8, 8, 4)


def gen_scat(rng, kinds=("sphere", "spheroid", "cylinder"), absorbing=None, rot=None, small=True):
    kind = rng.choice(kinds)
    n = [dy(rng, 1.35, 1.8, 6), 0.0]
    if absorbing is None:
        absorbing = rng.random() < 0.3
    if absorbing:
        n[1] = dy(rng, 0.004, 0.1, 8)
    rotation = rot if rot is not None else [gen_angle(rng), gen_angle(rng), gen_angle(rng)]
    if kind == "sphere":
        return dict(kind="sphere", n=n, r=dy(rng, 0.05, 0.8, 6))
    if kind == "spheroid":
        a = dy(rng, 0.15, 0.5, 6)
        ratio = rng.choice([0.3, 0.5, 0.75, 1.0, 1.25, 2.0, 3.0]) if small else rng.uniform(0.3, 3.0)
        return dict(kind="spheroid", n=n, r=[a, a * ratio], rotation=rotation)
    d = dy(rng, 0.2, 0.6, 6)
    ratio = rng.choice([0.5, 0.75, 1.0, 1.5, 2.0])
    return dict(kind="cylinder", n=n, d=d, h=d * ratio, rotation=rotation)


def rot_of(sp):
    return sp.get("rotation", [0.0, 0.0, 0.0]) if sp["kind"] != "sphere" else [0.0, 0.0, 0.0]


def deg_float(x):
    return x * 180 / math.pi


def norm_float(a, b):
    """the repaired normalisation, in floats as Python computes it"""
    b = b % 360
    if b > 180:
        b = 360 - b
        a = a + 180
    return a % 360, b


PI_FR = Fraction(*math.pi.as_integer_ratio())


def branch_safe(rot):
    """exact and float evaluation of the normalisation take the same branches (so that the exact
    model and the float implementation may be compared with a small tolerance)"""
    out = True
    bdeg = Fraction(*float(rot[1]).as_integer_ratio()) * 180 / PI_FR
    adeg = Fraction(*float(rot[2]).as_integer_ratio()) * 180 / PI_FR
    b1 = bdeg - 360 * math.floor(bdeg / 360)
    fb1 = deg_float(rot[1]) % 360
    if abs(float(b1) - fb1) > 1e-6:
        return False
    for v in (b1, b1 - 180):
        if v != 0 and abs(v) < Fraction(1, 10 ** 6):
            out = False
    if (b1 > 180) != (fb1 > 180):
        out = False
    a2 = adeg + (180 if b1 > 180 else 0)
    a3 = a2 - 360 * math.floor(a2 / 360)
    fa = (deg_float(rot[2]) + (180 if fb1 > 180 else 0)) % 360
    if abs(float(a3) - fa) > 1e-6:
        out = False
    return out


def scat_lit(sp, cb):
    q = qlit
    rot = rot_of(sp)
    rl = "(%s, %s, %s)" % (q(rot[0]), q(rot[1]), q(rot[2]))
    if sp["kind"] == "sphere":
        return "(Sphere %s %s)" % (q(sp["r"]), rl)
    if sp["kind"] == "spheroid":
        return "(Spheroid %s %s %s)" % (q(sp["r"][0]), q(sp["r"][1]), rl)
    return "(Cylinder %s %s %s)" % (q(sp["d"]), q(sp["h"]), rl)


def args_lit(a):
    q = qlit
    return ("(@mkArgs Q %s %s %s %s %s %s %s %s %s %s %s %s %s %s %s)" % (
        q(a[0]), q(a[1]), q(a[2]), q(a[3]), q(a[4]), q(a[5]), zlit(a[6]), zlit(a[7]), q(a[8]), q(a[9]),
        q(a[10]), listlit([q(x) for x in a[11]]), q(a[12]), listlit([q(x) for x in a[13]]), zlit(a[14])))


def cxl(z):
    return "(%s, %s)" % (qlit(z[0]), qlit(z[1]))


def m22l(m):
    return "(%s, %s, %s, %s)" % (cxl(m[0][0]), cxl(m[0][1]), cxl(m[1][0]), cxl(m[1][1]))


def args_in_guard(a):
    ok = 0 <= a[8] <= 360 and 0 <= a[9] <= 180
    for t, p in zip(a[11], a[13]):
        ok = ok and 0 <= t <= 180 and 0 <= p <= 360
    return ok


def cube_root_of(sp):
    if sp["kind"] == "sphere":
        rxy = rz = sp["r"]
    elif sp["kind"] == "spheroid":
        rxy, rz = sp["r"]
    else:
        rxy, rz = sp["d"] / 2, sp["h"] / 2
    return (rz * rxy ** 2) ** (1 / 3.)


def ixxx_of(axi, lam):
    xev = 2 * math.pi * axi / lam
    return int(xev + 4.05 * xev ** 0.333333)


def coq_errors(ctx, errors):
    for e in errors:
        ctx.violation("corr-eval-error", "model evaluation failed: " + e[:300], dict(kind="coq-error", log=e),
                      nofail=True)


# =============================================================================================
# stages
# =============================================================================================

def stage_parse(ctx):
    """X: parse_args_Q vs Tmatrix._parse_args (pure Python, still run in the child for uniformity)"""
    rng = ctx.subrng("parse")
    jobs, metas = [], []
    excluded = 0
    for k in range(ctx.n(150, 1500)):
        sp = gen_scat(rng)
        if sp["kind"] != "sphere" and not branch_safe(sp["rotation"]):
            excluded += 1
            continue
        npts = rng.choice([1, 2, 3])
        pos = []
        for _ in range(npts):
            th = rng.choice([0.0, rng.uniform(0, math.pi), dy(rng, 0, 3, 5)])
            m = rng.random()
            ph = rng.uniform(0, 2 * math.pi) if m < 0.6 else (rng.uniform(-7, 14) if m < 0.9 else
                                                              rng.choice([0.0, math.pi, -math.pi / 2]))
            pos.append([dy(rng, 5, 60, 3), th, ph])
        # azimuths: keep float % and exact mod on the same side of a wrap
        if any(abs((deg_float(p[2]) % 360) - float(Fraction(*float(p[2]).as_integer_ratio()) * 180 / PI_FR
                   - 360 * math.floor(Fraction(*float(p[2]).as_integer_ratio()) * 180 / PI_FR / 360))) > 1e-6
               for p in pos):
            excluded += 1
            continue
        k_ = dy(rng, 8, 16, 6)
        nmed = rng.choice([1.0, 1.33, 1.5])
        jobs.append(dict(kind="parse", scat=sp, pos=pos, k=k_, nmed=nmed))
        metas.append(dict(scat=sp, pos=pos, k=k_, nmed=nmed))
    ctx.count("parse:excluded-near-branch", excluded)
    res = run_jobs("parse", jobs)
    exprs, idx = [], []
    for i, (r, m) in enumerate(zip(res, metas)):
        ctx.count("parse:" + m["scat"]["kind"])
        if "ok" not in r:
            ctx.disagree("corr:parse_args:" + outcome(r), "_parse_args did not return: " + outcome(r),
                         dict(kind="corr-parse", **m, result=r))
            continue
        a = r["ok"]["args"]
        m["impl"] = a
        sp = m["scat"]
        cb = cube_root_of(sp)
        poslit = listlit(["(%s, %s, %s)" % tuple(qlit(x) for x in p) for p in m["pos"]])
        for flag in ("true", "false"):
            exprs.append("argsclose (1 # 100000000000) (parse_args_gen QO piQ Qfloor (fun _ => %s) %s %s %s %s %s %s %s) %s" % (
                qlit(cb), flag, scat_lit(sp, cb), qlit(sp["n"][0]), qlit(sp["n"][1]), poslit, qlit(m["k"]),
                qlit(m["nmed"]), args_lit(a)))
            idx.append(i)
        rot = rot_of(sp)
        inr = 0 <= rot[1] <= math.pi and 0 <= rot[2] <= 2 * math.pi and all(0 <= p[2] < 2 * math.pi for p in m["pos"])
        ctx.nontriv(("parse", sp["kind"], inr, len(m["pos"])))
        if not inr:
            ctx.count("parse:angles-out-of-fortran-range")
        if i < 2:
            ctx.sample(dict(stage="parse", scat=sp, pos=m["pos"], impl_args=a))
    mism, errors, _ = run_mismatch_cases("C10p" + TAGSUF, REQ, exprs, defs=DEFS)
    ctx.corr_cases += len(exprs) // 2
    coq_errors(ctx, errors)
    mism = set(mism)
    for j in range(0, len(exprs), 2):
        if j not in mism:
            continue
        m = metas[idx[j]]
        if (j + 1) not in mism and not args_in_guard(m["impl"]):
            a = m["impl"]
            key = "stop:euler-angle-guard" if not (0 <= a[8] <= 360 and 0 <= a[9] <= 180) else "stop:detector-angle-guard"
            ctx.violation(key, "_parse_args hands angles outside the range the Fortran code accepts "
                          "(alpha=%.6g beta=%.6g deg): its guard ends in STOP, i.e. the interpreter exits" % (a[8], a[9]),
                          dict(kind="corr-parse", **m))
        elif (j + 1) not in mism:
            # un-normalised but inside the accepted range (alpha or phi exactly 360 instead of 0): the code
            # before the repair, on an input where it does no harm
            ctx.count("parse:unnormalised-but-in-range")
        else:
            ctx.disagree("corr:parse_args", "model and implementation disagree on the argument tuple of _parse_args",
                         dict(kind="corr-parse", **m))


def base_args(rng):
    """a valid small-particle argument tuple (what _parse_args produces), to be perturbed"""
    lam = WAVELEN / NMED
    return [dy(rng, 0.1, 0.4, 6), 1, lam, 1.2, 0.0, rng.choice([0.5, 1.0, 2.0]), -1, 5,
            rng.uniform(0, 360), rng.uniform(0, 180), 0, [rng.uniform(0, 180)], 0, [rng.uniform(0, 360)], 1]


def stage_guard(ctx):
    """X: guard decision (model) vs child-process outcome of _run_tmat on boundary argument tuples;
    size guard: predicted refusal vs outcome"""
    rng = ctx.subrng("guard")
    up = lambda x: math.nextafter(x, math.inf)  # noqa
    jobs, metas = [], []
    # every boundary value of every guarded argument (deterministic), then random draws
    bounds = {"alpha": [0.0, 360.0, up(360.0), -2.0 ** -40, -30.0, 400.0, -0.0, 180.0],
              "beta": [0.0, 180.0, up(180.0), -2.0 ** -40, -17.0, 229.0, 90.0],
              "thet": [0.0, 180.0, up(180.0), -2.0 ** -40, 90.0, 200.0],
              "phi": [0.0, 360.0, up(360.0), -2.0 ** -40, -28.0, 180.0]}
    plan = [(w, v) for w in ("alpha", "beta", "thet", "phi") for v in bounds[w]]
    plan += [("two-points", (181.0, 30.0)), ("two-points", (30.0, -1.0)), ("two-points", (30.0, 30.0)), ("none", None)]
    for k in range(ctx.n(0, 170)):
        w = rng.choice(["alpha", "beta", "thet", "phi"])
        plan.append((w, rng.choice(bounds[w] + [rng.uniform(-50, 420)])))
    for which, v in plan:
        a = base_args(rng)
        if which == "alpha":
            a[8] = v
        elif which == "beta":
            a[9] = v
        elif which == "thet":
            a[11] = [v]
        elif which == "phi":
            a[13] = [v]
        elif which == "two-points":
            # only the SECOND point may be out of range: the guard sits in the per-angle routine
            a[11] = [rng.uniform(0, 180), v[0]]
            a[13] = [rng.uniform(0, 360), v[1]]
            a[14] = 2
        jobs.append(dict(kind="runargs", args=a))
        metas.append(dict(what="angle-guard", which=which, args=a))
    # size guard (spheres, radius swept across the limit; the refusal happens before any computation)
    for k in range(ctx.n(10, 40)):
        lam = WAVELEN / NMED
        ix_target = rng.choice([122, 123, 125, 130, 150, 199, 200, 201, 230, 400, 10, 20, 30, 45])
        # invert ixxx = int(x + 4.05 x^(1/3)) roughly
        x = max(1.0, ix_target - 4.05 * ix_target ** (1 / 3.))
        axi = (x + rng.uniform(-0.4, 0.4)) * lam / (2 * math.pi)
        a = [axi, 1, lam, 1.1, 0.0, 1.0, -1, 5, 0.0, 0.0, 0, [20.0], 0, [40.0], 1]
        if 60 < ixxx_of(axi, lam) <= 120:
            continue   # may or may not converge, and slow: not a decision the model makes
        jobs.append(dict(kind="runargs", args=a))
        metas.append(dict(what="size-guard", ixxx=ixxx_of(axi, lam), args=a))
    res = run_jobs("guard", jobs)
    exprs = []
    for r, m in zip(res, metas):
        oc = outcome(r)
        m["outcome"] = oc
        refused = oc == "died" or oc == "raised:TmatrixFailure"
        ctx.count("guard:%s:%s" % (m["what"], "refused" if refused else oc))
        if oc not in ("returned", "died", "raised:TmatrixFailure"):
            ctx.disagree("corr:guard:" + oc, "unexpected outcome of _run_tmat: " + oc, dict(kind="corr-guard", **m, result=r))
            exprs.append("true")
            continue
        if m["what"] == "angle-guard":
            exprs.append("Bool.eqb (args_guard QO %s) %s" % (args_lit(m["args"]), blit(not refused)))
            ctx.nontriv(("guard", m["which"], refused))
        else:
            exprs.append("Bool.eqb (size_guard %s 5) %s" % (zlit(m["ixxx"]), blit(not refused)))
            ctx.nontriv(("size", m["ixxx"] > 120, refused))
    mism, errors, _ = run_mismatch_cases("C10g" + TAGSUF, REQ, exprs, defs=DEFS)
    ctx.corr_cases += len(exprs)
    coq_errors(ctx, errors)
    for i in mism:
        ctx.disagree("corr:%s" % metas[i]["what"], "guard decision of the model differs from the observed outcome (%s)"
                     % metas[i]["outcome"], dict(kind="corr-guard", **metas[i]))


def stage_packing(ctx):
    """X: _run_tmat (scaling, convention, index layout) and the raw_fields assembly vs the model,
    on the solver's own output"""
    rng = ctx.subrng("pack")
    jobs, metas = [], []
    for k in range(ctx.n(40, 300)):
        sp = gen_scat(rng, rot=[rng.uniform(0, 6), rng.uniform(0.05, 3.0), rng.uniform(0, 6)])
        npts = rng.choice([1, 2, 3, 4])
        pos = [[dy(rng, 8, 40, 3), rng.uniform(0.05, 1.4), rng.uniform(0.1, 6.2)] for _ in range(npts)]
        jobs.append(dict(kind="raw", scat=sp, pos=pos, k=K, nmed=NMED))
        metas.append(dict(scat=sp, pos=pos))
    res = run_jobs("pack", jobs)
    exprs, tags = [], []
    tol = "(1 # 1000000000)"
    for ci, (r, m) in enumerate(zip(res, metas)):
        if "ok" not in r:
            ctx.disagree("corr:packing:" + outcome(r), "T-matrix call on a small particle did not return: " + outcome(r),
                         dict(kind="corr-pack", **m, result=r))
            continue
        o = r["ok"]
        n = len(m["pos"])
        raw = o["raw"]
        lists = [listlit([cxl(raw[q][i]) for i in range(n)]) for q in range(4)]
        cs = listlit(["(%s, %s)" % (qlit(c), qlit(s)) for c, s in o["cs_run"]])
        default = "((0,0),(0,0),(0,0),(0,0))"
        for i in range(n):
            sm = m22l(o["sm"][i])
            exprs.append("m22close %s (List.nth %d (run_tmat QO piQ %s %s %s %s %s %s) %s) %s" % (
                tol, i, qlit(o["lam"]), cs, lists[0], lists[1], lists[2], lists[3], default, sm))
            tags.append((ci, i, "run_tmat", "rep"))
            exprs.append("m22close %s (List.nth %d (run_tmat_current QO piQ %s %s %s %s %s) %s) %s" % (
                tol, i, qlit(o["lam"]), lists[0], lists[1], lists[2], lists[3], default, sm))
            tags.append((ci, i, "run_tmat", "cur"))
            c, s = o["cs_pos"][i]
            ct, st = o["ctst"][i]
            f = o["fields"][i]
            fl_ = "(%s, %s, %s)" % (cxl(f[0]), cxl(f[1]), cxl(f[2]))
            for variant, fn in (("rep", "tmat_field"), ("cur", "tmat_field_current")):
                exprs.append("v3close %s (%s QO %s %s %s %s %s %s) %s" % (
                    tol, fn, cxl(o["pref"][i]), sm, qlit(c), qlit(s), qlit(ct), qlit(st), fl_))
                tags.append((ci, i, "raw_fields", variant))
        ctx.nontriv(("pack", m["scat"]["kind"], n))
        ctx.count("pack:" + m["scat"]["kind"])
        if ci < 1:
            ctx.sample(dict(stage="packing", scat=m["scat"], pos=m["pos"], scat_matr0=o["sm"][0], field0=o["fields"][0]))
    mism, errors, _ = run_mismatch_cases("C10k" + TAGSUF, REQ, exprs, defs=DEFS)
    ctx.corr_cases += len(exprs) // 2
    coq_errors(ctx, errors)
    mism = set(mism)
    for j in range(0, len(exprs), 2):
        if j not in mism:
            continue
        ci, i, what, _ = tags[j]
        m = dict(metas[ci], point=i, what=what, result=res[ci].get("ok"))
        if (j + 1) not in mism:
            ctx.violation("azimuth:corr-" + what,
                          ("_run_tmat returns every point's matrix transposed and in the solver's lab-frame convention"
                           if what == "run_tmat" else
                           "raw_fields multiplies the matrix by the 'postfactor' rotation before calc_scat_field "
                           "(phi-component carries -L12 instead of L21)"),
                          dict(kind="corr-pack", **m))
        else:
            ctx.disagree("corr:" + what, "model and implementation disagree on %s" % what, dict(kind="corr-pack", **m))


# ---- exploration ----------------------------------------------------------------------------

def cabsmax(a):
    return max((abs(complex(*z)) for row in a for z in (row if isinstance(row[0], list) else [row])), default=0.0)


def flat_c(a):
    out = []

    def rec(x):
        if isinstance(x, list) and len(x) == 2 and not isinstance(x[0], list):
            out.append(complex(*x))
        else:
            for y in x:
                rec(y)
    rec(a)
    return out


def rel_diff(a, b):
    fa, fb = flat_c(a), flat_c(b)
    sc = max(max(abs(z) for z in fb), 1e-300)
    return max(abs(x - y) for x, y in zip(fa, fb)) / sc


def all_finite(a):
    return all(math.isfinite(z.real) and math.isfinite(z.imag) for z in flat_c(a))


def cart_points(rng, n, dist, thmax=1.0):
    """detector points (z = 0 plane, particle at height dist): all azimuths, polar angle up to thmax"""
    pts = []
    for _ in range(n):
        th = rng.uniform(0.0, thmax)
        ph = rng.uniform(0, 2 * math.pi)
        rho = dist * math.tan(th)
        pts.append([rho * math.cos(ph), rho * math.sin(ph), 0.0])
    return pts


SPHERE_TOL = 1e-4    # measured: 5e-7 (single-precision T-matrix storage); azimuth defect: 2e-2 .. 4e-1
SYM_TOL = 1e-4       # measured below 2e-6


def stage_sphere(ctx):
    """S: sphere: T-matrix = far-field Lorenz-Mie at every azimuth (fields, scattering matrices,
    inside Lens, hologram); Spheroid(a,a) = Sphere"""
    rng = ctx.subrng("sphere")
    jobs, metas = [], []
    for k in range(ctx.n(24, 200)):
        x = rng.choice([0.1, 0.3, 1.0, 3.0, 6.0]) if k < 5 else math.exp(rng.uniform(math.log(0.1), math.log(20.0)))
        if ctx.tier != "thorough":
            x = min(x, 12.0)
        r = x / K
        n = [dy(rng, 1.4, 1.7, 6), 0.0 if rng.random() < 0.6 else dy(rng, 0.004, 0.08, 8)]
        dist = rng.choice([5.0, 10.0, 30.0])
        sp = dict(kind="sphere", n=n, r=r, center=[0.0, 0.0, dist])
        pts = cart_points(rng, 8, dist)
        jobs.append(dict(kind="field", scat=sp, points=pts, theories=["tmatrix", "mie"], nmed=NMED, wavelen=WAVELEN))
        metas.append(dict(what="field-vs-mie", x=x, scat=sp, points=pts))
        th = [rng.uniform(0, 1.0) for _ in range(6)] + [rng.uniform(1.0, 3.0)]
        ph = [rng.uniform(0, 2 * math.pi) for _ in range(7)]
        sp2 = dict(kind="sphere", n=n, r=r, center=[0.0, 0.0, 0.0])
        jobs.append(dict(kind="smat", scat=sp2, theta=th, phi=ph, theories=["tmatrix", "mie"], nmed=NMED, wavelen=WAVELEN))
        metas.append(dict(what="smatrix-vs-mie", x=x, scat=sp2, theta=th, phi=ph))
        if k % 3 == 0:
            sph = dict(kind="spheroid", n=n, r=[r, r], rotation=[rng.uniform(0, 6), 0.0, 0.0], center=[0.0, 0.0, dist])
            jobs.append(dict(kind="field", scat=sph, points=pts, theories=["tmatrix"], nmed=NMED, wavelen=WAVELEN))
            metas.append(dict(what="spheroid-aa-vs-sphere", x=x, scat=sph, points=pts, ref=len(jobs) - 3))
    for k in range(ctx.n(2, 8)):
        x = rng.choice([0.5, 2.0, 4.0])
        sp = dict(kind="sphere", n=[1.59, 0.0], r=x / K, center=[0.3, -0.2, 6.0])
        pts = [[rng.uniform(-3, 3), rng.uniform(-3, 3), 0.0] for _ in range(4)]
        jobs.append(dict(kind="field", scat=sp, points=pts, theories=["lens:0.8:tmatrix", "lens:0.8:mie"],
                         nmed=NMED, wavelen=WAVELEN))
        metas.append(dict(what="lens-vs-mie", x=x, scat=sp, points=pts))
    # "round" geometries: radius, wavelength and medium index that are short binary fractions make the size parameter an
    # exact multiple of pi/2 in double precision (r = j/8 at wavelength 0.5 in air: x = j pi/2) - the zeros of cos x and
    # sin x, where a Bessel recurrence seeded with cos x / x or sin x / x loses its starting value
    halfpi = []
    for j in range(1, 13):
        for (nm, wl, rr) in ((1.0, 0.5, j / 8.0), (1.25, 0.625, j / 8.0), (1.5, 0.75, j / 8.0), (1.0, 1.0, j / 4.0)):
            halfpi.append((j, nm, wl, rr))
    rng.shuffle(halfpi)
    halfpi.sort(key=lambda t: (t[1], t[2]) != (1.0, 0.5))          # the plain air / 0.5 family always runs
    for (j, nm, wl, rr) in halfpi[:ctx.n(16, 48)]:
        n = [rng.choice([1.5, 1.59, 1.2]) * nm, 0.0 if rng.random() < 0.7 else 0.02]
        sp2 = dict(kind="sphere", n=n, r=rr, center=[0.0, 0.0, 0.0])
        th = [rng.uniform(0.05, 1.0) for _ in range(4)] + [rng.uniform(1.0, 3.0)]
        ph = [rng.uniform(0, 2 * math.pi) for _ in range(5)]
        jobs.append(dict(kind="smat", scat=sp2, theta=th, phi=ph, theories=["tmatrix", "mie"], nmed=nm, wavelen=wl))
        metas.append(dict(what="smatrix-vs-mie:x-multiple-of-half-pi", x=j * math.pi / 2, scat=sp2, theta=th, phi=ph,
                          nmed=nm, wavelen=wl))
    sp = dict(kind="sphere", n=[1.59, 0.0], r=0.45, center=[1.1, 0.8, 4.0])
    jobs.append(dict(kind="holo", scat=sp, shape=12, spacing=0.2, theories=["tmatrix", "mie"], nmed=NMED, wavelen=WAVELEN))
    metas.append(dict(what="holo-vs-mie", x=0.45 * K, scat=sp))
    res = run_jobs("sph", jobs)
    worst = {}
    for i, (r, m) in enumerate(zip(res, metas)):
        ctx.explored += 1
        ctx.count("sphere:" + m["what"])
        oc = outcome(r)
        if oc != "returned":
            key = "stop:sphere" if oc == "died" else "sphere:%s:%s" % (m["what"], oc)
            ctx.violation(key, "T-matrix calculation for a sphere (x=%.3g) did not return: %s %s" % (
                m["x"], oc, r.get("msg", "")), dict(kind="explore", **m, result=r))
            continue
        o = r["ok"]
        if m["what"] == "spheroid-aa-vs-sphere":
            ref = res[m["ref"]]
            if "ok" not in ref:
                continue
            d = rel_diff(o["tmatrix"], ref["ok"]["tmatrix"])
            tol = 1e-9
        elif m["what"] == "holo-vs-mie":
            a, b = o["tmatrix"], o["mie"]
            d = max(abs(p - q) for p, q in zip(a, b))
            tol = SPHERE_TOL
        else:
            names = sorted(o)
            tname = [t for t in names if t.endswith("tmatrix")][0]
            mname = [t for t in names if t.endswith("mie")][0]
            if not all_finite(o[tname]):
                ctx.violation("nonfinite:sphere", "T-matrix result for a sphere contains non-finite values",
                              dict(kind="explore", **m))
                continue
            d = rel_diff(o[tname], o[mname])
            tol = SPHERE_TOL if m["what"] != "lens-vs-mie" else 1e-3
        worst[m["what"]] = max(worst.get(m["what"], 0.0), d)
        ctx.nontriv(("sphere", m["what"], round(math.log10(m["x"]), 1)))
        if d > tol and m["what"].endswith("x-multiple-of-half-pi"):
            ctx.violation("sphere-limit:x-multiple-of-half-pi",
                          "sphere r=%r at wavelength %r in medium %r (size parameter %d*pi/2 exactly): T-matrix differs from "
                          "far-field Lorenz-Mie: relative difference %.3g (tolerance %g)" % (
                              m["scat"]["r"], m["wavelen"], m["nmed"], round(m["x"] / (math.pi / 2)), d, tol),
                          dict(kind="explore", **m, rel_diff=d, result=o))
        elif d > tol:
            key = "sphere:" + m["what"] if m["what"] == "spheroid-aa-vs-sphere" else "azimuth:" + m["what"]
            ctx.violation(key, "sphere, size parameter %.3g: T-matrix differs from far-field Lorenz-Mie off the "
                          "phi=0 plane (%s): relative difference %.3g (tolerance %g)" % (m["x"], m["what"], d, tol),
                          dict(kind="explore", **m, rel_diff=d, result=o))
    ctx.notes.append("sphere stage, worst relative differences: " + json.dumps({k: float("%.3g" % v) for k, v in worst.items()}))


def mirror_rot(rot):
    """orientation mirrored in the x-z plane: axis azimuth a -> -a, written inside [0, 2 pi)"""
    return [rot[0], rot[1], (2 * math.pi - rot[2]) % (2 * math.pi)]


def stage_symmetry(ctx):
    """S: spheroids (aspect 0.3-3) and cylinders (0.5-2): spin about the own axis, axis reversal,
    mirror image"""
    rng = ctx.subrng("sym")
    jobs, metas = [], []
    for k in range(ctx.n(16, 150)):
        kind = "spheroid" if k % 2 == 0 else "cylinder"
        beta = rng.uniform(0.05, math.pi - 0.05)
        alpha = rng.uniform(0.05, 2 * math.pi - 0.05)
        gamma = rng.uniform(0, 2 * math.pi)
        sp = gen_scat(rng, kinds=(kind,), rot=[gamma, beta, alpha], small=(ctx.tier != "thorough"))
        dist = rng.choice([5.0, 12.0])
        sp["center"] = [0.0, 0.0, dist]
        pts = cart_points(rng, 6, dist)
        base = len(jobs)
        jobs.append(dict(kind="field", scat=sp, points=pts, theories=["tmatrix"], nmed=NMED, wavelen=WAVELEN))
        metas.append(dict(what="base", scat=sp, points=pts))
        s2 = dict(sp, rotation=[rng.uniform(-7, 7), beta, alpha])
        jobs.append(dict(kind="field", scat=s2, points=pts, theories=["tmatrix"], nmed=NMED, wavelen=WAVELEN))
        metas.append(dict(what="spin", scat=s2, points=pts, ref=base))
        s3 = dict(sp, rotation=[gamma, math.pi - beta, (alpha + math.pi) % (2 * math.pi)])
        jobs.append(dict(kind="field", scat=s3, points=pts, theories=["tmatrix"], nmed=NMED, wavelen=WAVELEN))
        metas.append(dict(what="axis-reversal", scat=s3, points=pts, ref=base))
        s4 = dict(sp, rotation=mirror_rot(sp["rotation"]))
        mpts = [[p[0], -p[1], p[2]] for p in pts]
        jobs.append(dict(kind="field", scat=s4, points=mpts, theories=["tmatrix"], nmed=NMED, wavelen=WAVELEN))
        metas.append(dict(what="mirror", scat=s4, points=mpts, ref=base))
    res = run_jobs("sym", jobs)
    worst = {}
    for r, m in zip(res, metas):
        ctx.explored += 1
        oc = outcome(r)
        if oc != "returned":
            key = "stop:symmetry" if oc == "died" else "symmetry:" + oc
            ctx.violation(key, "T-matrix calculation for a %s (in-range orientation) did not return: %s %s" % (
                m["scat"]["kind"], oc, r.get("msg", "")), dict(kind="explore", **m, result=r))
            continue
        if m["what"] == "base":
            continue
        ref = res[m["ref"]]
        if "ok" not in ref:
            continue
        a = r["ok"]["tmatrix"]
        b = ref["ok"]["tmatrix"]
        if m["what"] == "mirror":
            a = [[v[0], [-v[1][0], -v[1][1]], v[2]] for v in a]
        d = rel_diff(a, b)
        tol = 1e-9 if m["what"] == "spin" else SYM_TOL
        worst[m["what"]] = max(worst.get(m["what"], 0.0), d)
        ctx.count("symmetry:%s:%s" % (m["what"], m["scat"]["kind"]))
        ctx.nontriv(("sym", m["what"], m["scat"]["kind"], round(m["scat"]["rotation"][1], 1)))
        if d > tol:
            ctx.violation("symmetry:" + m["what"], "%s: field changes under %s: relative difference %.3g (tolerance %g)"
                          % (m["scat"]["kind"], m["what"], d, tol), dict(kind="explore", **m, rel_diff=d))
    ctx.notes.append("symmetry stage, worst relative differences: " + json.dumps({k: float("%.3g" % v) for k, v in worst.items()}))


def _history_child(spec):
    """runs inside a forked child: theory OBJECTS kept alive and used alternately on different particles (a bare Tmatrix,
    a second Tmatrix, a Lens around a third), then detectors of >= 1024 points; returns plain lists"""
    import numpy as np
    import warnings as _w
    _w.simplefilter("ignore")
    from holopy.scattering import Mie, Tmatrix, calc_field
    from holopy.scattering.theory import Lens
    from holopy.core.metadata import detector_points
    kw = dict(medium_index=NMED, illum_wavelen=WAVELEN, illum_polarization=(1, 0))
    pts = np.array(spec["points"])
    det = detector_points(x=pts[:, 0], y=pts[:, 1], z=pts[:, 2])
    objs = {"A": Tmatrix(), "B": Tmatrix(), "L": Lens(0.7, Tmatrix(), quad_npts_theta=8, quad_npts_phi=10)}
    out = []
    for who, pi in spec["steps"]:
        sc = _mk_scatterer(spec["particles"][pi])
        f = np.asarray(calc_field(det, sc, theory=objs[who], **kw).values)
        out.append([who, pi, _carr(f)])
    # reference values from objects that have computed nothing else
    refs = {}
    for who, pi in sorted(set((w, p) for w, p in spec["steps"])):
        th = Tmatrix() if who in "AB" else Lens(0.7, Tmatrix(), quad_npts_theta=8, quad_npts_phi=10)
        refs["%s%d" % (who, pi)] = _carr(np.asarray(calc_field(det, _mk_scatterer(spec["particles"][pi]), theory=th, **kw).values))
    # large detectors: sphere vs far-field Mie, Spheroid(a,a) vs Sphere, and a few of the points alone
    big = []
    for b in spec["big"]:
        bp = np.array(b["points"])
        bdet = detector_points(x=bp[:, 0], y=bp[:, 1], z=bp[:, 2])
        sph = _mk_scatterer(b["sphere"])
        ft = np.asarray(calc_field(bdet, sph, theory=Tmatrix(), **kw).values)
        fm = np.asarray(calc_field(bdet, sph, theory=Mie(False, False), **kw).values)
        fa = np.asarray(calc_field(bdet, _mk_scatterer(b["spheroid"]), theory=Tmatrix(), **kw).values)
        idx = b["alone"]
        sdet = detector_points(x=bp[idx, 0], y=bp[idx, 1], z=bp[idx, 2])
        fs = np.asarray(calc_field(sdet, sph, theory=Tmatrix(), **kw).values)
        sc = float(np.abs(fm).max())
        big.append(dict(vs_mie=float(np.abs(ft - fm).max() / sc), aa_vs_sphere=float(np.abs(fa - ft).max() / sc),
                        batch=float(np.abs(ft[idx] - fs).max() / sc), npoints=int(len(bp))))
    return dict(steps=out, refs=refs, big=big)


def stage_history(ctx):
    """history independence and batch independence, in one child process"""
    rng = ctx.subrng("history")
    particles = [dict(kind="sphere", n=[1.55, 0.0], r=0.45, center=[0.3, 0.2, 6.0]),
                 dict(kind="spheroid", n=[1.5, 0.0], r=[0.3, 0.5], rotation=[0.0, 0.7, 1.1], center=[0.1, -0.2, 7.0]),
                 dict(kind="cylinder", n=[1.5, 0.01], d=0.5, h=0.8, rotation=[0.0, 1.1, 0.4], center=[0.0, 0.3, 6.5]),
                 dict(kind="spheroid", n=[1.55, 0.0], r=[0.45, 0.45], rotation=[0.0, 0.4, 0.2], center=[0.3, 0.2, 6.0])]
    steps = [["A", 0], ["B", 1], ["A", 0], ["L", 1], ["A", 2], ["B", 0], ["L", 0], ["A", 1], ["B", 1], ["L", 1], ["A", 0], ["B", 3]]
    extra = [[rng.choice("ABL"), rng.randrange(4)] for _ in range(ctx.n(8, 30))]
    pts = [[rng.uniform(-3, 3), rng.uniform(-3, 3), 0.0] for _ in range(5)]
    big = []
    for k in range(ctx.n(2, 5)):
        npt = rng.choice([1024, 1100, 1600])
        x = rng.uniform(6.0, 14.0)
        r = x / K
        c = [rng.uniform(-1, 1), rng.uniform(-1, 1), rng.uniform(6.0, 9.0)]
        bp = [[rng.uniform(-5, 5), rng.uniform(-5, 5), 0.0] for _ in range(npt)]
        big.append(dict(points=bp, sphere=dict(kind="sphere", n=[1.5, 0.0], r=r, center=c),
                        spheroid=dict(kind="spheroid", n=[1.5, 0.0], r=[r, r], rotation=[0.0, 0.3, 0.5], center=c),
                        alone=sorted(rng.sample(range(npt), 6)), x=x))
    spec = dict(particles=particles, steps=steps + extra, points=pts, big=big)
    small = dict(particles=particles, steps=spec["steps"], points=pts)
    r = run_jobs("hist", [dict(kind="history", spec=spec)], nproc=1, timeout=ctx.n(600, 1500))[0]
    oc = outcome(r)
    if oc == "died":
        ctx.violation("stop:history", "the interpreter ended during a sequence of T-matrix calculations on re-used theory objects",
                      dict(kind="history", spec=small, result={k: v for k, v in r.items() if k != "ok"}))
        return
    if oc != "returned":
        ctx.violation("history:" + oc.split(":")[0], "a sequence of T-matrix calculations on re-used theory objects did not return: %s %s"
                      % (oc, str(r.get("msg", ""))[:200]), dict(kind="history", spec=small, outcome=oc), nofail=True)
        return
    res = r["ok"]
    for i, (who, pi, val) in enumerate(res["steps"]):
        ctx.explored += 1
        ctx.count("history:step:%s" % who)
        ctx.nontriv(("history", who, pi, i))
        d = rel_diff(val, res["refs"]["%s%d" % (who, pi)])
        if d > 1e-9:
            ctx.violation("history:%s" % ("tmatrix" if who in "AB" else "lens-tmatrix"),
                          "a Tmatrix theory object kept alive and used alternately with others returns, at step %d (%s on particle %d), a "
                          "field that differs from a fresh object's by %.3g (relative)" % (i, who, pi, d),
                          dict(kind="history", spec=small, step=i, rel_diff=d))
            break
    for b, r in zip(big, res["big"]):
        ctx.explored += 1
        ctx.count("history:large-detector")
        meta = dict(kind="large-detector", x=b["x"], npoints=r["npoints"], sphere=b["sphere"], result=r)
        if r["vs_mie"] > SPHERE_TOL:
            ctx.violation("azimuth:field-vs-mie:large-detector", "sphere, size parameter %.3g, %d detector points: T-matrix differs from "
                          "far-field Lorenz-Mie by %.3g (tolerance %g)" % (b["x"], r["npoints"], r["vs_mie"], SPHERE_TOL), meta)
        if r["aa_vs_sphere"] > 1e-6:
            ctx.violation("sphere:spheroid-aa-vs-sphere:large-detector", "Spheroid(a,a) differs from Sphere(a) by %.3g on %d detector points"
                          % (r["aa_vs_sphere"], r["npoints"]), meta)
        if r["batch"] > 1e-9:
            ctx.violation("batch:tmatrix", "T-matrix field values of a sphere depend on how many detector points are computed in one call "
                          "(%d points vs 6 of them alone: %.3g relative)" % (r["npoints"], r["batch"]), meta)


def stage_siblings(ctx):
    """history independence on one-factor siblings: requests that differ from a base request in exactly ONE input
    (wavelength, medium index, medium index with the wavelength in the medium kept, real index, imaginary index, size, aspect
    ratio, shape kind, orientation), run back to back in both orders inside one interpreter, against the same request alone in
    a fresh interpreter.  A solver that keeps the T-matrix of the previous particle and compares an incomplete key fails here."""
    import copy as _copy
    rng = ctx.subrng("siblings")
    for fam in range(ctx.n(2, 6)):
        kind = ["spheroid", "cylinder", "sphere"][fam % 3]
        n = [dy(rng, 1.45, 1.65, 6), 0.0 if fam % 2 == 0 else 0.03125]
        rot = [0.0, dy(rng, 0.2, 1.4, 5), dy(rng, 0.2, 3.0, 5)]
        c = [dy(rng, -0.5, 0.5, 4), dy(rng, -0.5, 0.5, 4), dy(rng, 6.0, 9.0, 3)]
        if kind == "spheroid":
            sc = dict(kind=kind, n=n, r=[dy(rng, 0.25, 0.45, 5), dy(rng, 0.5, 0.7, 5)], rotation=rot, center=c)
        elif kind == "cylinder":
            sc = dict(kind=kind, n=n, d=dy(rng, 0.4, 0.7, 5), h=dy(rng, 0.6, 1.0, 5), rotation=rot, center=c)
        else:
            sc = dict(kind=kind, n=n, r=dy(rng, 0.3, 0.6, 5), center=c)
        pts = [[rng.uniform(-3, 3), rng.uniform(-3, 3), 0.0] for _ in range(4)]
        base = dict(scat=sc, nmed=1.25, wavelen=0.625, points=pts)
        reqs, names = [base], ["base"]

        def sib(name, **kw):
            q = _copy.deepcopy(base)
            for k_, v in kw.items():
                if k_ in ("nmed", "wavelen"):
                    q[k_] = v
                else:
                    q["scat"][k_] = v
            reqs.append(q)
            names.append(name)
        sib("wavelength", wavelen=0.75)
        sib("medium-index", nmed=1.5)
        sib("medium-index-at-fixed-wavelength-in-medium", nmed=1.5, wavelen=0.75)
        sib("real-index", n=[n[0] + 0.0625, n[1]])
        sib("imaginary-index", n=[n[0], n[1] + 0.0625])
        sib("imaginary-index-2", n=[n[0], n[1] + 0.125])
        if kind == "spheroid":
            sib("size", r=[sc["r"][0] * 1.25, sc["r"][1] * 1.25])
            sib("aspect", r=[sc["r"][0], sc["r"][1] * 1.25])
            sib("orientation", rotation=[0.0, rot[1] + 0.25, rot[2]])
        elif kind == "cylinder":
            sib("size", d=sc["d"] * 1.25, h=sc["h"] * 1.25)
            sib("aspect", h=sc["h"] * 1.25)
            sib("orientation", rotation=[0.0, rot[1] + 0.25, rot[2]])
        else:
            sib("size", r=sc["r"] * 1.25)
        m = len(reqs)
        order = []
        for i in range(1, m):
            order += [0, i, 0]
        pairs = [(i, j) for i in range(1, m) for j in range(1, m) if i != j]
        rng.shuffle(pairs)
        for i, j in pairs[:ctx.n(10, 40)]:
            order += [i, j]
        jobs = [dict(kind="seq", requests=reqs, order=order)]
        seq = run_jobs("sibseq%d" % fam, jobs, nproc=1, timeout=ctx.n(600, 1500))[0]
        refs = run_jobs("sibref%d" % fam, [dict(kind="seq", requests=reqs, order=[i]) for i in range(m)], nproc=m,
                        timeout=ctx.n(600, 1500))       # one fresh interpreter per reference request
        if outcome(seq) == "died":
            ctx.violation("stop:siblings", "the interpreter ended during a sequence of T-matrix calculations on sibling requests",
                          dict(kind="siblings", requests=reqs, order=order, result={k: v for k, v in seq.items() if k != "ok"}))
            continue
        if outcome(seq) != "returned" or any(outcome(r) != "returned" for r in refs):
            ctx.count("siblings:not-returned")
            bad = [outcome(r) for r in [seq] + refs if outcome(r) != "returned"]
            ctx.violation("siblings:" + bad[0].split(":")[0], "a T-matrix calculation on an ordinary particle did not return: %s" % bad[0],
                          dict(kind="siblings", requests=reqs, order=order, outcomes=bad), nofail=True)
            continue
        for step, (i, val) in enumerate(zip(order, seq["ok"]["fields"])):
            ctx.explored += 1
            ctx.count("siblings:step:" + names[i])
            ctx.nontriv(("siblings", kind, names[i], names[order[step - 1]] if step else "-"))
            d = rel_diff(val, refs[i]["ok"]["fields"][0])
            if d > 1e-9:
                prev = names[order[step - 1]] if step else "-"
                # decisive: the same request alone in its own fresh interpreter
                alone = run_jobs("sibalone", [dict(kind="seq", requests=reqs, order=[i])], nproc=1)[0]
                d2 = rel_diff(val, alone["ok"]["fields"][0]) if outcome(alone) == "returned" else d
                if d2 > 1e-9:
                    ctx.violation("history:siblings:" + (names[i] if names[i] != "base" else prev),
                                  "T-matrix field of a %s computed right after the same particle with another %s differs from the "
                                  "same request alone in a fresh interpreter by %.3g (relative)" % (
                                      kind, prev if names[i] == "base" else names[i], d2),
                                  dict(kind="siblings", requests=reqs, order=order, step=step, request=i, names=names, rel_diff=d2))
                    break


def stage_survive(ctx):
    """S: ANY real Euler angles, large sizes, extreme aspect ratios, odd detector angles: the call
    returns finite values or raises a Python exception; the interpreter never dies"""
    rng = ctx.subrng("survive")
    jobs, metas = [], []
    pts_dist = 8.0

    def add(sp, cls, pts=None, sph=None, lens=False):
        sp = dict(sp)
        if sph is None:
            sp["center"] = [0.0, 0.0, pts_dist]
            jobs.append(dict(kind="field", scat=sp, points=pts or cart_points(rng, 3, pts_dist),
                             theories=["lens:0.8:tmatrix" if lens else "tmatrix"], nmed=NMED, wavelen=WAVELEN))
        else:
            sp["center"] = [0.0, 0.0, 0.0]
            jobs.append(dict(kind="smat", scat=sp, theta=sph[0], phi=sph[1], theories=["tmatrix"], nmed=NMED,
                             wavelen=WAVELEN))
        metas.append(dict(cls=cls, scat=sp, sph=sph, route="lens" if lens else ("scat-matrix" if sph is not None else "field")))

    # Euler angles: fixed witnesses first, then random
    fixed = [[0.0, -0.3, 0.0], [0.0, 4.0, 0.0], [0.0, 0.3, -0.2], [0.0, 0.3, 7.0], [1.0, -3.5, -9.0],
             [0.0, math.pi, 0.0], [0.0, 2 * math.pi, 2 * math.pi], [0.0, 0.0, 0.0], [3.0, 1.0, 2.0]]
    for k in range(ctx.n(22, 200)):
        rot = fixed[k] if k < len(fixed) else [gen_angle(rng), gen_angle(rng), gen_angle(rng)]
        sp = gen_scat(rng, kinds=("spheroid", "cylinder"), rot=rot)
        inr = 0 <= rot[1] <= math.pi and 0 <= rot[2] <= 2 * math.pi
        add(sp, "euler-in-range" if inr else "euler-angle-guard")
    # sizes / aspect ratios beyond what converges
    big = [dict(kind="sphere", n=[1.5, 0.0], r=10.0), dict(kind="sphere", n=[1.5, 0.0], r=25.0),
           dict(kind="spheroid", n=[1.5, 0.0], r=[0.1, 2.0], rotation=[0, 0.4, 0.3]),
           dict(kind="spheroid", n=[1.5, 0.0], r=[2.0, 0.1], rotation=[0, 0.4, 0.3]),
           dict(kind="cylinder", n=[1.5, 0.0], d=0.2, h=3.0, rotation=[0, 0.4, 0.3]),
           dict(kind="cylinder", n=[1.5, 0.0], d=3.0, h=0.2, rotation=[0, 0.4, 0.3]),
           dict(kind="spheroid", n=[1.5, 0.05], r=[6.0, 9.0], rotation=[0, 1.0, 1.0]),
           dict(kind="sphere", n=[1.5, 0.0], r=1e3), dict(kind="sphere", n=[2.8, 0.5], r=4.0),
           dict(kind="sphere", n=[1.5, 0.0], r=1e-4), dict(kind="cylinder", n=[1.5, 0.0], d=8.0, h=8.0, rotation=[0, 0, 0])]
    for k in range(ctx.n(len(big), 40)):
        if k < len(big):
            sp = big[k]
        else:
            s = math.exp(rng.uniform(math.log(1.5), math.log(40.0)))
            sp = rng.choice([dict(kind="sphere", n=[1.5, 0.0], r=s),
                             dict(kind="spheroid", n=[1.5, 0.0], r=[s / rng.uniform(1, 20), s], rotation=[0, 0.4, 0.3]),
                             dict(kind="cylinder", n=[1.5, 0.0], d=s / rng.uniform(1, 10), h=s, rotation=[0, 0.4, 0.3])])
        lam = WAVELEN / NMED
        axi = cube_root_of(sp) * (1.5 if sp["kind"] == "cylinder" else 1.0)
        cls = "size-limit" if ixxx_of(axi, lam) > 120 else "nonconvergence"
        add(sp, cls)
    # sizes far beyond anything that converges, up to the largest doubles (a size parameter beyond 2**31 does not fit the
    # solver's INTEGER), and sizes that underflow: "any size" includes them
    huge = [3e8, 1e9, 4e9, 1e12, 1e30, 1e100, 1e200, 1e-30, 1e-120, 1e-300]
    for k in range(ctx.n(12, 40)):
        s = huge[k] if k < len(huge) else 10.0 ** rng.uniform(4, 300) if k % 2 else 10.0 ** -rng.uniform(20, 300)
        sp = [dict(kind="sphere", n=[1.5, 0.0], r=s),
              dict(kind="spheroid", n=[1.5, 0.0], r=[s / 2, s], rotation=[0, 0.4, 0.3]),
              dict(kind="cylinder", n=[1.5, 0.0], d=s, h=s / 2, rotation=[0, 0.4, 0.3])][k % 3]
        add(sp, "size-overflow" if s > 1 else "size-underflow")
    # every particle kind at the sizes where the solver's arithmetic underflows without noticing (1e-25 ... 1e-45)
    for e in (25, 30, 35, 40, 45):
        s = 10.0 ** -e
        for sp in (dict(kind="sphere", n=[1.5, 0.0], r=s),
                   dict(kind="spheroid", n=[1.5, 0.0], r=[s / 2, s], rotation=[0, 0.4, 0.3]),
                   dict(kind="cylinder", n=[1.5, 0.0], d=s, h=s / 2, rotation=[0, 0.4, 0.3])):
            add(sp, "size-underflow")
            # the same particle through the other public routes to the solver: calc_scat_matrix and the lens wrapper
            add(sp, "size-underflow", sph=([0.5, 1.0], [1.0, 2.0]))
            if e in (30, 35):
                add(sp, "size-underflow", lens=True)
    # extreme aspect ratios (one size ordinary, the other near the ends of the double range): the solver forms eps**2 and
    # 1/eps**2
    for e in (100, 150, 155, 160, 165, 200, 300):
        for small_first in (True, False):
            a, b = (10.0 ** -e, 1.0) if small_first else (1.0, 10.0 ** -e)
            add(dict(kind="spheroid", n=[1.5, 0.0], r=[a, b], rotation=[0, 0.4, 0.3]), "aspect-extreme")
            add(dict(kind="cylinder", n=[1.5, 0.0], d=a, h=b, rotation=[0, 0.4, 0.3]), "aspect-extreme")
    for e in (155, 200):
        add(dict(kind="spheroid", n=[1.5, 0.0], r=[10.0 ** e, 1.0], rotation=[0, 0.4, 0.3]), "aspect-extreme")
        add(dict(kind="cylinder", n=[1.5, 0.0], d=1.0, h=10.0 ** e, rotation=[0, 0.4, 0.3]), "aspect-extreme")
    # sizes no particle has: negative or zero semi-axes / diameters / heights / radii (a sampler proposes them when a size
    # has a Gaussian prior); "any size" includes them: a Python exception is the expected outcome, not a dead interpreter
    bad = [dict(kind="spheroid", n=[1.5, 0.0], r=[-0.4, 0.6], rotation=[0, 0.4, 0.3]),
           dict(kind="spheroid", n=[1.5, 0.0], r=[0.4, -0.6], rotation=[0, 0.4, 0.3]),
           dict(kind="cylinder", n=[1.5, 0.0], d=-0.6, h=0.8, rotation=[0, 0.4, 0.3]),
           dict(kind="cylinder", n=[1.5, 0.0], d=0.6, h=-0.8, rotation=[0, 0.4, 0.3]),
           dict(kind="sphere", n=[1.5, 0.0], r=-0.5), dict(kind="sphere", n=[1.5, 0.0], r=0.0),
           dict(kind="spheroid", n=[1.5, 0.0], r=[0.0, 0.6], rotation=[0, 0.4, 0.3]),
           dict(kind="cylinder", n=[1.5, 0.0], d=0.6, h=0.0, rotation=[0, 0.4, 0.3])]
    for k in range(ctx.n(len(bad), 24)):
        if k < len(bad):
            sp = bad[k]
        else:
            sg = lambda: rng.choice([-1, 1, -1, 0]) * rng.uniform(0.05, 3.0)   # noqa
            sp = rng.choice([dict(kind="spheroid", n=[1.5, 0.0], r=[sg(), sg()], rotation=[gen_angle(rng)] * 3),
                             dict(kind="cylinder", n=[1.5, 0.0], d=sg(), h=sg(), rotation=[gen_angle(rng)] * 3)])
        add(sp, "bad-size")
    # detector angles given in spherical coordinates (calc_scat_matrix): azimuth outside [0, 2 pi),
    # polar angle outside [0, pi]
    for k in range(ctx.n(6, 30)):
        sp = dict(kind="sphere", n=[1.5, 0.0], r=0.3)
        which = ["phi-negative", "phi-large", "theta-negative", "theta-large", "ok", "phi-negative"][k % 6]
        th = {"theta-negative": -0.2, "theta-large": 3.5}.get(which, rng.uniform(0, 3.0))
        ph = {"phi-negative": -rng.uniform(0.1, 6), "phi-large": rng.uniform(6.4, 20)}.get(which, rng.uniform(0, 6.2))
        add(sp, "detector-angle-guard" if which != "ok" else "detector-ok", sph=([0.5, th], [1.0, ph]))
    res = run_jobs("surv", jobs, timeout=ctx.n(600, 1500))
    for r, m in zip(res, metas):
        ctx.explored += 1
        oc = outcome(r)
        ctx.count("survive:%s:%s" % (m["cls"], oc))
        ctx.nontriv(("survive", m["cls"], m["scat"]["kind"], oc))
        if oc == "died":
            key = {"euler-angle-guard": "stop:euler-angle-guard", "size-limit": "stop:size-limit",
                   "nonconvergence": "stop:nonconvergence", "detector-angle-guard": "stop:detector-angle-guard",
                   "bad-size": "stop:negative-size", "size-overflow": "stop:size-overflow",
                   "size-underflow": "stop:size-underflow", "aspect-extreme": "stop:aspect-extreme"}.get(
                       m["cls"], "stop:other:" + m["cls"])
            ctx.violation(key, "the interpreter was terminated (exit status %s, Fortran STOP) by a T-matrix calculation: %s %s"
                          % (r.get("rc"), m["cls"], json.dumps({k: v for k, v in m["scat"].items() if k != "center"})),
                          dict(kind="explore-survive", **m, result=r))
        elif oc == "returned":
            if not all_finite(list(r["ok"].values())[0]):
                ctx.violation("nonfinite:" + m["cls"], "T-matrix calculation returned non-finite values (%s, through %s)" % (m["cls"], m["route"]),
                              dict(kind="explore-survive", **m))
            elif m["cls"] in ("euler-in-range", "euler-angle-guard", "detector-ok"):
                pass
        elif oc == "timeout":
            ctx.count("survive:timeout")
        # raised:<any Python exception> is an allowed outcome


# =============================================================================================

TMATRIX_PY = "holopy/scattering/theory/tmatrix.py"


def _src_items():
    from harness.lib import pysrc
    return [
        dict(file=TMATRIX_PY, qualname="Tmatrix._parse_args (alpha .. alpha)", name="euler_src",
             fn=lambda repo: pysrc.translate_segment(
                 repo, TMATRIX_PY, "Tmatrix._parse_args", "euler_src", "alpha", "alpha", ["alpha", "beta"],
                 extra_sig="(fmodf : R -> R -> R)", calls={"fmod": ("fmodf", 2)},
                 opaque_exprs={"scatterer.rotation[2]": "rot2", "scatterer.rotation[1]": "rot1"})),
        dict(file=TMATRIX_PY, qualname="Tmatrix._parse_args (axi .. eps)", name="sizes_src",
             fn=lambda repo: pysrc.translate_segment(
                 repo, TMATRIX_PY, "Tmatrix._parse_args", "sizes_src", "axi", "eps", ["axi", "rat", "lam", "mrr", "mri", "eps"],
                 inputs=["rxy", "rz", "med_wavelen", "medium_index"], bool_inputs=["iscyl"],
                 extra_sig="(cbrtf : R -> R)", calls={"cbrt": ("cbrtf", 1)},
                 opaque_exprs={"scatterer.n.real": "nre", "scatterer.n.imag": "nim"})),
    ]


def stage_srctie(ctx):
    from harness.lib import srctie
    ok = srctie.run(ctx, "C10", "From Coq Require Import Lia Psatz.\nFrom HV Require Import C10.Model C10.Lemmas C10.Props.\n",
                    _src_items())
    ctx.count("srctie:%s" % ("ok" if ok else "broken"))


def run(ctx):
    ctx.rule = ("scatterers (sphere / spheroid aspect 0.3-3 / cylinder 0.5-2, real and absorbing index) x Euler angles "
                "(in range, negative, > 2 pi, exact multiples of pi) x detector angles; boundary argument tuples "
                "(0, 180, 360 and one ulp outside); sizes across the NPN1/NPNG1 limits; non-trivial = distinct "
                "(stage, scatterer kind, angle class, outcome / size decade) combinations")
    ctx.clauses_proved = [
        "detector angles from the Cartesian conversion pass the Fortran guard",
        "normalised Euler angles pass the guard for ALL real angles and denote the same axis (repaired code); "
        "un-normalised negative / > pi beta fails it (code before the repair)",
        "argument tuple independent of rotation[0]; Spheroid(a,a) gives the sphere's tuple; sphere's equal-volume radius",
        "packing index arithmetic (repaired: moveaxis + convention change; before: transposed)",
        "sphere: converted matrix is diag(S2,S1) and the field assembly equals the Lorenz-Mie assembly at every "
        "azimuth; any particle: E_theta = pref L11, E_phi = pref L21; rotation covariance for diagonal S; the code "
        "before the repair carries -L12 in the phi-component (equal only if S1=S2 or sin(phi)=0)",
        "size guard passes iff INT(x+4.05x^(1/3)) <= 120; Q guard = R guard"]
    ctx.clauses_explored = [
        "numerical agreement of the T-matrix solver with far-field Lorenz-Mie for spheres (fields, scattering "
        "matrices, inside Lens, hologram), x in [0.1, 20], theta <= 1 rad, all azimuths, tolerance 1e-4",
        "Spheroid(a,a) = Sphere; spin / axis-reversal / mirror symmetry of spheroid and cylinder fields",
        "the interpreter survives any Euler angles, sizes, aspect ratios, detector angles (child processes)",
        "convergence of the solver (which sizes / aspect ratios are refused) is observed, not predicted"]
    ctx.trusted += ["oracle: Fortran solver output (ampld: T-matrix, amplitude matrix) - enters the model as data",
                    "oracle: numpy cos/sin/exp, float % (as x - m*floor(x/m)), x**(1/3.), np.pi",
                    "oracle: INT(XEV+4.05*XEV**0.333333) evaluated by the harness in floats for the size guard",
                    "child-process runner: outcome classification returned / raised / died"]
    ctx.clauses_proved.append(
        "source tie: two straight-line segments of Tmatrix._parse_args (the Euler-angle normalisation; axi, rat, lam, mrr, mri, eps), "
        "translated from the current source text on every run, are proved equal to the model's norm_euler / argument tuple for every "
        "scatterer kind; 'for all real Euler angles the angles handed to the Fortran code are in its range and denote the same axis' "
        "restated for the translated source")
    ctx.trusted.append("translator harness/lib/pysrc.py (segment of a function between two assignments; float % with a positive literal "
                       "read as x - m floor(x/m) with the floor an oracle; x ** (1/3.) the cube-root oracle; base ** bool)")
    guarded(ctx, "prove", ctx.prove)
    guarded(ctx, "source-tie", stage_srctie, ctx)
    boot.build_all()
    guarded(ctx, "parse", stage_parse, ctx)
    guarded(ctx, "guard", stage_guard, ctx)
    guarded(ctx, "packing", stage_packing, ctx)
    guarded(ctx, "sphere", stage_sphere, ctx)
    guarded(ctx, "symmetry", stage_symmetry, ctx)
    guarded(ctx, "history", stage_history, ctx)
    guarded(ctx, "siblings", stage_siblings, ctx)
    guarded(ctx, "survive", stage_survive, ctx)


def replay(ctx, data):
    """re-run the stored failing case on the current tree (in a child process)"""
    d = data["data"]
    kind = d.get("kind")
    if kind == "tie":
        ctx.prove()
        stage_srctie(ctx)
        return
    boot.build_all()
    if kind == "corr-parse" and data["key"].startswith("stop:"):
        # the argument tuple was out of the Fortran range: run the calculation itself
        d = dict(d, sph=[[p[1] for p in d["pos"]], [p[2] for p in d["pos"]]], scat=dict(d["scat"], center=[0.0, 0.0, 0.0]))
        kind = "explore-survive"
    if kind == "explore-survive":
        sp = d["scat"]
        if d.get("sph"):
            job = dict(kind="smat", scat=sp, theta=d["sph"][0], phi=d["sph"][1], theories=["tmatrix"], nmed=NMED, wavelen=WAVELEN)
        else:
            job = dict(kind="field", scat=sp, points=[[1.0, 2.0, 0.0]],
                       theories=["lens:0.8:tmatrix" if d.get("route") == "lens" else "tmatrix"], nmed=NMED, wavelen=WAVELEN)
        r = run_jobs("replay", [job], nproc=1)[0]
        ctx.explored += 1
        print("replay: outcome =", outcome(r), r.get("msg", ""))
        if outcome(r) == "died":
            ctx.violation(data["key"], data["what"], d)
        elif outcome(r) == "returned" and not all_finite(list(r["ok"].values())[0]):
            print("replay: the call returned non-finite values")
            ctx.violation(data["key"], data["what"], d)
    elif kind == "siblings":
        i = d["request"]
        seq = run_jobs("replayseq", [dict(kind="seq", requests=d["requests"], order=d["order"][:d["step"] + 1])], nproc=1)[0]
        alone = run_jobs("replayalone", [dict(kind="seq", requests=d["requests"], order=[i])], nproc=1)[0]
        ctx.explored += 1
        if outcome(seq) != "returned" or outcome(alone) != "returned":
            print("replay: outcomes", outcome(seq), outcome(alone))
            ctx.violation(data["key"], data["what"], d)
        else:
            dd = rel_diff(seq["ok"]["fields"][-1], alone["ok"]["fields"][0])
            print("replay: request %d (%s) after the recorded sequence vs alone: relative difference %.3g" % (i, d["names"][i], dd))
            if dd > 1e-9:
                ctx.violation(data["key"], data["what"], d)
    elif kind == "explore" and d.get("what", "").split(":")[0] in ("field-vs-mie", "smatrix-vs-mie", "lens-vs-mie"):
        d = dict(d, what=d["what"].split(":")[0])
        if d["what"] == "smatrix-vs-mie":
            job = dict(kind="smat", scat=d["scat"], theta=d["theta"], phi=d["phi"], theories=["tmatrix", "mie"],
                       nmed=d.get("nmed", NMED), wavelen=d.get("wavelen", WAVELEN))
        else:
            ths = ["lens:0.8:tmatrix", "lens:0.8:mie"] if d["what"] == "lens-vs-mie" else ["tmatrix", "mie"]
            job = dict(kind="field", scat=d["scat"], points=d["points"], theories=ths, nmed=NMED, wavelen=WAVELEN)
        r = run_jobs("replay", [job], nproc=1)[0]
        ctx.explored += 1
        if "ok" in r:
            names = sorted(r["ok"])
            dd = rel_diff(r["ok"][[t for t in names if t.endswith("tmatrix")][0]], r["ok"][[t for t in names if t.endswith("mie")][0]])
            print("replay: relative difference T-matrix vs Mie = %.3g" % dd)
            if dd > (1e-3 if d["what"] == "lens-vs-mie" else SPHERE_TOL):
                ctx.violation(data["key"], data["what"], d)
        else:
            print("replay: outcome =", outcome(r))
            ctx.violation(data["key"], data["what"], d)
    else:
        print("replay: re-running the whole check with the recorded seed")
        ctx.seed = data.get("seed", ctx.seed)
        run(ctx)


if __name__ == "__main__":
    if len(sys.argv) == 4 and sys.argv[1] == "--child":
        child_main(sys.argv[2], sys.argv[3])

"""C13 - fitting.  Proof obligations (coq/C13/Props.v) + correspondence of what HoloPy hands to the
optimisers and of the result bookkeeping + exploration of the optimiser-dependent clauses.

The two optimisers are wrapped FROM OUTSIDE (the names `nmpfit` in holopy.inference.nmpfit and
`least_squares` in holopy.inference.scipyfit are replaced by recording shims inside this process;
nothing in /repo is edited).  Recorded: the parinfo / start vector, every (scaled point, residual
vector) the optimiser evaluated, and the optimiser's report.  The Q instance of the Coq model is
evaluated on the same numbers.  The forward calculation is an oracle: its value at the recorded
points is obtained by an independent call of model._forward.

Keys of violations:  prior:scipy:* (the scipy strategy drops the prior z-score),
saveload:scipy:* (scipy-strategy results do not survive hp.save/hp.load), corr:* (model and
implementation disagree), explore:* (a property clause fails on the implementation),
oracle:* (an optimiser breaks its contract)."""
import copy
import math
import os
import warnings
from fractions import Fraction

from harness.lib import boot
from harness.lib.coqrun import RUN_ROOT
from harness.lib.coqrun import qlit, zlit, blit, listlit, run_mismatch_cases, BUILD
from harness.lib.coqrun import strlit as _strlit


def strlit(s):
    return _strlit(s) + "%string"

from harness.lib.ctx import guarded

REQ = ("From HV Require Import Common.Generic Common.Cmp C14.Model C13.Model.\n"
       "Open Scope Q_scope.\n")

DEFS = r"""
Definition dummyP : fpar Q := mkP 0 1 NegInf PosInf (fun _ => None).
Definition pU (lnp : Q) lo hi g : fpar Q :=
  match uniform_ctor QO (fun _ => lnp) lo hi (Some g) with Ok u => of_uniform QO u | Err _ => dummyP end.
Definition pG (nrm mu sd : Q) : fpar Q :=
  match gaussian_ctor QO (fun _ => Qopp nrm) 1 mu sd with Ok g => of_gaussian QO g | Err _ => dummyP end.
Definition pB (nrm mu sd : Q) lo hi : fpar Q :=
  match bgaussian_ctor QO (fun _ => Qopp nrm) 1 mu sd lo hi with Ok b => of_bgaussian QO b | Err _ => dummyP end.
Definition tol : Q := 1 # 1000000000.
Definition eb_close (a b : ebound Q) : bool :=
  match a, b with NegInf, NegInf => true | PosInf, PosInf => true | Fin x, Fin y => qclose tol x y | _, _ => false end.
Definition pi_close (a b : parinfo Q) : bool :=
  qclose tol (pi_value a) (pi_value b) && Bool.eqb (pi_lim_lo a) (pi_lim_lo b) && Bool.eqb (pi_lim_hi a) (pi_lim_hi b)
  && option_eqb eb_close (pi_lo a) (pi_lo b) && option_eqb eb_close (pi_hi a) (pi_hi b).
(* model residual computed with sqrtf := identity: the first n entries are data residuals, the
   rest are radicands, compared with the SQUARE of what the implementation produced *)
Fixpoint resid_close (n : nat) (m r : list (xval Q)) : bool :=
  match m, r with
  | [], [] => true
  | XFin a :: m', XFin b :: r' =>
      match n with
      | S k => qclose tol a b && resid_close k m' r'
      | O => Qle_bool 0 b && qclose tol a (b * b) && resid_close O m' r'
      end
  | XInf :: m', XInf :: r' => resid_close (pred n) m' r'
  | _, _ => false
  end.
Definition uv_close (a b : uval Q) : bool :=
  qclose tol (uv_guess a) (uv_guess b) && qclose tol (uv_plus a) (uv_plus b)
  && qclose tol (uv_minus a) (uv_minus b) && String.eqb (uv_name a) (uv_name b).
Definition isS {A} (o : option A) : bool := match o with Some _ => true | None => false end.
Definition lifeFit := fit Z Z unit unit unit unit (fun m => if Z.eqb m 0 then [] else [tt]) (fun _ d => d)
   (fun _ => None) Z (fun _ d _ _ => d) (fun r _ => if Z.eqb r 0 then None else Some tt) (fun _ _ _ _ => tt).
Definition ocode (o : outcome unit) : Z :=
  match o with Fitted _ _ => 0 | RaisedMissingParameter _ => 1 | RaisedInOptimiser _ => 2 | RaisedAttributeError _ => 3 end.
Fixpoint ltrace (s : scratch Z Z unit unit) (evs : list (Z * unit * Z)) : list (Z * list bool) :=
  match evs with
  | [] => []
  | ev :: t => let '(s1, o) := lifeFit s ev in
      (ocode o, [isS (s_model _ _ _ _ s1); isS (s_pars _ _ _ _ s1); isS (s_data _ _ _ _ s1);
                 isS (s_glp _ _ _ _ s1); isS (s_info _ _ _ _ s1)]) :: ltrace s1 t
  end.
Definition trace_eqb (a b : list (Z * list bool)) : bool :=
  list_eqb (fun x y => Z.eqb (fst x) (fst y) && blist_eqb (snd x) (snd y)) a b.
"""

SCRATCH = ("_model", "_parameters", "_data", "_guess_lnpriors")
OPTICS = dict(medium_index=1.33, illum_wavelen=0.66, illum_polarization=(1, 0))


# ---------------------------------------------------------------------------------------------
# literals

def eb_lit(x):
    x = float(x)
    if x == float("inf"):
        return "PosInf"
    if x == float("-inf"):
        return "NegInf"
    return "(Fin %s)" % qlit(x)


def xv_lit(x):
    x = float(x)
    if x != x or abs(x) == float("inf"):
        return "XInf"     # nan never appears on the unchanged tree; as XInf it can only disagree
    return "(XFin %s)" % qlit(x)


def par_lit(p):
    """Gallina fpar Q built from the prior's CONSTRUCTOR arguments through the C14 model (so the
    scale factor and the guess are the model's), with the log / normalisation constants the
    implementation computed as oracle values."""
    name = type(p).__name__
    if name == "Uniform":
        return "(pU %s %s %s %s)" % (qlit(float(p._lnprob)), eb_lit(p.lower_bound), eb_lit(p.upper_bound),
                                     qlit(float(p.guess)))
    if name == "Gaussian":
        return "(pG %s %s %s)" % (qlit(float(p._lnprob_normalization)), qlit(float(p.mu)), qlit(float(p.sd)))
    if name == "BoundedGaussian":
        return "(pB %s %s %s %s %s)" % (qlit(float(p._lnprob_normalization)), qlit(float(p.mu)), qlit(float(p.sd)),
                                        eb_lit(p.lower_bound), eb_lit(p.upper_bound))
    raise ValueError("unexpected prior kind " + name)


def qlist(xs):
    return listlit([qlit(float(x)) for x in xs])


# ---------------------------------------------------------------------------------------------
# recording shims (installed from outside)

class Rec:
    def __init__(self):
        self.reset()
        self.raise_next = False

    def reset(self):
        self.parinfo = None
        self.x0 = None
        self.kw = None
        self.evals = []
        self.out = None
        self.subset = None


def install_shims(rec):
    import numpy as np
    import holopy.inference.nmpfit as hn
    import holopy.inference.scipyfit as hs
    real_mod = hn.nmpfit
    real_ls = hs.least_squares
    real_sub_n = hn.make_subset_data
    real_sub_s = hs.make_subset_data

    class Shim:
        def __getattr__(self, k):
            return getattr(real_mod, k)

        @staticmethod
        def mpfit(fcn, parinfo=None, **kw):
            rec.parinfo = copy.deepcopy(parinfo)
            rec.kw = dict(kw)
            rec.evals = []
            if rec.raise_next:
                rec.raise_next = False
                raise RuntimeError("harness: optimiser raised on request")

            def f2(p, fjac=None):
                out = fcn(p, fjac)
                rec.evals.append((np.array(p, float).copy(), np.array(out[1], float).copy()))
                return out
            res = real_mod.mpfit(f2, parinfo=parinfo, **kw)
            rec.out = res
            return res

    def ls(fun, x0, **kw):
        rec.x0 = [float(v) for v in x0]
        rec.kw = dict(kw)
        rec.evals = []

        def f2(x):
            out = fun(x)
            rec.evals.append((np.array(x, float).copy(), np.array(out, float).copy()))
            return out
        res = real_ls(f2, x0, **kw)
        rec.out = res
        return res

    def sub_n(data, pixels=None, **kw):
        out = real_sub_n(data, pixels=pixels, **kw)
        rec.subset = out
        return out

    def sub_s(data, pixels=None, **kw):
        out = real_sub_s(data, pixels=pixels, **kw)
        rec.subset = out
        return out

    hn.nmpfit = Shim()
    hs.least_squares = ls
    hn.make_subset_data = sub_n
    hs.make_subset_data = sub_s

    def undo():
        hn.nmpfit = real_mod
        hs.least_squares = real_ls
        hn.make_subset_data = real_sub_n
        hs.make_subset_data = real_sub_s
    return undo


# ---------------------------------------------------------------------------------------------
# generated problems

BOX = {"r": (0.2, 1.0), "alpha": (0.4, 1.3), "lens_angle": (0.3, 1.2)}


def gen_problem(rng, theory_kind, prior_mode, size=None, offset=None):
    """dict(n, truth{name: value}, start{...}, noise_sd, theory_kind, prior_mode, spec{name: prior spec})"""
    n = size or rng.choice([12, 13, 14, 15, 16, 17, 18, 20])
    sp = 0.1
    L = n * sp
    zbox = (0.5, 6.0) if theory_kind == "mielens" else (2.0, 10.0)
    box = dict(BOX)
    box["center.0"] = (0.0, L)
    box["center.1"] = (0.0, L)
    box["center.2"] = zbox
    truth = {"r": rng.uniform(0.35, 0.75),
             "center.0": rng.uniform(0.3 * L, 0.7 * L), "center.1": rng.uniform(0.3 * L, 0.7 * L),
             "center.2": rng.uniform(1.0, 4.0) if theory_kind == "mielens" else rng.uniform(3.0, 7.0)}
    if theory_kind == "mielens":
        truth["lens_angle"] = rng.uniform(0.5, 1.0)
    truth["alpha"] = rng.uniform(0.6, 1.0)
    start, spec = {}, {}
    for k, v in truth.items():
        lo, hi = box[k]
        g = v * (1.0 + rng.uniform(-0.03, 0.03))
        g = min(max(g, lo + 0.02 * (hi - lo)), hi - 0.02 * (hi - lo))
        start[k] = g
        kind = "U"
        if prior_mode == "mixed":
            kind = rng.choice(["U", "U", "G", "B"])
        elif rng.random() < 0.2 and k in ("r", "center.0"):
            kind = rng.choice(["Uhalf", "Ufree"]) if k == "center.0" else "Uhalf"
        spec[k] = dict(kind=kind, lo=lo, hi=hi, sd=0.1 * abs(v) * rng.choice([0.5, 1.0, 2.0]))
    noise_sd = rng.choice([1.0, 0.5, 0.25, 2.0])
    if offset:
        # the data is a crop of a larger image: its x / y coordinates start at offset * spacing, not at 0
        for ax, o in (("center.0", offset[0] * sp), ("center.1", offset[1] * sp)):
            truth[ax] += o
            start[ax] += o
            spec[ax]["lo"] += o
            spec[ax]["hi"] += o
            if o < 0 and spec[ax]["kind"] == "Uhalf":
                spec[ax]["kind"] = "Ufree"         # a half-infinite prior [0, inf) cannot hold a negative coordinate
    return dict(n=n, spacing=sp, truth=truth, start=start, noise_sd=noise_sd,
                theory_kind=theory_kind, prior_mode=prior_mode, spec=spec, offset=list(offset) if offset else None)


def make_prior(spec, guess):
    from holopy.inference import prior
    k = spec["kind"]
    if k == "U":
        return prior.Uniform(spec["lo"], spec["hi"], guess)
    if k == "Uhalf":
        return prior.Uniform(0, float("inf"), guess)
    if k == "Ufree":
        return prior.Uniform(-float("inf"), float("inf"), guess)
    if k == "G":
        return prior.Gaussian(guess, spec["sd"])
    if k == "B":
        return prior.BoundedGaussian(guess, spec["sd"], spec["lo"], spec["hi"])
    raise ValueError(k)


def build_model(pb, guess, spec_override=None):
    from holopy.scattering import Sphere, Mie, MieLens
    from holopy.inference import AlphaModel
    spec = dict(pb["spec"])
    if spec_override:
        spec.update(spec_override)
    pr = {k: make_prior(spec[k], guess[k]) for k in guess}
    sc = Sphere(n=1.59, r=pr["r"], center=(pr["center.0"], pr["center.1"], pr["center.2"]))
    theory = MieLens(lens_angle=pr["lens_angle"]) if pb["theory_kind"] == "mielens" else Mie()
    return AlphaModel(sc, alpha=pr["alpha"], noise_sd=pb["noise_sd"], theory=theory, **OPTICS)


def make_data(pb):
    from holopy.core.metadata import detector_grid
    model = build_model(pb, pb["truth"])
    off = pb.get("offset") or [0, 0]
    if off[0] < 0 or off[1] < 0:
        # a detector whose coordinate origin lies inside / beyond the image (optical axis through the field of view): the
        # particle's x / y are negative or near zero
        det = detector_grid(pb["n"], pb["spacing"])
        det = det.assign_coords(x=det.x + off[0] * pb["spacing"], y=det.y + off[1] * pb["spacing"])
        return model.forward(dict(pb["truth"]), det)
    det = detector_grid((pb["n"] + off[0], pb["n"] + off[1]), pb["spacing"])
    full = model.forward(dict(pb["truth"]), det)
    if off[0] or off[1]:
        full = full.isel(x=slice(off[0], None), y=slice(off[1], None))     # a cropped hologram
    return full


def make_strategy(kind, npixels, seed=None):
    from holopy.inference import NmpfitStrategy, LeastSquaresScipyStrategy
    if kind == "nmpfit":
        return NmpfitStrategy(npixels=npixels, seed=seed)
    return LeastSquaresScipyStrategy(npixels=npixels)


def do_fit(strategy, model, data, rec, rngseed=12345):
    import numpy as np
    rec.reset()
    np.random.seed(rngseed)          # the unseeded pixel selection draws from numpy's global generator
    with warnings.catch_warnings():
        warnings.simplefilter("ignore")
        return strategy.fit(model, data)


def chisq(model, vals, data, noise):
    import numpy as np
    f = model._forward(list(vals), data)
    return float((((f - data) / noise).values ** 2).sum())


def bounds_of(p):
    lo = getattr(p, "lower_bound", -float("inf"))
    hi = getattr(p, "upper_bound", float("inf"))
    return float(lo), float(hi)


def inside(p, v, slack=1e-12):
    lo, hi = bounds_of(p)
    return (v >= lo - slack * max(1.0, abs(lo)) if lo > -float("inf") else True) and \
           (v <= hi + slack * max(1.0, abs(hi)) if hi < float("inf") else True)


# ---------------------------------------------------------------------------------------------
# one generated case: correspondence expressions + exploration

def case_exprs(ctx, tag, skind, strategy, model, rec, result, used_data, exprs, metas, pb):
    """model-vs-implementation expressions for one recorded fit"""
    import numpy as np
    pars = model._parameters
    names = list(model._parameter_names)
    ps = listlit([par_lit(p) for p in pars])
    noise = float(model._find_noise([p.guess for p in pars], used_data))
    dflat = np.asarray(used_data.values, float).flatten()
    npix = len(dflat)
    meta0 = dict(case=tag, strategy=skind, npixels=strategy.npixels, problem=pb)

    def add(what, e, **extra):
        exprs.append(e)
        m = dict(meta0)
        m.update(what=what)
        m.update(extra)
        metas.append(m)

    sfs = [float(p.scale_factor) for p in pars]
    # 1. what is handed to the optimiser
    if skind == "nmpfit":
        items = []
        for d in rec.parinfo:
            lims = []
            for lim, v in zip(d["limited"], d["limits"]):
                v = float(v)
                lims.append("None" if v != v else "(Some %s)" % eb_lit(v))
            items.append("(mkPI %s %s %s %s %s)" % (qlit(float(d["value"])), blit(bool(d["limited"][0])),
                                                    blit(bool(d["limited"][1])), lims[0], lims[1]))
        add("parinfo", "list_eqb pi_close (nmp_parinfo QO %s) %s" % (ps, listlit(items)),
            impl=[dict(value=float(d["value"]), limited=[bool(x) for x in d["limited"]],
                       limits=[float(x) for x in d["limits"]]) for d in rec.parinfo])
        for d, p in zip(rec.parinfo, pars):
            ctx.nontriv(("limits", bool(d["limited"][0]), bool(d["limited"][1]), type(p).__name__))
        xout = [float(v) for v in rec.out.params]
    else:
        add("start", "qlist_close tol (scipy_start QO %s) %s" % (ps, qlist(rec.x0)), impl=rec.x0)
        xout = [float(v) for v in rec.out.x]
    # 2. residual vectors at recorded points: start, one in the middle, the last
    idx = sorted(set([0, len(rec.evals) // 2, len(rec.evals) - 1] +
                     [i for i, (_, r) in enumerate(rec.evals) if not np.all(np.isfinite(r))][:1]))
    for i in idx:
        xs, r = rec.evals[i]
        phys = [float(x) * s for x, s in zip(xs, sfs)]
        with warnings.catch_warnings():
            warnings.simplefilter("ignore")
            f = model._forward(phys, used_data)
        fl = np.asarray(getattr(f, "values", f), float).flatten()
        if fl.shape != dflat.shape or not np.all(np.isfinite(fl)):
            ctx.count("resid-point-skipped")
            continue
        # the in/out-of-bounds decision inside lnprob is made on the implementation's own floats
        # (x*sf rounded), so the residual model is evaluated at them; that they ARE the unscaled
        # point is the first conjunct
        fn = "nmp_residuals" if skind == "nmpfit" else "scipy_residuals"
        e = ("qlist_close tol (unscale_all QO %s %s) %s && resid_close %d (%s QO (fun x => x) (fun _ => %s) %s %s %s %s) %s"
             % (ps, qlist(xs), qlist(phys), npix, fn, qlist(fl), qlist(dflat), qlit(noise), ps, qlist(phys),
                listlit([xv_lit(v) for v in r])))
        add("residual", e, point=[float(x) for x in xs], n_residuals=len(r), n_pixels=npix,
            residual_tail=[float(v) for v in r[-3:]])
        ctx.count("residual-vectors")
        ctx.count("residual-entries", len(r))
    # 3. result bookkeeping
    if not all(math.isfinite(float(u.plus)) and math.isfinite(float(u.minus)) for u in result.intervals):
        # error bars from a singular J^T J (a parameter pegged at a bound): not a property clause
        ctx.count("intervals-nonfinite-skipped")
        _bounds_expr(add, ps, pars, xout, sfs)
        return
    iv = listlit(["(mkUV %s %s %s %s)" % (qlit(float(u.guess)), qlit(float(u.plus)), qlit(float(u.minus)),
                                           strlit(str(u.name))) for u in result.intervals])
    nl = listlit([strlit(n) for n in names])
    if skind == "nmpfit":
        pe = rec.out.perror
        pel = "None" if pe is None else "(Some %s)" % qlist(pe)
        add("intervals", "list_eqb uv_close (nmp_intervals QO %s %s %s %s) %s" % (ps, nl, qlist(xout), pel, iv),
            impl=[dict(guess=float(u.guess), plus=float(u.plus), minus=float(u.minus), name=u.name)
                  for u in result.intervals])
    else:
        fitted = [x * s for x, s in zip(xout, sfs)]
        ue = type(strategy)._calculate_unit_noise_errors_from_fit(rec.out)
        nz = float(model._find_noise(fitted, used_data))
        add("intervals", "list_eqb uv_close (scipy_intervals QO %s %s %s %s %s) %s"
            % (ps, nl, qlist(xout), qlit(nz), qlist(ue), iv),
            impl=[dict(guess=float(u.guess), plus=float(u.plus), minus=float(u.minus), name=u.name)
                  for u in result.intervals])
    _bounds_expr(add, ps, pars, xout, sfs)


def _bounds_expr(add, ps, pars, xout, sfs):
    # 4. limits <=> bounds on the returned point (exact on the same floats)
    physout = [x * s for x, s in zip(xout, sfs)]
    impl_inside = all(inside(p, v, slack=0.0) for p, v in zip(pars, physout))
    add("bounds", "Bool.eqb (within_bounds QO %s %s) %s && Bool.eqb (within_limits QO (nmp_parinfo QO %s) %s) (within_bounds QO %s (unscale_all QO %s %s))"
        % (ps, qlist(physout), blit(impl_inside), ps, qlist(xout), ps, ps, qlist(xout)), impl=impl_inside)


def oracle_contract(ctx, skind, rec, fixed_point):
    """sample the optimiser contract on this call (trusted oracle; a failure is reported)"""
    import numpy as np
    if not rec.evals:
        return
    x0, r0 = rec.evals[0]
    xout = np.array(rec.out.params if skind == "nmpfit" else rec.out.x, float)
    c0 = float(np.sum(r0 ** 2))
    cout = None
    for xs, r in rec.evals:
        if np.array_equal(xs, xout):
            cout = float(np.sum(r ** 2))
    ctx.explored += 1
    ctx.count("oracle-contract-samples")
    if cout is not None and not (cout <= c0 * (1 + 1e-12) + 1e-300):
        ctx.violation("oracle:%s:never-worse" % skind, "optimiser returned a point with a larger cost than the start",
                      dict(kind="oracle", cost_start=c0, cost_out=cout))
    if len(xout) != len(x0):
        ctx.violation("oracle:%s:shape" % skind, "optimiser output has another length than the start", dict(kind="oracle"))
    if fixed_point and c0 == 0.0 and not np.array_equal(xout, x0):
        ctx.violation("oracle:%s:zero-fixed" % skind, "zero residual at the start but the optimiser moved",
                      dict(kind="oracle", start=x0.tolist(), out=xout.tolist()))
    if skind == "nmpfit":
        for d, v in zip(rec.parinfo, xout):
            lo, hi = float(d["limits"][0]), float(d["limits"][1])
            if (d["limited"][0] and v < lo * (1 - 1e-12 if lo > 0 else 1 + 1e-12) - 1e-300) or \
               (d["limited"][1] and v > hi * (1 + 1e-12 if hi > 0 else 1 - 1e-12) + 1e-300):
                ctx.violation("oracle:nmpfit:limits", "mpfit returned a point outside the limits it was given",
                              dict(kind="oracle", value=float(v), limits=[lo, hi]))


def data_same(a, b):
    import numpy as np
    try:
        if list(a.dims) != list(b.dims) or not np.array_equal(np.asarray(a.values), np.asarray(b.values)):
            return False
        if set(a.coords) != set(b.coords) or set(a.attrs) != set(b.attrs):
            return False
        for c in a.coords:
            if c != "flat" and not np.array_equal(np.asarray(a[c].values), np.asarray(b[c].values)):
                return False
        for k in a.attrs:
            x, y = a.attrs[k], b.attrs[k]
            x, y = getattr(x, "values", x), getattr(y, "values", y)
            if isinstance(x, dict) or isinstance(y, dict):
                if set(x) != set(y) or not all(np.array_equal(np.asarray(x[q]), np.asarray(y[q])) for q in x):
                    return False
            elif x is None or y is None:
                if not (x is None and y is None):
                    return False
            elif not np.array_equal(np.asarray(x), np.asarray(y)):
                return False
        return True
    except Exception:   # noqa
        return False


def results_equal(a, b):
    return list(a.parameters.keys()) == list(b.parameters.keys()) and \
        all(float(a.parameters[k]) == float(b.parameters[k]) for k in a.parameters) and \
        [(float(u.plus), float(u.minus)) for u in a.intervals] == [(float(u.plus), float(u.minus)) for u in b.intervals]


def saveload_check(ctx, skind, strategy, model, data, result, touched, pb, tmpdir, tag):
    import numpy as np
    import holopy as hp
    sub = "subset" if strategy.npixels is not None else "full"
    key = "saveload:%s:%s%s" % (skind, sub, ":touched" if touched else "")
    info = dict(kind="saveload", strategy=skind, npixels=strategy.npixels, touched=touched, problem=pb)
    ctx.explored += 1
    ctx.count("saveload:%s:%s" % (skind, sub))
    path = os.path.join(tmpdir, "res_%s.h5" % tag)
    try:
        if touched:
            result.hologram
            result.max_lnprob
        with warnings.catch_warnings():
            warnings.simplefilter("ignore")
            hp.save(path, result)
            back = hp.load(path)
    except Exception as e:   # noqa
        ctx.violation(key, "a %s-strategy result (%s data%s) cannot be saved and reloaded: %s: %s"
                      % (skind, sub, ", hologram computed first" if touched else "", type(e).__name__, str(e)[:160]),
                      dict(error=type(e).__name__, message=str(e)[:300], **info))
        return
    finally:
        if os.path.exists(path):
            os.remove(path)
    bad = []
    if not results_equal(back, result):
        bad.append("parameters/intervals")
    if [u.name for u in back.intervals] != [u.name for u in result.intervals]:
        bad.append("names")
    if not (back.model == result.model):
        bad.append("model")
    if not (back.strategy == result.strategy):
        bad.append("strategy")
    if back.time != result.time:
        bad.append("time")
    try:
        same_data = np.array_equal(np.asarray(back.data.values), np.asarray(result.data.values)) and \
            list(back.data.dims) == list(result.data.dims)
    except Exception:   # noqa
        same_data = False
    if not same_data:
        bad.append("data")
    with warnings.catch_warnings():
        warnings.simplefilter("ignore")
        h1, h2 = np.asarray(result.hologram.values).flatten(), np.asarray(back.hologram.values).flatten()
        if h1.shape != h2.shape or not np.allclose(h1, h2, rtol=1e-10, atol=1e-12):
            bad.append("hologram")
        l1, l2 = float(result.max_lnprob), float(back.max_lnprob)
        if not abs(l1 - l2) <= 1e-9 * max(1.0, abs(l1)):
            bad.append("max_lnprob")
    if bad:
        ctx.violation(key + ":differs", "a reloaded %s-strategy result differs from the saved one in: %s" % (skind, ", ".join(bad)),
                      dict(differs=bad, **info))


def run_case(ctx, k, rng, rec, exprs, metas, tmpdir, combo):
    import numpy as np
    theory_kind, skind, use_subset, prior_mode = combo
    offset = (rng.randint(1, 6), rng.randint(1, 6)) if k % 2 == 1 else None
    if k % 4 == 1:
        offset = (-rng.randint(9, 14), -rng.randint(5, 7))          # x negative everywhere, y changes sign inside the image
    pb = gen_problem(rng, theory_kind, prior_mode, offset=offset)
    ctx.count("data:%s" % ("cropped (coordinates do not start at 0)" if offset else "origin 0"))
    n2 = pb["n"] ** 2
    npixels = rng.choice([n2 // 3, n2 // 2, 60]) if use_subset else None
    seed = rng.choice([None, 7, 0, 11, 0]) if (skind == "nmpfit" and use_subset) else None
    strategy = make_strategy(skind, npixels, seed)
    pristine = copy.deepcopy(strategy)
    data = make_data(pb)
    data0 = data.copy(deep=True)
    model = build_model(pb, pb["start"])
    import yaml
    model_yaml0 = yaml.dump(model)
    tag = "%03d" % k
    ctx.count("case:%s:%s:%s:%s" % (theory_kind, skind, "subset" if use_subset else "full", prior_mode))
    ctx.count("grid:%d" % pb["n"])
    info = dict(kind="explore", strategy=skind, npixels=npixels, seed=seed, problem=pb)

    result = do_fit(strategy, model, data, rec)
    used = rec.subset if (use_subset and rec.subset is not None) else data
    main = copy.copy(rec.__dict__)
    names = list(model._parameter_names)
    pars = model._parameters
    vals = [float(result.parameters[nm]) for nm in names]
    startv = [float(p.guess) for p in pars]
    noise = float(model._find_noise(startv, used))
    case_exprs(ctx, tag, skind, strategy, model, rec, result, used, exprs, metas, pb)
    oracle_contract(ctx, skind, rec, False)
    ctx.nontriv(("case", theory_kind, skind, use_subset, prior_mode, pb["n"]))

    # -- result bookkeeping on the implementation (exact)
    ctx.explored += 1
    if list(result.parameters.keys()) != names or [u.name for u in result.intervals] != names:
        ctx.violation("explore:result-names", "FitResult parameter names differ from the model's",
                      dict(names=names, got=list(result.parameters.keys()), **info))
    with warnings.catch_warnings():
        warnings.simplefilter("ignore")
        # the derived attributes are read in both orders (they are computed on first access and kept): the guess's hologram
        # first on every other case
        first = "guess_hologram" if ctx.explored % 2 else "hologram"
        ctx.count("result:read-first:" + first)
        if first == "guess_hologram":
            gholo = np.asarray(result.guess_hologram.values, float).flatten()
        holo = np.asarray(result.hologram.values, float).flatten()
        gholo = np.asarray(result.guess_hologram.values, float).flatten()
        holo_again = np.asarray(result.hologram.values, float).flatten()
        ref = np.asarray(model.forward(dict(result.parameters), data).values, float).flatten()
        gref = np.asarray(model.forward(dict(model.initial_guess), data).values, float).flatten()
        lnp = float(result.max_lnprob)
        lnp_ref = float(model.lnposterior(dict(result.parameters), result.data))
    if holo.shape != ref.shape or not np.allclose(holo, ref, rtol=1e-9, atol=1e-12) or not np.array_equal(holo, holo_again):
        ctx.violation("explore:result-hologram", "FitResult.hologram is not the forward model at the reported parameters "
                      "(attribute read first: %s)" % first,
                      dict(maxdiff=float(np.max(np.abs(holo - ref))) if holo.shape == ref.shape else "shape", read_first=first, **info))
    if gholo.shape != gref.shape or not np.allclose(gholo, gref, rtol=1e-9, atol=1e-12):
        ctx.violation("explore:result-guess-hologram", "FitResult.guess_hologram is not the forward model at the model's initial "
                      "guess (attribute read first: %s)" % first,
                      dict(maxdiff=float(np.max(np.abs(gholo - gref))) if gholo.shape == gref.shape else "shape", read_first=first, **info))
    if not (lnp == lnp_ref):
        ctx.violation("explore:result-lnprob", "FitResult.max_lnprob is not lnposterior at the reported parameters",
                      dict(max_lnprob=lnp, lnposterior=lnp_ref, **info))
    # -- never worse, within bounds
    c_start, c_res = chisq(model, startv, used, noise), chisq(model, vals, used, noise)
    ctx.explored += 1
    if not (c_res <= c_start * (1 + 1e-9) + 1e-18):
        ctx.violation("explore:never-worse:%s" % skind, "misfit at the result exceeds the misfit at the guess",
                      dict(chisq_start=c_start, chisq_result=c_res, **info))
    out = [nm for nm, p, v in zip(names, pars, vals) if not inside(p, v)]
    ctx.explored += 1
    if out:
        ctx.violation("prior:%s:bounds" % skind if skind == "scipy" else "explore:bounds:%s" % skind,
                      "fitted value outside its prior's bounds: %s" % out, dict(outside=out, values=vals, **info))
    # -- recovery (uniform priors only: a Gaussian prior centred off the truth biases the optimum)
    if prior_mode == "uniform":
        err = max(abs(v - pb["truth"][nm]) / abs(pb["truth"][nm]) for nm, v in zip(names, vals))
        ctx.explored += 1
        ctx.count("recovery-cases")
        ctx.hist["recovery-max-rel-err"] = max(ctx.hist.get("recovery-max-rel-err", 0.0), err)
        if not err <= 1e-3:
            ctx.violation("explore:recovery:%s" % skind, "generating parameters not recovered to 1e-3 from a <=3%% perturbed start",
                          dict(rel_err=err, values=vals, **info))
    # -- strategy / model / data left as they were
    ctx.explored += 1
    left = [a for a in SCRATCH if hasattr(strategy, a)]
    if left:
        ctx.violation("explore:scratch-left", "strategy keeps scratch attributes after a successful fit: %s" % left,
                      dict(left=left, **info))
    if not (strategy == pristine) or yaml.dump(model) != model_yaml0 or not data_same(data, data0):
        ctx.violation("explore:objects-changed", "fit changed the strategy's settings, the model or the data",
                      dict(strategy_same=bool(strategy == pristine), model_same=yaml.dump(model) == model_yaml0,
                           data_same=bool(data_same(data, data0)), **info))
    # -- repeatability: same call again on the same objects.  A strategy with its own seed selects its pixels from that seed,
    #    whatever state numpy's global generator is in (a different one for the second call); an unseeded one draws from the
    #    global generator, which is put in the same state
    again = do_fit(strategy, model, data, rec, rngseed=(12345 if seed is None else 987654))
    ctx.explored += 1
    if not results_equal(again, result):
        ctx.violation("explore:repeat:%s" % skind, "the same fit call repeated on the same objects gives another result",
                      dict(first={n_: float(v) for n_, v in result.parameters.items()},
                           second={n_: float(v) for n_, v in again.parameters.items()}, **info))
    # -- fixed point at the truth
    tmodel = build_model(pb, pb["truth"])
    tres = do_fit(make_strategy(skind, npixels, seed), tmodel, data, rec)
    oracle_contract(ctx, skind, rec, True)
    terr = max(abs(float(tres.parameters[nm]) - pb["truth"][nm]) / abs(pb["truth"][nm]) for nm in names)
    ctx.explored += 1
    ctx.hist["fixedpoint-max-rel-err"] = max(ctx.hist.get("fixedpoint-max-rel-err", 0.0), terr)
    r0 = rec.evals[0][1] if rec.evals else None
    ctx.hist["truth-residual-max-abs"] = max(ctx.hist.get("truth-residual-max-abs", 0.0),
                                             float(np.max(np.abs(r0))) if r0 is not None else 0.0)
    # exactly 0 for Mie; MieLens evaluated on a pixel subset differs from the full-grid evaluation in
    # the last bits (C07's subject), so the bound is a rounding bound, scaled by 1/noise
    if r0 is not None and float(np.max(np.abs(r0))) > 1e-11 / pb["noise_sd"]:
        ctx.violation("explore:truth-residual", "residual at the truth on noise-free self-generated data is not zero",
                      dict(max_abs=float(np.max(np.abs(r0))), **info))
    if not terr <= 1e-9:
        ctx.violation("explore:fixed-point:%s" % skind, "fit started at the truth on noise-free data moved away",
                      dict(rel_err=terr, **info))
    # -- save / load
    saveload_check(ctx, skind, strategy, model, data, result, touched=((k // 2) % 2 == 1), pb=pb, tmpdir=tmpdir, tag=tag)
    if k < 4:
        ctx.sample(dict(strategy=skind, npixels=npixels, theory=theory_kind, grid=pb["n"], truth=pb["truth"],
                        start=pb["start"], result={n_: float(v) for n_, v in result.parameters.items()},
                        chisq_start=c_start, chisq_result=c_res, n_evaluations=len(main["evals"])))


# ---------------------------------------------------------------------------------------------
# stages

COMBOS = [("mie", "nmpfit", False, "uniform"), ("mie", "scipy", False, "uniform"),
          ("mielens", "nmpfit", True, "uniform"), ("mielens", "scipy", True, "uniform"),
          ("mie", "nmpfit", True, "mixed"), ("mie", "scipy", False, "mixed"),
          ("mielens", "nmpfit", False, "mixed"), ("mielens", "scipy", True, "mixed"),
          ("mie", "nmpfit", False, "mixed"), ("mie", "scipy", True, "uniform")]


def stage_cases(ctx, rec, exprs, metas, tmpdir):
    rng = ctx.subrng("cases")
    ncase = ctx.n(6, 40)
    for k in range(ncase):
        combo = COMBOS[k % len(COMBOS)]
        guarded(ctx, "case-%d" % k, run_case, ctx, k, rng, rec, exprs, metas, tmpdir, combo)


def stage_bounds(ctx, rec, exprs, metas):
    """data generated just OUTSIDE a narrow prior (start within a few percent of the truth): the
    fitted value has to stay inside the prior's bounds"""
    import numpy as np
    rng = ctx.subrng("bounds")
    for k in range(ctx.n(3, 12)):
        skind = ["nmpfit", "scipy", "scipy"][k % 3]
        pb = gen_problem(rng, "mie", "uniform", size=12)
        which = rng.choice(["r", "alpha", "center.2"])
        t = pb["truth"][which]
        side = rng.choice([-1, 1])
        lo, hi = (t * 0.94, t * 0.98) if side > 0 else (t * 1.02, t * 1.06)
        g = (lo + hi) / 2
        pb["start"] = dict(pb["truth"])
        pb["start"][which] = g
        # the scipy strategy has no bound handling of its own (the prior's z-score is what keeps it inside): both an
        # all-Uniform model and one with an informative (BoundedGaussian) prior, every run
        kind = rng.choice(["U", "B"]) if skind == "nmpfit" else ["U", "B"][(k // 3 + k % 3) % 2]
        model = build_model(pb, pb["start"], {which: dict(kind=kind, lo=lo, hi=hi, sd=0.05 * t)})
        data = make_data(pb)
        strategy = make_strategy(skind, None)
        result = do_fit(strategy, model, data, rec)
        case_exprs(ctx, "b%02d" % k, skind, strategy, model, rec, result, data, exprs, metas, pb)
        oracle_contract(ctx, skind, rec, False)
        names = list(model._parameter_names)
        vals = [float(result.parameters[nm]) for nm in names]
        out = [nm for nm, p, v in zip(names, model._parameters, vals) if not inside(p, v)]
        ctx.explored += 1
        ctx.count("bounds-stress:%s:%s" % (skind, kind))
        ctx.nontriv(("bounds-stress", skind, which, side, kind))
        if out:
            ctx.violation("prior:%s:bounds" % skind if skind == "scipy" else "explore:bounds:%s" % skind,
                          "data generated %.0f%% outside a narrow prior on %s: the %s strategy returns %s=%r, outside [%r, %r]"
                          % (100 * abs(t - g) / t, which, skind, which, vals[names.index(which)], lo, hi),
                          dict(kind="bounds", strategy=skind, which=which, prior_kind=kind, bounds=[lo, hi], truth=t,
                               values=dict(zip(names, vals)), problem=pb))
        startv = [float(p.guess) for p in model._parameters]
        noise = float(model._find_noise(startv, data))
        if not chisq(model, vals, data, noise) <= chisq(model, startv, data, noise) * (1 + 1e-9):
            ctx.violation("explore:never-worse:%s" % skind, "misfit at the result exceeds the misfit at the guess (bounded problem)",
                          dict(kind="explore", strategy=skind, problem=pb))


def stage_on_bound(ctx, rec, exprs, metas):
    """the guess of one parameter lies EXACTLY on a bound of its Uniform prior (legal: the constructor accepts it), the
    generating value a few percent inside: the fit must not get worse, must stay inside, and has to recover"""
    import numpy as np
    rng = ctx.subrng("on-bound")
    combos = [("nmpfit", w, sd) for w in ("r", "alpha", "center.2") for sd in ("hi", "lo")] + [("scipy", "r", "hi"), ("scipy", "alpha", "lo")]
    for k in range(ctx.n(2 * len(combos), 6 * len(combos))):
        skind, which, side = combos[(k // 2) % len(combos)]        # each combination with the others at the truth (k even) and perturbed
        pb = gen_problem(rng, "mie", "uniform", size=12)
        t = pb["truth"][which]
        g = t * (1.03 if side == "hi" else 0.97)
        lo, hi = (t * 0.8, g) if side == "hi" else (g, t * 1.2)
        if k % 2 == 0:
            pb["start"] = dict(pb["truth"])       # only the parameter on the bound is off; otherwise all start <= 3% off
        pb["start"][which] = g
        model = build_model(pb, pb["start"], {which: dict(kind="U", lo=lo, hi=hi, sd=0.05 * t)})
        data = make_data(pb)
        strategy = make_strategy(skind, None)
        info = dict(kind="on-bound", strategy=skind, which=which, side=side, bounds=[lo, hi], truth=t, problem=pb)
        ctx.explored += 1
        ctx.count("on-bound:%s:%s" % (skind, side))
        ctx.nontriv(("on-bound", skind, which, side))
        try:
            result = do_fit(strategy, model, data, rec)
        except Exception as e:  # noqa
            ctx.violation("on-bound:%s:raises" % skind, "a fit whose guess for %s lies exactly on the %s bound of its Uniform prior raises "
                          "%s: %s" % (which, "upper" if side == "hi" else "lower", type(e).__name__, str(e)[:120]), info)
            continue
        names = list(model._parameter_names)
        vals = [float(result.parameters[nm]) for nm in names]
        out = [nm for nm, p, v in zip(names, model._parameters, vals) if not inside(p, v)]
        if out:
            ctx.violation("on-bound:%s:bounds" % skind, "fitted value outside its prior's bounds: %s" % out, dict(values=vals, **info))
        startv = [float(p.guess) for p in model._parameters]
        noise = float(model._find_noise(startv, data))
        if not chisq(model, vals, data, noise) <= chisq(model, startv, data, noise) * (1 + 1e-9):
            ctx.violation("on-bound:%s:never-worse" % skind, "misfit at the result exceeds the misfit at the guess (guess on a bound)",
                          dict(values=vals, **info))
        err = max(abs(v - pb["truth"][nm]) / abs(pb["truth"][nm]) for nm, v in zip(names, vals))
        # recovery is asked for when only the parameter on the bound is off (measured: 1e-12 on the unchanged tree); with all
        # parameters perturbed AND one of them confined to a 3% wide strip the optimiser may settle in a neighbouring
        # valley of the r / z / alpha degeneracy (2.5% seen on the unchanged tree): convergence is not demanded there
        if k % 2 == 0 and not err <= 1e-3:
            ctx.violation("on-bound:%s:%s:recovery" % (skind, side), "generating parameters not recovered to 1e-3 when the guess of %s lies "
                          "exactly on the %s bound of its prior (truth 3%% inside, all other parameters start at the truth); relative "
                          "error %.3g" % (which, "upper" if side == "hi" else "lower", err), dict(values=vals, rel_err=err, **info))
        # likewise (others at the truth): the result must not sit ON the bound it started from while the misfit decreases
        # towards the interior.  (With every parameter perturbed the unchanged mpfit sometimes stops in a shallow valley along
        # the bound - seed 1: chi^2 0.1188 with a 2e-3 relative descent left - which is the optimiser's convergence, not
        # HoloPy's wiring, and is not demanded.)
        iv = names.index(which)
        bound = hi if side == "hi" else lo
        if k % 2 == 0 and abs(vals[iv] - bound) <= 1e-12 * abs(bound):
            inward = list(vals)
            inward[iv] = bound * (1 - 1e-4) if side == "hi" else bound * (1 + 1e-4)
            c0, c1 = chisq(model, vals, data, noise), chisq(model, inward, data, noise)
            if c1 < c0 * (1 - 1e-6):
                ctx.violation("on-bound:%s:%s:pegged" % (skind, side), "the fitted %s is still exactly on the %s bound it started from although "
                              "the misfit decreases towards the interior (chi^2 %.6g -> %.6g for a 1e-4 step)"
                              % (which, "upper" if side == "hi" else "lower", c0, c1), dict(values=vals, chisq=[c0, c1], **info))


def stage_reuse(ctx, rec, exprs, metas):
    """one strategy object over a sequence of different models / data, fits that raise included:
    scratch-attribute trace vs the Coq state machine, and every result = a fresh strategy's"""
    import numpy as np
    from holopy.scattering import Sphere, Mie
    from holopy.scattering.errors import MissingParameter
    from holopy.inference import AlphaModel
    rng = ctx.subrng("reuse")
    for q in range(ctx.n(1, 4)):
        pbs = [gen_problem(rng, "mie", rng.choice(["uniform", "mixed"]), size=12) for _ in range(3)]
        datas = [make_data(pb) for pb in pbs]
        models = [build_model(pb, pb["start"]) for pb in pbs]
        noparam = AlphaModel(Sphere(n=1.59, r=0.5, center=(0.6, 0.6, 5.0)), alpha=0.9, noise_sd=1, theory=Mie(), **OPTICS)
        for skind, npixels, seed in (("nmpfit", None, None), ("nmpfit", 50, 3), ("scipy", None, None)):
            S = make_strategy(skind, npixels, seed)
            evkinds = [rng.choice(["ok", "ok", "ok", "zero", "raise"]) for _ in range(ctx.n(5, 7))] + ["ok"]
            first = {}
            trace, evlits = [], []
            for j, ek in enumerate(evkinds):
                i = rng.randrange(3)
                code = None
                if ek == "raise" and skind != "nmpfit":
                    ek = "ok"
                try:
                    if ek == "zero":
                        do_fit(S, noparam, datas[i], rec)
                        code = 0
                    else:
                        if j % 2 == 1:
                            # a bystander: another strategy object of the same class with other settings is created (and
                            # used once) between two fits of S - S's own settings and results must not notice
                            from holopy.inference import NmpfitStrategy, LeastSquaresScipyStrategy
                            other = (NmpfitStrategy(npixels=npixels, seed=seed, maxiter=2, ftol=1e-2, xtol=1e-2, gtol=1e-2)
                                     if skind == "nmpfit" else
                                     LeastSquaresScipyStrategy(npixels=npixels, max_nfev=3, ftol=1e-2, xtol=1e-2, gtol=1e-2))
                            if j % 4 == 1:
                                try:
                                    do_fit(other, models[i], datas[i], rec)
                                except Exception:  # noqa - only its side effects on S matter here
                                    pass
                            ctx.count("reuse:bystander-strategy")
                        rec.raise_next = (ek == "raise")
                        res = do_fit(S, models[i], datas[i], rec)
                        code = 0
                        fresh = do_fit(make_strategy(skind, npixels, seed), models[i], datas[i], rec)
                        ctx.explored += 1
                        ctx.count("reuse-fits")
                        if not results_equal(res, fresh) or (i in first and not results_equal(res, first[i])):
                            ctx.violation("explore:reuse:%s" % skind,
                                          "a reused strategy object gives another result than a new one (or than its own earlier fit of the same problem)",
                                          dict(kind="reuse", strategy=skind, npixels=npixels, step=j, events=evkinds[:j + 1],
                                               problems=pbs))
                        first.setdefault(i, res)
                except MissingParameter:
                    code = 1
                except RuntimeError:
                    code = 2
                finally:
                    rec.raise_next = False
                if skind == "nmpfit":
                    trace.append((code, [hasattr(S, a) for a in SCRATCH] + [hasattr(S, "_minimizer_info")]))
                    evlits.append("(%s, tt, %s)" % (zlit(0 if ek == "zero" else 1), zlit(0 if ek == "raise" else 1)))
                ctx.count("reuse-event:%s" % ek)
            if skind == "nmpfit":
                tl = listlit(["(%s, %s)" % (zlit(c), listlit([blit(b) for b in bs])) for c, bs in trace])
                exprs.append("trace_eqb (ltrace (fresh Z Z unit unit) %s) %s" % (listlit(evlits), tl))
                metas.append(dict(what="lifecycle", events=evkinds, npixels=npixels, impl=[(c, bs) for c, bs in trace]))
                ctx.nontriv(("life", tuple(evkinds)))


# source tie: the prior terms of both strategies' residual vectors and the error scaling, as written now
SRC_ITEMS = [
    dict(file="holopy/inference/scipyfit.py", qualname="LeastSquaresScipyStrategy.fit.residual", name="scipy_zscore_src",
         fn=lambda repo: __import__("harness.lib.pysrc", fromlist=["x"]).translate_segment(
             repo, "holopy/inference/scipyfit.py", "LeastSquaresScipyStrategy.fit.residual", "scipy_zscore_src", "ln_prior", "zscore_prior",
             ["zscore_prior"], inputs=["guess_lnprior"], opaque_exprs={"model._lnprior(unscaled_values)": "lnp"})),
    dict(file="holopy/inference/scipyfit.py", qualname="LeastSquaresScipyStrategy.fit", name="scipy_errors_src",
         fn=lambda repo: __import__("harness.lib.pysrc", fromlist=["x"]).translate_segment(
             repo, "holopy/inference/scipyfit.py", "LeastSquaresScipyStrategy.fit", "scipy_errors_src", "errors_scaled", "errors_scaled",
             ["errors_scaled"], inputs=["noise", "unit_errors"])),
    dict(file="holopy/inference/nmpfit.py", qualname="NmpfitStrategy.calc_residuals", name="nmp_prior_res_src",
         fn=lambda repo: __import__("harness.lib.pysrc", fromlist=["x"]).translate_segment(
             repo, "holopy/inference/nmpfit.py", "NmpfitStrategy.calc_residuals", "nmp_prior_res_src", "prior_residuals", "prior_residuals",
             ["prior_residuals"], inputs=["current_lnpriors"], self_attrs={"_guess_lnpriors": "guess_lnpriors"},
             extra_sig="(guess_lnpriors : R)")),
]


def stage_srctie(ctx):
    from harness.lib import srctie
    ok = srctie.run(ctx, "C13", "From Coq Require Import Lia.\nFrom HV Require Import C13.Model C13.Lemmas C13.Props.\n", SRC_ITEMS)
    ctx.count("srctie:%s" % ("ok" if ok else "broken"))


def run(ctx):
    ctx.rule = ("generated single-sphere problems (Mie / MieLens incl. fitted lens angle; grids 12..20 square; full image "
                "and random pixel subsets; Uniform incl. half-infinite and improper / Gaussian / BoundedGaussian priors; "
                "noise_sd in {0.25,0.5,1,2}; start within 3% of the truth) x both strategies; narrow-prior bound stress; "
                "sequences of fits on one strategy object incl. raising fits; non-trivial = distinct "
                "(theory, strategy, subset, prior mode, grid) cases, distinct limit patterns, distinct event sequences")
    ctx.clauses_proved = [
        "scale factors positive; unscale o scale = id on whole vectors; both strategies start at the scaled guess",
        "limits handed to mpfit hold iff the prior bounds hold for the unscaled vector",
        "noise-free self-generated data, guess = truth: residual vector = 0, hence (contract) result = truth",
        "never worse: data misfit(result) <= data misfit(guess) under the optimiser contract",
        "within bounds: via limits (nmpfit) and via the infinite prior residual (both) under the contract",
        "result names / values / errors / name lookup / hologram and lnprob definitional",
        "strategy object reusable over any sequence of fits (incl. raising ones); scratch-free after success",
        "mpfit accept rule: fnorm non-increasing (hand-read third-party model, no correspondence)",
        "Q instance = R instance for the arithmetic leaves"]
    ctx.clauses_explored = [
        "the optimisers satisfy their contract (never worse, limits, zero-residual fixed point, determinism): sampled on every recorded call",
        "convergence / recovery of the generating parameters to 1e-3 from <=3% perturbed starts (property of Levenberg-Marquardt)",
        "repeatability of whole fit calls; model, data and strategy unchanged",
        "hp.save / hp.load round trip of FitResult (file format is C15/C16's subject)"]
    ctx.trusted += [
        "oracle: nmpfit.mpfit and scipy.optimize.least_squares(method='lm') - contract clauses are premises of the theorems, sampled each run",
        "oracle: the forward calculation model._forward (C01-C08) - value at the recorded points from an independent call",
        "oracle: np.sqrt (only sqrt 0 = 0 is used; prior residuals are compared through their squares)",
        "oracle: np.log / normalisation constants of the priors (C14), passed as the values the implementation computed",
        "recording shims replace holopy.inference.nmpfit.nmpfit / scipyfit.least_squares / make_subset_data inside the check process only"]
    ctx.trusted.append("source translator harness/lib/pysrc.py (python floats read as reals; lnprob values opaque reals) for the source tie")
    ctx.clauses_proved.append(
        "source tie: the prior z-score LeastSquaresScipyStrategy appends (sqrt(2 * -(lnprior - lnprior(guess)))), the per-parameter prior "
        "residual of NmpfitStrategy (sqrt(lnprior_i(guess) - lnprior_i)) and the error scaling noise * unit_errors, translated from the "
        "current source text on every run, are the model's zscore / prior_res1 / scipy_intervals; they vanish at the guess and their "
        "squares are 2 (g - l) and g - l [scipy_zscore_src_is_model, nmp_prior_res_src_is_model, scipy_errors_src_is_model, "
        "src_prior_terms_vanish_at_guess, src_prior_terms_square]")
    guarded(ctx, "prove", ctx.prove)
    guarded(ctx, "source-tie", stage_srctie, ctx)
    boot.boot()
    tmpdir = os.path.join(RUN_ROOT, "C13files")
    os.makedirs(tmpdir, exist_ok=True)
    rec = Rec()
    undo = install_shims(rec)
    exprs, metas = [], []
    try:
        guarded(ctx, "cases", stage_cases, ctx, rec, exprs, metas, tmpdir)
        guarded(ctx, "bounds", stage_bounds, ctx, rec, exprs, metas)
        guarded(ctx, "on-bound", stage_on_bound, ctx, rec, exprs, metas)
        guarded(ctx, "reuse", stage_reuse, ctx, rec, exprs, metas)
    finally:
        undo()
    guarded(ctx, "coq", evaluate, ctx, exprs, metas)


def evaluate(ctx, exprs, metas):
    mism, errors, nfiles = run_mismatch_cases("C13", REQ, exprs, chunk=12, defs=DEFS)
    ctx.corr_cases += len(exprs)
    for m in metas:
        ctx.count("corr:" + m["what"])
    for e in errors:
        ctx.violation("corr-eval-error", "model evaluation failed: " + e[:300], dict(kind="coq-error", log=e), nofail=True)
    for i in mism:
        m = metas[i]
        if m["what"] == "residual" and m.get("strategy") == "scipy" and m.get("n_residuals") == m.get("n_pixels"):
            key = "prior:scipy:corr-residual"
            what = ("the residual vector LeastSquaresScipyStrategy hands to least_squares has no prior z-score entry "
                    "(%d entries for %d pixels): np.append's result is discarded" % (m["n_residuals"], m["n_pixels"]))
        else:
            key = "corr:%s:%s" % (m["what"], m.get("strategy", "nmpfit"))
            what = "model and implementation disagree on %s (%s strategy)" % (m["what"], m.get("strategy", "nmpfit"))
        ctx.disagree(key, what, dict(kind="corr", **m))


def replay(ctx, data):
    """stored cases carry the generated problem; re-running the check with the recorded seed
    regenerates exactly the same stream"""
    print("replay: re-running the C13 check with the recorded seed/tier (key %s)" % data.get("key"))
    ctx.seed = data.get("seed", ctx.seed)
    ctx.tier = data.get("tier", ctx.tier)
    run(ctx)

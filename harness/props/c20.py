"""C20 - containment, layers, CSG, overlaps: proof obligations + exact correspondence on
dyadic data + direct exploration of the property on the implementation."""
import math
import warnings
from fractions import Fraction

from harness.lib import boot
from harness.lib.coqrun import qlit, zlit, blit, listlit, run_mismatch_cases
from harness.lib.ctx import guarded

REQ = "From HV Require Import Common.Generic Common.Cmp C20.Model.\nOpen Scope Q_scope.\n"


def dy(rng, lo, hi, bits=6):
    """random dyadic with `bits` fractional bits in [lo, hi]"""
    s = 1 << bits
    return rng.randint(int(lo * s), int(hi * s)) / s


def vlit(v):
    return "(%s, %s, %s)" % tuple(qlit(x) for x in v)


# --- shape descriptions (python tuples) --------------------------------------
# ("sph", center, [radii]) | ("ell", center, (r1,r2,r3)) | ("union"|"diff"|"inter", a, b)

def gen_prim(rng, allow_layers=True):
    c = [dy(rng, -4, 4) for _ in range(3)]
    if rng.random() < 0.6:
        nl = rng.choice([1, 1, 2, 3, 4]) if allow_layers else 1
        rs = sorted(dy(rng, 0.25, 4) for _ in range(nl))
        if allow_layers and rng.random() < 0.3:
            # LayeredSphere: described by layer thicknesses (1-4 layers), radii = running sums
            return ("lsph", c, [dy(rng, 0.125, 1.5) for _ in range(rng.choice([1, 2, 3, 4]))])
        if nl > 1 and rng.random() < 0.25:
            rng.shuffle(rs)  # non-monotone radii: the "first indicator wins" rule matters
        return ("sph", c, rs)
    # semi-axes: powers of two times small odd numbers keep p/r exact when p = c + r*u
    r = [rng.choice([0.5, 1, 2, 4, 0.75, 1.5, 3, 1.25, 2.5]) for _ in range(3)]
    return ("ell", c, r)


def scale_shape(s, f):
    """every length of a shape description multiplied by f (a power of two: exact)"""
    if s[0] in ("sph", "lsph", "ell"):
        return (s[0], [v * f for v in s[1]], [v * f for v in s[2]])
    return (s[0], scale_shape(s[1], f), scale_shape(s[2], f))


UNITS = [1.0, 1.0, 2.0 ** -20, 2.0 ** -30, 2.0 ** 10]     # microns, ~metres, ~millimetres..., exact powers of two


def gen_shape(rng, depth):
    if depth == 0 or rng.random() < 0.3:
        return gen_prim(rng, allow_layers=False)
    op = rng.choice(["union", "diff", "inter"])
    a = gen_shape(rng, depth - 1)
    b = gen_shape(rng, depth - 1)
    return (op, a, b)


def cums(ts):
    out, acc = [], 0.0
    for t in ts:
        acc += t
        out.append(acc)
    return out


def shape_lit(s):
    if s[0] == "lsph":
        return "(Sph %s (layered_radii QO %s))" % (vlit(s[1]), listlit([qlit(t) for t in s[2]]))
    if s[0] == "sph":
        return "(Sph %s %s)" % (vlit(s[1]), listlit([qlit(r) for r in s[2]]))
    if s[0] == "ell":
        return "(Ell %s %s)" % (vlit(s[1]), vlit(s[2]))
    ctor = {"union": "Union", "diff": "Diff", "inter": "Inter"}[s[0]]
    return "(%s %s %s)" % (ctor, shape_lit(s[1]), shape_lit(s[2]))


CENTER_FORM = ["tuple"]      # how build() hands over centres: tuple / list / float ndarray (set per case by the stages)


def _c(c):
    import numpy as np
    f = CENTER_FORM[0]
    return tuple(c) if f == "tuple" else list(c) if f == "list" else np.array(c, dtype=float)


def build(s, n=1.5):
    from holopy.scattering import Sphere, Ellipsoid
    from holopy.scattering.scatterer.csg import Union, Difference, Intersection
    from holopy.scattering import LayeredSphere
    if s[0] == "lsph":
        return LayeredSphere(n=[n + 0.125 * i for i in range(len(s[2]))], t=list(s[2]), center=_c(s[1]))
    if s[0] == "sph":
        rs = s[2]
        if len(rs) == 1:
            return Sphere(n=n, r=rs[0], center=_c(s[1]))
        return Sphere(n=[n + 0.125 * i for i in range(len(rs))], r=list(rs), center=_c(s[1]))
    if s[0] == "ell":
        return Ellipsoid(n=n, r=tuple(s[2]), center=_c(s[1]))
    cls = {"union": Union, "diff": Difference, "inter": Intersection}[s[0]]
    return cls(build(s[1], n), build(s[2], n))


def prims(s):
    if s[0] == "lsph":
        return [("sph", s[1], cums(s[2]))]
    if s[0] in ("sph", "ell"):
        return [s]
    return prims(s[1]) + prims(s[2])


def query_points(rng, s, k):
    """random cloud around the primitives + points on / just inside / just outside surfaces"""
    pts = []
    ps = prims(s)
    eps = 2.0 ** -20
    for _ in range(k):
        p = rng.choice(ps)
        c = p[1]
        mode = rng.random()
        if mode < 0.45:
            pts.append([c[i] + dy(rng, -5, 5) for i in range(3)])
        elif p[0] == "sph":
            r = rng.choice(p[2])
            # exact Pythagorean directions: (3,4,0)/5, (1,2,2)/3, (2,3,6)/7, axes
            d, nrm = rng.choice([((3, 4, 0), 5), ((1, 2, 2), 3), ((2, 3, 6), 7), ((1, 0, 0), 1),
                                 ((0, 0, 1), 1), ((4, 0, 3), 5), ((2, 6, 3), 7)])
            sg = [rng.choice([-1, 1]) for _ in range(3)]
            scale = rng.choice([1.0, 1.0 - eps, 1.0 + eps])
            # r chosen by the generator is a multiple of 1/64; make r/nrm exact by using r*nrm
            # as the actual distance is not possible, so instead pick the point for radius r only
            # when r/nrm is dyadic; otherwise fall back to axis direction
            if (Fraction(r) / nrm).denominator & ((Fraction(r) / nrm).denominator - 1):
                d, nrm = (0, 1, 0), 1
            u = r / nrm * scale
            pts.append([c[i] + sg[i] * d[i] * u for i in range(3)])
        else:
            r = p[2]
            d, nrm = rng.choice([((3, 4, 0), 5), ((0, 3, 4), 5), ((1, 0, 0), 1), ((0, 0, 1), 1),
                                 ((0, 1, 0), 1)])
            # u = d/nrm is not dyadic for nrm=5: use scaled dyadic u inside/outside instead
            if nrm == 1:
                scale = rng.choice([1.0, 1.0 - eps, 1.0 + eps])
                u = [d[i] * scale for i in range(3)]
            else:
                u = [dy(rng, -1.25, 1.25, 4) for _ in range(3)]
            pts.append([c[i] + r[i] * u[i] for i in range(3)])
    return pts


def exact_ok(vals, maxbits=40):
    """all values are dyadic rationals representable with few bits (so that the sums of squares
    the implementation forms are exact or monotone-safe)"""
    for v in vals:
        fr = Fraction(v)
        if fr.denominator.bit_length() > maxbits:
            return False
    return True


# --- stages ------------------------------------------------------------------

def stage_containment(ctx):
    import numpy as np
    rng = ctx.subrng("contain")
    ncases = ctx.n(250, 4000)
    exprs, metas = [], []
    for k in range(ncases):
        depth = rng.choice([0, 0, 1, 1, 1])
        # the implementation supports one CSG level over single-domain primitives
        s = gen_prim(rng) if depth == 0 else (rng.choice(["union", "diff", "inter"]),
                                              gen_prim(rng, False), gen_prim(rng, False))
        pts = query_points(rng, s, rng.choice([4, 8, 12]))
        t = [dy(rng, -3, 3) for _ in range(3)]
        while len(set(t)) < 3:
            t = [dy(rng, -3, 3) for _ in range(3)]
        unit = rng.choice(UNITS)                 # the same geometry expressed in another length unit
        if unit != 1.0:
            s = scale_shape(s, unit)
            pts = [[v * unit for v in p_] for p_ in pts]
            t = [v * unit for v in t]
        ctx.count("unit:2^%d" % round(math.log2(unit)))
        CENTER_FORM[0] = rng.choice(["tuple", "tuple", "list", "ndarray", "ndarray"])
        try:
            obj = build(s)
        except TypeError as e:
            ctx.explored += 1
            ctx.violation("csg:ctor:%s" % type(e).__name__,
                          "constructing a %s of (%s, %s) raises %s: %s" % (s[0], s[1][0], s[2][0], type(e).__name__, e),
                          dict(kind="csg-ctor", shape=s, error=str(e)))
            continue
        P = np.array(pts)
        dom = [int(x) for x in np.asarray(obj.in_domain(P)).astype(int)]
        cont = [bool(x) for x in obj.contains(P)]
        b = obj.bounds
        form = rng.choice(["list", "array", "three-scalars", "tuple"])
        if form == "three-scalars":
            tr = obj.translated(t[0], t[1], t[2])
        elif form == "array":
            tr = obj.translated(np.array(t))
        elif form == "tuple":
            tr = obj.translated(tuple(t))
        else:
            tr = obj.translated(list(t))
        ctx.count("translated-form:" + form)
        cont_t = [bool(x) for x in tr.contains(P + np.array(t))]
        # a translated copy translated again, then the ORIGINAL and the first copy looked at once more: translated() returns a
        # new scatterer and leaves the one it was called on where it was (whatever container holds the centre)
        t2 = [(dy(rng, -2, 2) or 0.5) * unit for _ in range(3)]
        tr2 = tr.translated(np.array(t2)) if k % 2 else tr.translated(*t2)
        ctx.explored += 1
        ctx.count("center-form:" + CENTER_FORM[0])
        cont_again = [bool(x) for x in obj.contains(P)]
        cont_t_again = [bool(x) for x in tr.contains(P + np.array(t))]
        cont_t2 = [bool(x) for x in tr2.contains(P + np.array(t) + np.array(t2))]
        if cont_again != cont or cont_t_again != cont_t or [list(map(float, pr)) for pr in obj.bounds] != [list(map(float, pr)) for pr in b]:
            ctx.violation("translate:moves-original", "translated() moved the scatterer it was called on (containment / bounds of the "
                          "original or of the first copy changed after a later translation)",
                          dict(kind="translate-purity", shape=s, t=t, t2=t2, form=form, center_form=CENTER_FORM[0]))
        elif cont_t2 != cont:
            ctx.violation("translate:chain", "translated(t).translated(t2).contains(p+t+t2) != contains(p)",
                          dict(kind="translate-purity", shape=s, t=t, t2=t2, form=form, center_form=CENTER_FORM[0]))
        # the bounding box moves with the scatterer (its box was asked for BEFORE the translation, above)
        tb = tr.bounds
        ctx.explored += 1
        want_tb = [[float(pr[0]) + t[i], float(pr[1]) + t[i]] for i, pr in enumerate(b)]
        got_tb = [[float(pr[0]), float(pr[1])] for pr in tb]
        if got_tb != want_tb:
            ctx.violation("translate:bounds:%s" % ("csg" if s[0] not in ("sph", "lsph", "ell") else "prim"),
                          "bounds of translated(t) are not the bounds shifted by t (bounds of the original were evaluated first)",
                          dict(kind="translate-bounds", shape=s, t=t, form=form, bounds=[list(map(float, pr)) for pr in b],
                               translated_bounds=got_tb, expected=want_tb))
        kind = "sph" if s[0] == "lsph" else s[0]
        ctx.count("class:" + type(obj).__name__)
        ctx.count("shape:" + kind)
        ctx.count("points", len(pts))
        ctx.count("inside", sum(cont))
        if any(cont) and not all(cont):
            ctx.nontriv(("contain", k))
        # the implementation's CSG in_domain is boolean; model Z domain -> compare as >0 for CSG
        plist = listlit([vlit(p) for p in pts])
        sl = shape_lit(s)
        if kind in ("sph", "ell"):
            e_dom = "zlist_eqb (map (domain QO %s) %s) %s" % (sl, plist, listlit([zlit(d) for d in dom]))
        else:
            e_dom = "blist_eqb (map (contains QO %s) %s) %s" % (sl, plist, listlit([blit(d > 0) for d in dom]))
        e_cont = "blist_eqb (map (contains QO %s) %s) %s" % (sl, plist, listlit([blit(x) for x in cont]))
        blit_ = "((%s, %s), (%s, %s), (%s, %s))" % tuple(qlit(float(x)) for pr in b for x in pr)
        e_bounds = ("(let '((x0,x1),(y0,y1),(z0,z1)) := bounds QO %s in let '((a0,a1),(b0,b1),(c0,c1)) := %s in "
                    "qlist_eqb [x0;x1;y0;y1;z0;z1] [a0;a1;b0;b1;c0;c1])" % (sl, blit_))
        tp = listlit([vlit([p[i] + t[i] for i in range(3)]) for p in pts])
        e_tr = "blist_eqb (map (contains QO (translate QO %s %s)) %s) %s" % (
            sl, vlit(t), tp, listlit([blit(x) for x in cont_t]))
        e_inbox = "forallb (fun p => implb (contains QO %s p) (in_box QO (bounds QO %s) p)) %s" % (sl, sl, plist)
        for tag, e in (("in_domain", e_dom), ("contains", e_cont), ("bounds", e_bounds),
                       ("translated", e_tr), ("inbox", e_inbox)):
            exprs.append(e)
            metas.append(dict(case=k, what=tag, shape=s, points=pts, t=t, translated_form=form, impl=dict(
                dom=dom, contains=cont, bounds=[list(map(float, pr)) for pr in b], contains_translated=cont_t)))
        # direct property predicate on the implementation (independent of the model):
        # translating translates the region
        ctx.explored += 1
        if cont_t != cont:
            bad = [i for i in range(len(pts)) if cont_t[i] != cont[i]]
            ctx.violation("translate:%s" % ("csg" if kind not in ("sph", "ell") else kind),
                          "translated(t).contains(p+t) != contains(p) for %s" % kind,
                          dict(kind="translate", shape=s, t=t, form=form, point=pts[bad[0]],
                               before=cont[bad[0]], after=cont_t[bad[0]]))
        if k < 3:
            ctx.sample(dict(shape=s, points=pts[:3], in_domain=dom[:3], bounds=[list(map(float, pr)) for pr in b]))
    mism, errors, nfiles = run_mismatch_cases("C20", REQ, exprs)
    ctx.corr_cases += len(exprs)
    for e in errors:
        ctx.violation("corr-eval-error", "model evaluation failed: " + e[:300], dict(kind="coq-error", log=e), nofail=True)
    for i in mism:
        m = metas[i]
        kindkey = {"sph": "sph", "lsph": "sph", "ell": "ell"}.get(m["shape"][0], "csg")
        ctx.disagree("corr:%s:%s" % (m["what"], kindkey),
                     "model and implementation disagree on %s of a %s" % (m["what"], kindkey),
                     dict(kind="corr-containment", **m))


def stage_index_at(ctx):
    import numpy as np
    from holopy.scattering import Sphere
    rng = ctx.subrng("index")
    exprs, metas = [], []
    for k in range(ctx.n(60, 600)):
        nl = rng.choice([1, 2, 3, 4])
        rs = sorted(dy(rng, 0.25, 4) for _ in range(nl))
        ns = [dy(rng, 1, 3) for _ in range(nl)]
        c = [dy(rng, -2, 2) for _ in range(3)]
        bg = dy(rng, 0, 2)
        s = ("sph", c, rs)
        pts = query_points(rng, s, 8)
        obj = Sphere(n=ns if nl > 1 else ns[0], r=rs if nl > 1 else rs[0], center=tuple(c))
        idx = [float(x) for x in obj.index_at(np.array(pts), background=bg)]
        if len(set(idx)) > 1:
            ctx.nontriv(("index", k))
        e = "qlist_eqb (map (fun p => index_at %s %s (domain QO %s p)) %s) %s" % (
            listlit([qlit(n) for n in ns]), qlit(bg), shape_lit(s), listlit([vlit(p) for p in pts]),
            listlit([qlit(x) for x in idx]))
        exprs.append(e)
        metas.append(dict(case=k, what="index_at", radii=rs, ns=ns, center=c, background=bg, points=pts, impl=idx))
        ctx.count("layers:%d" % nl)
    mism, errors, _ = run_mismatch_cases("C20i", REQ, exprs)
    ctx.corr_cases += len(exprs)
    for e in errors:
        ctx.violation("corr-eval-error", "model evaluation failed: " + e[:300], dict(kind="coq-error", log=e), nofail=True)
    for i in mism:
        ctx.disagree("corr:index_at", "model and implementation disagree on index_at of a layered sphere",
                     dict(kind="corr-index", **metas[i]))


PYTH = [((3, 4, 0), 5), ((1, 2, 2), 3), ((2, 3, 6), 7), ((4, 4, 7), 9), ((1, 4, 8), 9), ((6, 0, 8), 10)]


def gen_cluster(rng):
    """list of (centre, radius); mixes random, exactly-touching, overlapping and nested spheres"""
    n = rng.choice([1, 2, 2, 3, 4, 5, 6, 8])
    ms = []
    for i in range(n):
        if ms and rng.random() < 0.6:
            c0, r0 = rng.choice(ms)
            d, nrm = rng.choice(PYTH)
            sg = [rng.choice([-1, 1]) for _ in range(3)]
            s = rng.choice([0.25, 0.5, 1.0])
            dist = nrm * s
            c = [c0[j] + sg[j] * d[j] * s for j in range(3)]
            mode = rng.random()
            if mode < 0.4:
                r = dist - r0          # exactly touching (not an overlap: strict <)
            elif mode < 0.6:
                r = dist - r0 + 2.0 ** -rng.choice([10, 20, 30, 40])  # slight overlap, down to a few ulps (exact in doubles)
            elif mode < 0.8:
                r = dist - r0 - 2.0 ** -rng.choice([10, 20, 30, 40])  # slight gap
            else:
                r = dy(rng, 0.25, 2)
            if r <= 0:
                r = dy(rng, 0.25, 1)
            ms.append((c, r))
        else:
            ms.append(([dy(rng, -6, 6, 3) for _ in range(3)], dy(rng, 0.25, 2.5, 3)))
    return ms


def stage_overlaps(ctx):
    import numpy as np
    from holopy.scattering import Sphere, Spheres
    from holopy.scattering.scatterer.spherecluster import OverlapWarning
    from holopy.core.math import cartesian_distance
    rng = ctx.subrng("overlap")
    exprs, metas = [], []
    for k in range(ctx.n(200, 3000)):
        ms = gen_cluster(rng)
        unit = rng.choice(UNITS)
        ms = [([v * unit for v in c], r * unit) for c, r in ms]
        ctx.count("unit:2^%d" % round(math.log2(unit)))
        warn = rng.random() < 0.7
        layered = rng.random() < 0.2
        objs = []
        for c, r in ms:
            if layered:
                objs.append(Sphere(n=[1.5, 1.4], r=[r / 2, r], center=tuple(c)))
            else:
                objs.append(Sphere(n=1.5, r=r, center=tuple(c)))
        with warnings.catch_warnings(record=True) as w:
            warnings.simplefilter("always")
            sp = Spheres(objs, warn=warn)
            warned = any(issubclass(x.category, OverlapWarning) for x in w)
        ov = [(int(a), int(b)) for a, b in sp.overlaps]
        lo = float(sp.largest_overlap())
        dists = [float(cartesian_distance(ms[i][0], ms[j][0])) for i in range(len(ms)) for j in range(i + 1, len(ms))]
        # oracle sanity: d*d close to exact d2 (hypothesis of the sqrt lemma, sampled)
        for (i, j), d in zip([(i, j) for i in range(len(ms)) for j in range(i + 1, len(ms))], dists):
            d2 = sum((Fraction(ms[i][0][q]) - Fraction(ms[j][0][q])) ** 2 for q in range(3))
            if abs(Fraction(d) ** 2 - d2) > Fraction(1, 10 ** 12) * max(1, d2):
                ctx.violation("oracle:cartesian_distance", "cartesian_distance is not sqrt of the squared distance",
                              dict(kind="oracle", a=ms[i][0], b=ms[j][0], d=d))
        ml = listlit(["(%s, %s)" % (vlit(c), qlit(r)) for c, r in ms])
        e_ov = "zpairs_eqb (overlaps_sq QO %s) %s" % (ml, listlit(["(%s, %s)" % (zlit(a), zlit(b)) for a, b in ov]))
        e_lo = "qclose (1 # 1000000000000) (largest_overlap_vals QO %s %s) %s" % (
            listlit([qlit(r) for _, r in ms]), listlit([qlit(d) for d in dists]), qlit(lo))
        e_w = "Bool.eqb (warns QO %s %s) %s" % (ml, blit(warn), blit(warned))
        for tag, e in (("overlaps", e_ov), ("largest_overlap", e_lo), ("warning", e_w)):
            exprs.append(e)
            metas.append(dict(case=k, what=tag, members=ms, warn=warn, layered=layered,
                              impl=dict(overlaps=ov, largest_overlap=lo, warned=warned)))
        ctx.count("cluster:%d" % len(ms))
        ctx.count("overlap_pairs", len(ov))
        if ov:
            ctx.nontriv(("ov", k))
        if k < 2:
            ctx.sample(dict(members=ms, overlaps=ov, largest_overlap=lo, warned=warned))
        # direct predicate (independent of model): exact rational oracle
        exact = []
        for i in range(len(ms)):
            for j in range(i + 1, len(ms)):
                d2 = sum((Fraction(ms[i][0][q]) - Fraction(ms[j][0][q])) ** 2 for q in range(3))
                if d2 < (Fraction(ms[i][1]) + Fraction(ms[j][1])) ** 2:
                    exact.append((i, j))
        ctx.explored += 1
        if exact != ov:
            ctx.violation("overlaps:pairs", "reported overlapping pairs differ from the analytic pairs",
                          dict(kind="overlaps", members=ms, reported=ov, analytic=exact))
    mism, errors, _ = run_mismatch_cases("C20o", REQ, exprs)
    ctx.corr_cases += len(exprs)
    for e in errors:
        ctx.violation("corr-eval-error", "model evaluation failed: " + e[:300], dict(kind="coq-error", log=e), nofail=True)
    for i in mism:
        ctx.disagree("corr:%s" % metas[i]["what"], "model and implementation disagree on Spheres.%s" % metas[i]["what"],
                     dict(kind="corr-overlaps", **metas[i]))


def stage_ctor(ctx):
    """constructor decisions (exact): negative radius, centre arity, non-sphere member"""
    from holopy.scattering import Sphere, Spheres, Ellipsoid
    from holopy.scattering.errors import InvalidScatterer
    rng = ctx.subrng("ctor")
    exprs, metas = [], []
    for k in range(ctx.n(80, 800)):
        nl = rng.choice([1, 2, 3])
        rs = [dy(rng, -1, 3, 3) for _ in range(nl)]
        clen = rng.choice([None, 3, 3, 3, 2, 4, 1])
        center = None if clen is None else tuple(dy(rng, -2, 2) for _ in range(clen))
        try:
            Sphere(n=1.5 if nl == 1 else [1.5] * nl, r=rs[0] if nl == 1 else rs, center=center)
            got = "Accept"
        except InvalidScatterer:
            got = "RejectInvalid"
        e = "match sphere_ctor QO %s %s, %s with Accept, Accept => true | RejectInvalid, RejectInvalid => true | _, _ => false end" % (
            listlit([qlit(r) for r in rs]), "None" if clen is None else "(Some %s)" % zlit(clen), got)
        exprs.append(e)
        metas.append(dict(what="sphere_ctor", radii=rs, center=center, impl=got))
        ctx.count("ctor:" + got)
        ctx.nontriv(("ctor", got, clen is None, any(r < 0 for r in rs)))
    for k in range(ctx.n(30, 200)):
        flags = [rng.random() < 0.8 for _ in range(rng.choice([1, 2, 3, 4]))]
        members = [Sphere(n=1.5, r=0.5, center=(3 * i, 0, 0)) if f else
                   Ellipsoid(n=1.5, r=(0.5, 0.5, 0.5), center=(3 * i, 0, 0)) for i, f in enumerate(flags)]
        try:
            Spheres(members)
            got = "Accept"
        except InvalidScatterer:
            got = "RejectInvalid"
        e = "match spheres_ctor %s, %s with Accept, Accept => true | RejectInvalid, RejectInvalid => true | _, _ => false end" % (
            listlit([blit(f) for f in flags]), got)
        exprs.append(e)
        metas.append(dict(what="spheres_ctor", member_is_sphere=flags, impl=got))
    mism, errors, _ = run_mismatch_cases("C20c", REQ, exprs)
    ctx.corr_cases += len(exprs)
    for e in errors:
        ctx.violation("corr-eval-error", "model evaluation failed: " + e[:300], dict(kind="coq-error", log=e), nofail=True)
    for i in mism:
        ctx.disagree("corr:%s" % metas[i]["what"], "constructor decision differs from the model: %s" % metas[i]["what"],
                     dict(kind="corr-ctor", **metas[i]))


def stage_voxel(ctx):
    """exploration only (a limit statement): voxel volumes approach the analytic volume"""
    import numpy as np
    from holopy.scattering import Sphere, Ellipsoid
    rng = ctx.subrng("voxel")
    for k in range(ctx.n(4, 30)):
        if rng.random() < 0.5:
            r = dy(rng, 0.5, 1.5, 3)
            obj = Sphere(n=1.5, r=r, center=(dy(rng, -1, 1), dy(rng, -1, 1), dy(rng, -1, 1)))
            vol = 4 / 3 * math.pi * r ** 3
        else:
            r = (dy(rng, 0.5, 1.5, 3), dy(rng, 0.5, 1.5, 3), dy(rng, 0.5, 1.5, 3))
            obj = Ellipsoid(n=1.5, r=r, center=(0.0, 0.25, -0.5))
            vol = 4 / 3 * math.pi * r[0] * r[1] * r[2]
        errs = []
        for sp in (0.1, 0.05):
            dom = obj.voxelate_domains(sp)
            errs.append(abs(float((dom > 0).sum()) * sp ** 3 - vol) / vol)
        ctx.explored += 1
        ctx.count("voxel")
        if errs[-1] > 0.03:
            ctx.violation("voxel:volume", "voxel volume does not approach the analytic volume",
                          dict(kind="voxel", r=r, errs=errs))


SCAT_DIR = "holopy/scattering/scatterer/"
_OVL = {"cartesian_distance(s1.center, s2.center)": "dist", "np.max(s1.r)": "r1", "np.max(s2.r)": "r2"}


def _src_items():
    from harness.lib import pysrc
    items = [dict(file=SCAT_DIR + "sphere.py", qualname="Sphere.indicators (lambda)", name="sphere_ind_src",
                  fn=lambda repo: pysrc.translate_lambda_list(repo, SCAT_DIR + "sphere.py", "Sphere.indicators", "sphere_ind_src",
                                                              "funcs", "rs", "points"))]
    for cls in ("Union", "Difference", "Intersection"):
        items.append(dict(file=SCAT_DIR + "csg.py", qualname=cls + ".in_domain", name=cls.lower() + "_src",
                          fn=lambda repo, cls=cls: pysrc.translate(
                              repo, SCAT_DIR + "csg.py", cls + ".in_domain", cls.lower() + "_src", [("points", "obj")], "bool",
                              opaque_bools={"self.s1.in_domain(points)": "in1", "self.s2.in_domain(points)": "in2"})))
    items.append(dict(file=SCAT_DIR + "spherecluster.py", qualname="Spheres.overlaps (criterion)", name="overlap_test_src",
                      fn=lambda repo: pysrc.translate_if_test(repo, SCAT_DIR + "spherecluster.py", "Spheres.overlaps",
                                                              "overlap_test_src", _OVL)))
    items.append(dict(file=SCAT_DIR + "spherecluster.py", qualname="Spheres.largest_overlap (candidate)", name="overlap_amount_src",
                      fn=lambda repo: pysrc.translate_call_arg(repo, SCAT_DIR + "spherecluster.py", "Spheres.largest_overlap",
                                                               "overlap_amount_src", "max", 1, _OVL)))
    return items


def stage_srctie(ctx):
    from harness.lib import srctie
    ok = srctie.run(ctx, "C20", "From Coq Require Import Lia Psatz.\nFrom HV Require Import C20.Model C20.Lemmas C20.Props.\n",
                    _src_items())
    ctx.count("srctie:%s" % ("ok" if ok else "broken"))


def run(ctx):
    ctx.rule = ("shapes (spheres with 1-4 layers incl. non-monotone radii, ellipsoids, CSG trees depth<=2) x query "
                "points (cloud + exactly on / 2^-20 inside / outside surfaces, Pythagorean directions); clusters of "
                "1-8 spheres incl. exactly touching / nested; non-trivial = case with both inside and outside points, "
                "cluster with at least one overlap, distinct constructor verdict classes")
    ctx.clauses_proved = ["in_domain loop = first indicator wins", "sphere/layer/ellipsoid/CSG containment iff analytic inequality",
                          "translation translates containment (all CSG trees)", "bounds contain interior",
                          "overlaps sound+complete; sqrt form = squared form", "largest_overlap = clamped max",
                          "warning iff overlap and enabled", "constructor rejections", "Q instance = R instance"]
    ctx.clauses_explored = ["voxelisation converges to the analytic volume (limit statement; sampled at two spacings)"]
    ctx.trusted.append("oracle: numpy sqrt inside cartesian_distance (hypothesis d*d = d2 sampled each run)")
    ctx.clauses_proved.append(
        "source tie: the indicator lambda of Sphere.indicators, Union / Difference / Intersection.in_domain, the overlap "
        "criterion of Spheres.overlaps and the candidate value of Spheres.largest_overlap, translated from the current source "
        "text on every run, are proved to be the expressions the model is built from; containment iff distance < radius, "
        "criterion iff d < r1 + r2 and amount > 0 iff criterion restated for the translated source")
    ctx.trusted.append("translator harness/lib/pysrc.py (lambda bodies, the single if-test of overlaps, the max() candidate of "
                       "largest_overlap; (points**2).sum(-1) read as the squared norm of the generic point; cartesian_distance, "
                       "np.max(s.r), sN.in_domain(points) opaque)")
    guarded(ctx, "prove", ctx.prove)
    guarded(ctx, "source-tie", stage_srctie, ctx)
    boot.boot()
    guarded(ctx, "containment", stage_containment, ctx)
    guarded(ctx, "index_at", stage_index_at, ctx)
    guarded(ctx, "overlaps", stage_overlaps, ctx)
    guarded(ctx, "ctor", stage_ctor, ctx)
    guarded(ctx, "voxel", stage_voxel, ctx)


def replay(ctx, data):
    """re-run the stored failing case on the current tree"""
    import numpy as np
    boot.boot()
    d = data["data"]
    kind = d.get("kind")
    if kind == "tie":
        ctx.prove()
        stage_srctie(ctx)
        return
    if kind == "translate":
        s = _tuplify(d["shape"])
        obj = build(s)
        p = np.array([d["point"]])
        t = np.array(d["t"])
        a = bool(obj.contains(p)[0])
        b = bool((obj.translated(*[float(x) for x in t]) if d.get("form") == "three-scalars" else obj.translated(list(t))).contains(p + t)[0])
        ctx.explored += 1
        print("replay: contains(p)=%s translated(t).contains(p+t)=%s" % (a, b))
        if a != b:
            ctx.violation(data["key"], data["what"], d)
    else:
        print("replay: re-running the whole check with the recorded seed")
        ctx.seed = data.get("seed", ctx.seed)
        run(ctx)


def _tuplify(s):
    if s[0] in ("sph", "ell", "lsph"):
        return (s[0], s[1], s[2])
    return (s[0], _tuplify(s[1]), _tuplify(s[2]))

"""C05 - shift / rotation about the optical axis / mirror covariance of fields and holograms.

proof obligations (coq/C05/Props.v)
+ correspondence: the Q instance of the Gallina model, fed with the implementation's own leaf values
  (S1..S4 from calc_scat_matrix, cos/sin/sqrt/atan2/exp from numpy, the radial amplitude from
  mieangfuncs.radial_field_mie; for MieLens the pupil integrals I0, I2 *identified* from two x-polarised
  evaluations of the public API), predicts calc_field point by point (1e-9 relative);
  Lens: the pupil sum of a small quadrature; Spheres.center vs the model centroid
+ direct exploration of the property itself on the implementation: every theory x shift / rotation / mirror.
"""
import math
import os
import pickle
import warnings

from harness.lib import boot
from harness.lib.coqrun import qlit, listlit, run_mismatch_cases
from harness.lib.ctx import guarded

REQ = "From HV Require Import Common.Generic Common.Cmp C01.Model C05.Model.\nOpen Scope Q_scope.\n"
TWO_PI = 2 * math.pi

# relative tolerances (relative to the largest field / hologram value of the compared set), set from the level measured
# on the unchanged tree (3 seeds x 2140 thorough cases; worst seen in brackets):
#   near-field Mie, layered, superposition [1.1e-12: phases exp(i kr), kr up to ~250]            -> 1e-8
#   far-field Mie, MieLens, AberratedMieLens [6e-14], Lens 60x60 below aliasing [1.4e-14]         -> 1e-9 / 1e-8
#   Lens on exact grid symmetries [2.5e-14]                                                       -> 1e-9
#   Multisphere [2.5e-5, rare; iterative SCSMFO solve with eps=1e-6, qeps1=1e-5: a mirrored / rotated cluster is a
#     different linear system stopped at a different residual; C09 measures 8e-4 between permutations]   -> 5e-4
#   T-matrix [1.3e-6: ampld nudges every angle by EPS=1e-7 towards pi/2 resp. pi, deterministically]   -> 5e-5
# a sign / index / argument mutation changes results by >= 1e-2.
TOL = {"mie": 1e-8, "mie_far": 1e-9, "mie_rad": 1e-9, "layered": 1e-8, "mie_sup": 1e-8, "auto_border": 1e-8, "mielens": 1e-9,
       "amielens": 1e-9, "multi": 5e-4, "tmatrix": 5e-5, "lens": 1e-8, "lens_grid": 1e-9, "lens_uneq": 1e-8,
       # lens wrapper around non-axisymmetric scatterers, rotations by exact multiples of the azimuthal node spacing:
       # limited by the inner solver's own covariance [measured 2e-5 / 3e-7]
       "lens_multi": 2e-3, "lens_tm": 2e-4}
# Lens with quad_npts_theta != quad_npts_phi is a separate input class with its own finding key
# (Lens._calc_scattering_matrix reshapes meshgrid output with the two sizes swapped): see the final report.
UNEQ_KEY = "lens:quad_npts_unequal"
CORR_TOL = 1e-9


# ------------------------------------------------------------------------------------------------
# literals

def clit(z):
    z = complex(z)
    return "(%s, %s)" % (qlit(z.real), qlit(z.imag))


def cvlit(E):
    return "(%s, %s, %s)" % tuple(clit(e) for e in E)


def rot2(a, x, y):
    c, s = math.cos(a), math.sin(a)
    return c * x - s * y, s * x + c * y


# ------------------------------------------------------------------------------------------------
# building holopy objects from JSON-able specs

def build_theory(t):
    from holopy.scattering import Mie, Multisphere, MieLens, Tmatrix
    from holopy.scattering.theory import Lens
    from holopy.scattering.theory.mielens import AberratedMieLens
    k = t["kind"]
    if k == "auto_border":
        return "auto"          # the documented default-theory rule decides (Mie superposition beyond 30 radii)
    if k in ("mie", "mie_sup", "layered"):
        return Mie()
    if k == "mie_far":
        return Mie(False, False)
    if k == "mie_rad":
        return Mie(True, False)
    if k == "multi":
        return Multisphere()
    if k == "tmatrix":
        return Tmatrix()
    if k == "mielens":
        return MieLens(lens_angle=t["lens_angle"])
    if k == "amielens":
        return AberratedMieLens(spherical_aberration=t["aberration"], lens_angle=t["lens_angle"])
    if k in ("lens", "lens_grid", "lens_uneq"):
        return Lens(t["lens_angle"], Mie(False, False), quad_npts_theta=t["ntheta"], quad_npts_phi=t["nphi"])
    if k == "lens_multi":      # lens wrapper around a theory whose scattering matrix depends on the pupil azimuth
        return Lens(t["lens_angle"], Multisphere(), quad_npts_theta=t["ntheta"], quad_npts_phi=t["nphi"])
    if k == "lens_tm":
        return Lens(t["lens_angle"], Tmatrix(), quad_npts_theta=t["ntheta"], quad_npts_phi=t["nphi"])
    raise ValueError(k)


def build_scatterer(s):
    from holopy.scattering import Sphere, Spheres, LayeredSphere
    from holopy.scattering.scatterer import Cylinder, Spheroid
    k = s["kind"]
    n = complex(*s["n"]) if isinstance(s.get("n"), list) else s.get("n")
    if isinstance(n, complex) and n.imag == 0:
        n = n.real
    if k == "sphere":
        return Sphere(n=n, r=s["r"], center=tuple(s["center"]))
    if k == "layered":
        return LayeredSphere(n=list(s["ns"]), t=list(s["ts"]), center=tuple(s["center"]))
    if k == "spheres":
        return Spheres([Sphere(n=m["n"], r=m["r"], center=tuple(m["center"])) for m in s["members"]])
    if k == "cyl":
        return Cylinder(n=s["n"], d=s["d"], h=s["h"], center=tuple(s["center"]), rotation=tuple(s["rotation"]))
    if k == "spheroid":
        return Spheroid(n=s["n"], r=tuple(s["r"]), center=tuple(s["center"]), rotation=tuple(s["rotation"]))
    raise ValueError(k)


def build_detector(d):
    import numpy as np
    from holopy.core.metadata import detector_grid, detector_points
    if d["kind"] == "points":
        return detector_points(x=np.array(d["x"], dtype=float), y=np.array(d["y"], dtype=float),
                               z=np.full(len(d["x"]), float(d["z"])))
    return detector_grid(shape=tuple(d["shape"]), spacing=d["spacing"])


def calc(spec_theory, scat, det, optics, want_holo=True, theory=None):
    """-> (field (N,3) complex, hologram (N,) or None), in the detector's flattened order.
    [theory]: a theory OBJECT to use for every call of this case (as a user script does); None = a fresh object
    per call."""
    import numpy as np
    from holopy.scattering import calc_field, calc_holo
    kw = dict(medium_index=optics["mi"], illum_wavelen=optics["wl"], illum_polarization=tuple(optics["pol"]))
    sc = build_scatterer(scat)
    dt = build_detector(det)
    with warnings.catch_warnings():
        warnings.simplefilter("ignore")
        f = calc_field(dt, sc, theory=(theory if theory is not None else build_theory(spec_theory)), **kw)
        E = np.asarray(f.values)
        if E.shape[-1] != 3:
            E = np.moveaxis(E, list(f.dims).index("vector"), -1)
        E = E.reshape(-1, 3)
        H = None
        if want_holo:
            h = calc_holo(dt, sc, theory=(theory if theory is not None else build_theory(spec_theory)), **kw)
            H = np.asarray(h.values).reshape(-1)
    return E, H


# ------------------------------------------------------------------------------------------------
# the symmetry operations on a spec

def op_point(op, x, y):
    k = op["kind"]
    if k == "shift":
        return x + op["d"][0], y + op["d"][1]
    if k == "rot":
        return rot2(op["a"], x, y)
    if k == "mir_y":
        return x, -y
    if k == "mir_x":
        return -x, y
    raise ValueError(k)


def op_vec(op, v):
    """action on a (field or polarisation) vector: a shift does nothing"""
    if op["kind"] == "shift":
        return tuple(v)
    x, y = op_point(op, v[0], v[1])
    return (x, y) + tuple(v[2:])


def op_scatterer(op, s):
    s = dict(s)
    if s["kind"] == "spheres":
        s["members"] = [dict(m, center=list(op_point(op, m["center"][0], m["center"][1])) + [m["center"][2]])
                        for m in s["members"]]
        return s
    c = s["center"]
    s["center"] = list(op_point(op, c[0], c[1])) + [c[2]]
    if s["kind"] in ("cyl", "spheroid"):
        r = list(s["rotation"])
        # rotation = (alpha, beta, gamma) (zyz, active): gamma turns the tilted symmetry axis about lab z.
        # Only used with a = pi (T-matrix accepts polarisation (1,0) only) and the two mirrors, for which
        # the sense of gamma is immaterial: axis azimuth g -> g + pi, -g, pi - g.
        if op["kind"] == "rot":
            r[2] = (r[2] + op["a"]) % TWO_PI
        elif op["kind"] == "mir_y":
            r[2] = (-r[2]) % TWO_PI
        elif op["kind"] == "mir_x":
            r[2] = (math.pi - r[2]) % TWO_PI
        s["rotation"] = r
    return s


def op_detector(op, d):
    d = dict(d)
    assert d["kind"] == "points"
    pts = [op_point(op, x, y) for x, y in zip(d["x"], d["y"])]
    d["x"] = [p[0] for p in pts]
    d["y"] = [p[1] for p in pts]
    return d


def eval_points_case(spec):
    """one exploration case on a point detector.  Returns dict(err_field, err_holo, moved, scale)."""
    import numpy as np
    op = spec["op"]
    th = build_theory(spec["theory"]) if spec.get("reuse") else None
    E1, H1 = calc(spec["theory"], spec["scat"], spec["det"], spec["optics"], theory=th)
    pol = spec["optics"]["pol"]
    if spec["theory"]["kind"] == "tmatrix":
        # polarisation stays (1,0); T(pol) = sgn * pol for the admitted operations, the field is odd in pol
        tp = op_vec(op, tuple(pol))
        sgn = 1.0 if (abs(tp[0] - pol[0]) < 1e-9 and abs(tp[1] - pol[1]) < 1e-9) else -1.0
        assert abs(tp[0] - sgn * pol[0]) < 1e-9 and abs(tp[1] - sgn * pol[1]) < 1e-9
        pol2 = list(pol)
    else:
        sgn = 1.0
        pol2 = list(op_vec(op, tuple(pol)))
    E2, H2 = calc(spec["theory"], op_scatterer(op, spec["scat"]), op_detector(op, spec["det"]),
                  dict(spec["optics"], pol=pol2), theory=th)
    pred = np.array([op_vec(op, tuple(e)) for e in E1]) * sgn
    scale = float(np.abs(E1).max())
    ef = float(np.abs(E2 - pred).max() / scale)
    eh = float(np.abs(H2 - H1).max() / max(1.0, float(np.abs(H1).max())))
    moved = float(np.abs(E2 - E1).max() / scale)
    finite = bool(np.isfinite(E1).all() and np.isfinite(E2).all() and np.isfinite(H1).all() and np.isfinite(H2).all())
    return dict(err_field=ef, err_holo=eh, moved=moved, scale=scale, finite=finite)


def eval_grid_shift_case(spec):
    """whole-pixel shift of the scatterer on a grid detector: H2[i+m, j+n] = H1[i, j] on the overlap"""
    import numpy as np
    m, n = spec["op"]["m"], spec["op"]["n"]
    sp = spec["det"]["spacing"]
    nx, ny = spec["det"]["shape"]
    op = dict(kind="shift", d=[m * sp, n * sp])
    th = build_theory(spec["theory"]) if spec.get("reuse") else None
    E1, H1 = calc(spec["theory"], spec["scat"], spec["det"], spec["optics"], theory=th)
    E2, H2 = calc(spec["theory"], op_scatterer(op, spec["scat"]), spec["det"], spec["optics"], theory=th)
    E1 = E1.reshape(nx, ny, 3)
    E2 = E2.reshape(nx, ny, 3)
    H1 = H1.reshape(nx, ny)
    H2 = H2.reshape(nx, ny)
    sl1 = (slice(max(0, -m), nx - max(0, m)), slice(max(0, -n), ny - max(0, n)))
    sl2 = (slice(max(0, m), nx - max(0, -m)), slice(max(0, n), ny - max(0, -n)))
    scale = float(np.abs(E1).max())
    ef = float(np.abs(E2[sl2] - E1[sl1]).max() / scale)
    eh = float(np.abs(H2[sl2] - H1[sl1]).max() / max(1.0, float(np.abs(H1).max())))
    moved = float(np.abs(E2 - E1).max() / scale)
    finite = bool(np.isfinite(E1).all() and np.isfinite(E2).all())
    return dict(err_field=ef, err_holo=eh, moved=moved, scale=scale, finite=finite, overlap=int(H1[sl1].size))


def eval_grid_sym_case(spec):
    """sphere on the centre pixel of an odd grid, polarisation along x or y: the hologram is even in both axes,
    the field components have the parity proved in mie_mirror_sphere_axes"""
    import numpy as np
    nx, ny = spec["det"]["shape"]
    E, H = calc(spec["theory"], spec["scat"], spec["det"], spec["optics"])
    H = H.reshape(nx, ny)
    E = E.reshape(nx, ny, 3)
    hs = max(1.0, float(np.abs(H).max()))
    eh = max(float(np.abs(H - H[::-1, :]).max()), float(np.abs(H - H[:, ::-1]).max())) / hs
    xpol = abs(spec["optics"]["pol"][1]) == 0
    # y -> -y (flip axis 1): x-pol (Ex,-Ey,Ez), y-pol (-Ex,Ey,-Ez);  x -> -x (flip axis 0): x-pol (Ex,-Ey,-Ez), y-pol (-Ex,Ey,Ez)
    sy = np.array([1, -1, 1]) if xpol else np.array([-1, 1, -1])
    sx = np.array([1, -1, -1]) if xpol else np.array([-1, 1, 1])
    scale = float(np.abs(E).max())
    ef = max(float(np.abs(E[:, ::-1, :] - E * sy).max()), float(np.abs(E[::-1, :, :] - E * sx).max())) / scale
    asym = float(np.abs(H - H.T).max()) if nx == ny else 1.0
    return dict(err_field=ef, err_holo=eh, moved=asym, scale=scale, finite=bool(np.isfinite(H).all()))


EVAL = {"points": eval_points_case, "gridshift": eval_grid_shift_case, "gridsym": eval_grid_sym_case}


# ------------------------------------------------------------------------------------------------
# generators (every choice from the seeded rng)

def u(rng, lo, hi):
    return lo + (hi - lo) * rng.random()


def gen_optics(rng, tkind, axis_pol=False):
    mi = rng.choice([1.33, 1.0, 1.47])
    wl = u(rng, 0.45, 0.8)
    if tkind == "tmatrix":
        pol = [1.0, 0.0]
    elif axis_pol:
        pol = rng.choice([[1.0, 0.0], [0.0, 1.0], [-1.0, 0.0], [0.0, -1.0]])
    else:
        g = u(rng, 0, TWO_PI)
        # off-axis: keep at least 5 degrees away from the axes so that the MieLens sign is visible
        while min(abs(math.sin(2 * g)), 1) < 0.17:
            g = u(rng, 0, TWO_PI)
        pol = [math.cos(g), math.sin(g)]
    return dict(mi=mi, wl=wl, pol=pol)


def gen_sphere(rng, z, mi, absorbing=False):
    n = u(rng, 1.4, 1.7) * (mi / 1.33 if mi > 1.0 else 1.0)
    s = dict(kind="sphere", n=n, r=u(rng, 0.2, 0.9), center=[u(rng, -1.5, 1.5), u(rng, -1.5, 1.5), z])
    if absorbing:
        s["n"] = [n, u(rng, 0.001, 0.05)]
    return s


def gen_cluster(rng, z, mi, nmax=3):
    ns = rng.randint(2, nmax)
    rs = [u(rng, 0.2, 0.5) for _ in range(ns)]
    while True:
        cs = [[u(rng, -1.3, 1.3), u(rng, -1.3, 1.3), z + u(rng, -0.8, 0.8)] for _ in range(ns)]
        if all(math.dist(cs[i], cs[j]) > rs[i] + rs[j] + 0.05 for i in range(ns) for j in range(i)):
            break
    return dict(kind="spheres", members=[dict(n=u(rng, 1.45, 1.65), r=r, center=c) for r, c in zip(rs, cs)])


def gen_points(rng, centre, rmin, rmax, npts, z=0.0):
    xs, ys = [], []
    for _ in range(npts):
        r = u(rng, rmin, rmax)
        a = u(rng, 0, TWO_PI)
        xs.append(centre[0] + r * math.cos(a))
        ys.append(centre[1] + r * math.sin(a))
    return dict(kind="points", x=xs, y=ys, z=z)


THEORY_KINDS = ["mie", "mie_far", "mie_rad", "layered", "mie_sup", "multi", "mielens", "amielens", "lens", "lens_grid",
                "lens_uneq", "tmatrix", "lens_multi", "lens_tm", "auto_border"]


def gen_case(rng, tkind, opkind):
    """a point-detector exploration case"""
    optics = gen_optics(rng, tkind)
    mi = optics["mi"]
    lensy = tkind in ("mielens", "amielens", "lens", "lens_grid", "lens_uneq", "lens_multi", "lens_tm")
    if lensy:
        z = rng.choice([1, -1]) * u(rng, 0.5, 8.0)  # above and below the focal plane
    else:
        z = u(rng, 6.0, 20.0)
    theory = dict(kind=tkind)
    if tkind in ("mielens", "amielens"):
        theory["lens_angle"] = u(rng, 0.3, 1.2)
        if tkind == "amielens":
            theory["aberration"] = u(rng, -2.0, 2.0)
    if tkind == "lens":
        theory.update(lens_angle=u(rng, 0.3, 1.0), ntheta=60, nphi=60)
    if tkind == "lens_uneq":
        theory.update(lens_angle=u(rng, 0.3, 1.0), ntheta=rng.choice([20, 30, 45]), nphi=60)
    if tkind == "lens_grid":
        # few nodes, large k*rho: far inside the aliasing regime, where only the EXACT symmetries of the node set
        # {2 pi j / n} survive (theorem lens_grid_rot): rotations by 2 pi m / n, y -> -y, and x -> -x iff n is even
        n = rng.choice([12, 16]) if opkind == "mir_x" else rng.choice([7, 12, 16])
        theory.update(lens_angle=u(rng, 0.3, 1.0), ntheta=n, nphi=n)
    if tkind in ("lens_multi", "lens_tm"):
        # as lens_grid: few nodes, only the exact symmetries of the node set are asked for
        n = rng.choice([12, 16]) if opkind == "mir_x" else rng.choice([10, 12, 16])
        theory.update(lens_angle=u(rng, 0.4, 1.0), ntheta=rng.choice([8, 12]), nphi=n)
    if tkind == "auto_border":
        # theory='auto' on a pair of spheres a little MORE than 30 radii apart, along a diagonal of the x-y plane: the rule
        # (largest centre-to-centre distance against 30 radii, a rotation invariant) chooses the Mie superposition in every
        # orientation; a per-coordinate or bounding-box version of the test changes its mind when the pair is turned
        r = u(rng, 0.08, 0.15)
        d = r * u(rng, 31.0, 40.0)
        a0 = math.pi / 4 + u(rng, -0.1, 0.1)
        c0 = [u(rng, -0.5, 0.5), u(rng, -0.5, 0.5), z]
        scat = dict(kind="spheres", members=[dict(n=u(rng, 1.45, 1.65), r=r, center=c0),
                                             dict(n=u(rng, 1.45, 1.65), r=r * u(rng, 0.8, 1.0),
                                                  center=[c0[0] + d * math.cos(a0), c0[1] + d * math.sin(a0), z + u(rng, -0.2, 0.2)])])
        centre = [sum(m["center"][i] for m in scat["members"]) / 2 for i in range(3)]
    elif tkind in ("mie_sup", "multi", "lens_multi"):
        scat = gen_cluster(rng, z, mi, nmax=3 if tkind != "mie_sup" else 4)
        if tkind == "lens_multi" and len(scat["members"]) < 2:
            scat = gen_cluster(rng, z, mi, nmax=3)
        centre = [sum(m["center"][i] for m in scat["members"]) / len(scat["members"]) for i in range(3)]
    elif tkind == "layered":
        scat = dict(kind="layered", ns=[u(rng, 1.4, 1.5), u(rng, 1.5, 1.7)], ts=[u(rng, 0.2, 0.4), u(rng, 0.1, 0.3)],
                    center=[u(rng, -1.5, 1.5), u(rng, -1.5, 1.5), z])
        centre = scat["center"]
    elif tkind in ("tmatrix", "lens_tm"):
        rot = [0.0, u(rng, 0.15, 2.9), u(rng, 0, TWO_PI)]
        c = [u(rng, -1.5, 1.5), u(rng, -1.5, 1.5), z]
        if rng.random() < 0.5:
            scat = dict(kind="cyl", n=u(rng, 1.45, 1.6), d=u(rng, 0.4, 0.7), h=u(rng, 0.6, 1.0), center=c, rotation=rot)
        else:
            scat = dict(kind="spheroid", n=u(rng, 1.45, 1.6), r=[u(rng, 0.25, 0.4), u(rng, 0.4, 0.6)], center=c,
                        rotation=rot)
        optics["mi"] = 1.33
        centre = c
    else:
        scat = gen_sphere(rng, z, mi, absorbing=(rng.random() < 0.2 and tkind in ("mie", "mie_far")))
        centre = scat["center"]
    if tkind in ("lens", "lens_uneq"):
        # keep k*rho*sin(lens_angle) well below nphi = 60 (the azimuthal rule is exact only below aliasing)
        k = TWO_PI * optics["mi"] / optics["wl"]
        rmax = min(2.5, 22.0 / k)
        det = gen_points(rng, centre, 0.05, rmax, 6)
    elif lensy:
        det = gen_points(rng, centre, 0.05, 4.0, 6)
    else:
        det = gen_points(rng, centre, 0.1, 7.0, 6)
    if opkind == "shift":
        op = dict(kind="shift", d=[u(rng, -5, 5), u(rng, -5, 5)])
    elif opkind == "rot":
        if tkind == "tmatrix":
            a = math.pi
        elif tkind in ("lens_grid", "lens_multi", "lens_tm"):
            a = TWO_PI * rng.randint(1, theory["nphi"] - 1) / theory["nphi"]
        else:
            a = u(rng, 0.05, TWO_PI - 0.05)
        op = dict(kind="rot", a=a)
    else:
        op = dict(kind=opkind)
    return dict(mode="points", theory=theory, scat=scat, det=det, optics=optics, op=op, reuse=(rng.random() < 0.5))


def gen_grid_case(rng, tkind, mode):
    optics = gen_optics(rng, tkind, axis_pol=(mode == "gridsym"))
    lensy = tkind in ("mielens", "lens", "lens_uneq")
    z = (rng.choice([1, -1]) * u(rng, 0.5, 6.0)) if lensy else u(rng, 6.0, 15.0)
    theory = dict(kind=tkind)
    if tkind == "mielens":
        theory["lens_angle"] = u(rng, 0.3, 1.2)
    sp = rng.choice([0.1, 0.125, 0.07])
    if tkind == "lens":
        theory.update(lens_angle=u(rng, 0.3, 0.9), ntheta=60, nphi=60)
    if tkind == "lens_uneq":
        theory.update(lens_angle=u(rng, 0.3, 0.9), ntheta=20, nphi=60)
    if mode == "gridsym":
        nx = ny = rng.choice([7, 9, 11])
        if rng.random() < 0.3:
            ny = nx + 2
        scat = gen_sphere(rng, z, optics["mi"])
        scat["center"] = [(nx // 2) * sp, (ny // 2) * sp, z]
        return dict(mode="gridsym", theory=theory, scat=scat, det=dict(kind="grid", shape=[nx, ny], spacing=sp),
                    optics=optics, op=dict(kind="sym"))
    nx, ny = rng.choice([8, 10, 12]), rng.choice([8, 9, 12])
    if tkind in ("mie_sup", "multi"):
        scat = gen_cluster(rng, z, optics["mi"])
        for m in scat["members"]:
            m["center"][0] += nx * sp / 2
            m["center"][1] += ny * sp / 2
    else:
        scat = gen_sphere(rng, z, optics["mi"])
        scat["center"][0] = u(rng, 0, nx * sp)
        scat["center"][1] = u(rng, 0, ny * sp)
    m, n = rng.randint(-3, 3), rng.randint(-3, 3)
    if m == 0 and n == 0:
        m = 2
    return dict(mode="gridshift", theory=theory, scat=scat, det=dict(kind="grid", shape=[nx, ny], spacing=sp),
                optics=optics, op=dict(kind="gridshift", m=m, n=n))


# ------------------------------------------------------------------------------------------------
# exploration stage

def run_in_child(fn, arg):
    """the T-matrix Fortran may STOP the interpreter (defect 8 of DESIGN section 7, property C10): run it in a
    forked child so that this check keeps its verdict.  Returns (ok, result)."""
    r, w = os.pipe()
    pid = os.fork()
    if pid == 0:
        try:
            os.close(r)
            try:
                res = ("ok", fn(arg))
            except Exception as e:  # noqa
                res = ("exc", "%s: %s" % (type(e).__name__, e))
            with os.fdopen(w, "wb") as f:
                pickle.dump(res, f)
        finally:
            os._exit(0)
    os.close(w)
    with os.fdopen(r, "rb") as f:
        data = f.read()
    os.waitpid(pid, 0)
    if not data:
        return False, "child ended without a result (Fortran STOP?)"
    tag, res = pickle.loads(data)
    if tag == "exc":
        return False, res
    return True, res


def judge(ctx, spec, res):
    tk = spec["theory"]["kind"]
    opk = spec["op"]["kind"]
    tol = TOL[tk]
    ctx.explored += 1
    ctx.count("explore:%s:%s" % (tk, opk))
    key = "explore:%s:%s" % (tk, opk)
    if tk == "lens_uneq":
        key = "%s:%s" % (UNEQ_KEY, opk)
    if not res["finite"]:
        ctx.violation(key + ":nonfinite", "non-finite field or hologram for %s" % tk, dict(kind="explore", spec=spec, res=res))
        return
    if spec["mode"] == "gridsym":
        if res["moved"] > 1e-6:
            ctx.nontriv(("sym", tk, round(res["moved"], 9)))
    elif res["moved"] > 1e-3:
        ctx.nontriv((opk, tk, round(res["moved"], 9)))
    ctx.maxerr[tk] = max(ctx.maxerr.get(tk, 0.0), res["err_field"], res["err_holo"])
    if res["err_field"] > tol or res["err_holo"] > tol:
        what = {"shift": "shifting scatterer and detector together changes the result",
                "gridshift": "whole-pixel shift of the scatterer does not shift the hologram",
                "rot": "rotating scatterer, detector points and polarisation together about the optical axis does "
                       "not rotate the field / changes the hologram",
                "mir_y": "mirroring (y -> -y) configuration, detector and polarisation does not mirror the field",
                "mir_x": "mirroring (x -> -x) configuration, detector and polarisation does not mirror the field",
                "sym": "hologram of a sphere under axis-aligned polarisation is not symmetric about both axes"}[opk]
        ctx.violation(key, "%s: theory %s, relative error field %.3g hologram %.3g (tolerance %.0e)"
                      % (what, tk, res["err_field"], res["err_holo"], tol),
                      dict(kind="explore", spec=spec, res=res, tol=tol))


def stage_explore(ctx):
    rng = ctx.subrng("explore")
    ctx.maxerr = {}
    reps = ctx.n(8, 40)
    specs = []
    for _ in range(reps):
        for tk in THEORY_KINDS:
            for opk in ("shift", "rot", "mir_y", "mir_x"):
                specs.append(gen_case(rng, tk, opk))
    for _ in range(ctx.n(4, 20)):
        for tk in ("mie", "mie_far", "mielens", "lens", "mie_sup", "multi"):
            specs.append(gen_grid_case(rng, tk, "gridshift"))
        for tk in ("mie", "mie_far", "mielens", "lens", "lens_uneq"):
            specs.append(gen_grid_case(rng, tk, "gridsym"))
    tm_specs = [s for s in specs if s["theory"]["kind"] == "tmatrix"]
    other = [s for s in specs if s["theory"]["kind"] != "tmatrix"]
    nfail_multi = []
    for i, spec in enumerate(other):
        try:
            res = EVAL[spec["mode"]](spec)
        except Exception as e:  # noqa
            name = type(e).__name__
            if name == "MultisphereFailure":
                ctx.count("unsupported:multisphere-no-convergence")
                nfail_multi.append(spec)
                continue
            raise
        judge(ctx, spec, res)
        if i < 4:
            ctx.sample(dict(theory=spec["theory"], op=spec["op"], res=res))
    nmulti = sum(1 for s in other if s["theory"]["kind"] == "multi")
    # the generator produces small, well separated clusters: on the unchanged tree SCSMFO converged on all of 3 x 600
    # of them.  A tree on which a sizeable part of them is refused would otherwise pass by exploring nothing.
    if len(nfail_multi) > max(2, nmulti // 10):
        ctx.violation("explore:multi:no-convergence",
                      "Multisphere refused %d of %d small separated clusters (MultisphereFailure)" % (len(nfail_multi), nmulti),
                      dict(kind="explore", spec=nfail_multi[0], res=None), nofail=True)
    if tm_specs:
        ok, out = run_in_child(lambda ss: [eval_points_case(s) for s in ss], tm_specs)
        if not ok:
            ctx.violation("explore:tmatrix:child", "T-matrix exploration did not return: %s" % str(out)[:200],
                          dict(kind="explore-child", message=str(out), specs=tm_specs[:3]), nofail=True)
        else:
            for spec, res in zip(tm_specs, out):
                judge(ctx, spec, res)
    ctx.notes.append("largest relative deviation seen per theory (fields and holograms): " +
                     ", ".join("%s %.2e" % kv for kv in sorted(ctx.maxerr.items())))


# ------------------------------------------------------------------------------------------------
# correspondence: Mie assembly

def leaves_spherical(k, centre, X, Y, Z):
    """exactly what imageformation + core/math compute (same numpy primitives)"""
    import numpy as np
    x = k * (X - centre[0])
    y = k * (Y - centre[1])
    z = k * (centre[2] - Z)
    r = np.sqrt(x * x + y * y + z * z)
    theta = np.arctan2(np.sqrt(x ** 2 + y ** 2), z)
    phi = np.arctan2(y, x) % (2 * np.pi)
    return r, theta, phi


def mie_corr_exprs(spec):
    """-> list of (expr, meta) for one sphere / detector / polarisation"""
    import numpy as np
    from holopy.scattering import calc_scat_matrix, Mie
    from holopy.scattering.theory.mie_f import mieangfuncs
    optics, scat, det = spec["optics"], spec["scat"], spec["det"]
    E, _ = calc(spec["theory"], scat, det, optics, want_holo=False)
    sc = build_scatterer(scat)
    dt = build_detector(det)
    with warnings.catch_warnings():
        warnings.simplefilter("ignore")
        S = calc_scat_matrix(dt, sc, medium_index=optics["mi"], illum_wavelen=optics["wl"], theory=Mie(False, False))
    Sv = np.asarray(S.values)  # (N, 2, 2) = [[S2, S3], [S4, S1]]
    k = 2 * np.pi / (optics["wl"] / optics["mi"])
    c = scat["center"]
    X, Y = np.array(det["x"]), np.array(det["y"])
    Z = np.full(len(X), float(det["z"]))
    r, theta, phi = leaves_spherical(k, c, X, Y, Z)
    p = np.array(optics["pol"] + [0.0])
    p = p / np.sqrt((p ** 2).sum())  # to_vector
    scale = float(np.abs(E).max())
    rad = spec["theory"]["kind"] == "mie_rad"
    if rad:
        asbs = Mie()._scat_coeffs(sc, k, optics["mi"])
    out = []
    for i in range(len(X)):
        pref = 1j / r[i] * np.exp(1j * r[i])
        erad = complex(mieangfuncs.radial_field_mie(asbs[0:1, :], r[i], theta[i])) if rad else 0j
        ph = np.exp(-1j * k * c[2])
        e = ("cvclose %s %s (cv_mul QO %s (mie_assemble QO (%s, %s, %s, %s) %s %s %s %s %s %s (%s, %s))) %s" % (
            qlit(CORR_TOL), qlit(scale), clit(ph),
            clit(Sv[i][1][1]), clit(Sv[i][0][0]), clit(Sv[i][0][1]), clit(Sv[i][1][0]),
            clit(pref), clit(erad), qlit(math.cos(theta[i])), qlit(math.sin(theta[i])),
            qlit(math.cos(phi[i])), qlit(math.sin(phi[i])), qlit(p[0]), qlit(p[1]), cvlit(E[i])))
        out.append((e, dict(kind="corr-mie", spec=spec, point=i, impl=[[z.real, z.imag] for z in E[i]])))
    return out


def stage_corr_mie(ctx):
    rng = ctx.subrng("corr-mie")
    exprs, metas = [], []
    for kcase in range(ctx.n(40, 600)):
        tk = rng.choice(["mie_far", "mie_far", "mie_rad"])
        optics = gen_optics(rng, tk)
        if rng.random() < 0.3:  # the theory sees the normalised polarisation: use a non-unit one
            f = u(rng, 0.3, 3.0)
            optics["pol"] = [optics["pol"][0] * f, optics["pol"][1] * f]
        scat = gen_sphere(rng, u(rng, 4.0, 20.0), optics["mi"], absorbing=rng.random() < 0.2)
        det = gen_points(rng, scat["center"], 0.05, 8.0, 4, z=rng.choice([0.0, 0.0, u(rng, -1, 1)]))
        spec = dict(theory=dict(kind=tk), scat=scat, det=det, optics=optics)
        for e, m in mie_corr_exprs(spec):
            exprs.append(e)
            metas.append(m)
        ctx.count("corr-mie:" + tk)
        ctx.nontriv(("corr-mie", kcase))
        if kcase < 1:
            ctx.sample(dict(stage="corr-mie", spec=spec, impl=metas[-1]["impl"]))
    finish_corr(ctx, "C05mie", exprs, metas, "corr:mie_assemble",
                "Fortran incfield/calc_scat_field/fieldstocart(+radial) assembly of calc_field differs from mie_assemble "
                "on the implementation's own S1, S2, angles and prefactor")


# ------------------------------------------------------------------------------------------------
# correspondence: MieLens with identified integrals

def mielens_corr_exprs(spec):
    import numpy as np
    optics, scat, th = spec["optics"], spec["scat"], spec["theory"]
    c = scat["center"]
    rho = spec["rho"]
    # identification: two x-polarised evaluations at azimuth 0 and pi/2 (same rho exactly)
    det_id = dict(kind="points", x=[c[0] + rho, c[0]], y=[c[1], c[1] + rho], z=0.0)
    Eid, _ = calc(th, scat, det_id, dict(optics, pol=[1.0, 0.0]), want_holo=False)
    A0 = Eid[0][0] + Eid[1][0]   # K*I0 : Ex(0) = K (I0 + I2)/2, Ex(pi/2) = K (I0 - I2)/2
    A2 = Eid[0][0] - Eid[1][0]   # K*I2
    det = dict(kind="points", x=[c[0] + rho * math.cos(a) for a in spec["psis"]],
               y=[c[1] + rho * math.sin(a) for a in spec["psis"]], z=0.0)
    E, _ = calc(th, scat, det, optics, want_holo=False)
    k = 2 * np.pi / (optics["wl"] / optics["mi"])
    x = k * (np.array(det["x"]) - c[0])
    y = k * (np.array(det["y"]) - c[1])
    phi = np.arctan2(y, x) % (2 * np.pi)
    gam = float(np.arctan2(optics["pol"][1], optics["pol"][0]))
    scale = float(max(np.abs(E).max(), abs(A0), abs(A2)))
    out = []
    for i in range(len(phi)):
        e = "cvclose %s %s (mielens_assemble QO %s %s %s %s %s %s (1, 0)) %s" % (
            qlit(CORR_TOL), qlit(scale), clit(A0), clit(A2), qlit(math.cos(phi[i])), qlit(math.sin(phi[i])),
            qlit(math.cos(gam)), qlit(math.sin(gam)), cvlit(E[i]))
        out.append((e, dict(kind="corr-mielens", spec=spec, point=i, A0=[A0.real, A0.imag], A2=[A2.real, A2.imag],
                            impl=[[z.real, z.imag] for z in E[i]])))
    return out, abs(A2) / scale


def stage_corr_mielens(ctx):
    rng = ctx.subrng("corr-mielens")
    exprs, metas = [], []
    for kcase in range(ctx.n(40, 500)):
        optics = gen_optics(rng, "mielens")
        z = rng.choice([1, -1]) * u(rng, 0.5, 8.0)
        scat = gen_sphere(rng, z, optics["mi"])
        tk = "amielens" if rng.random() < 0.2 else "mielens"
        th = dict(kind=tk, lens_angle=u(rng, 0.3, 1.2))
        if tk == "amielens":
            th["aberration"] = u(rng, -2.0, 2.0)
        spec = dict(theory=th, scat=scat, optics=optics, rho=u(rng, 0.05, 4.0), psis=[u(rng, 0, TWO_PI) for _ in range(4)])
        out, rel2 = mielens_corr_exprs(spec)
        for e, m in out:
            exprs.append(e)
            metas.append(m)
        ctx.count("corr-mielens:" + ("above" if z > 0 else "below"))
        if rel2 > 1e-3:
            ctx.nontriv(("corr-mielens", kcase))  # I2 matters: the azimuth / polarisation dependence is visible
        if kcase < 1:
            ctx.sample(dict(stage="corr-mielens", spec=spec, A0=metas[-1]["A0"], A2=metas[-1]["A2"], impl=metas[-1]["impl"]))
    finish_corr(ctx, "C05ml", exprs, metas, "corr:mielens_assemble",
                "MieLens field at (phi, polarisation angle) differs from mielens_assemble on I0, I2 identified from two "
                "x-polarised evaluations")


# ------------------------------------------------------------------------------------------------
# correspondence: Lens pupil sum (small quadrature)

def lens_corr_exprs(spec):
    import numpy as np
    from holopy.scattering import calc_scat_matrix, Mie
    from holopy.core.metadata import detector_points
    optics, scat, th, det = spec["optics"], spec["scat"], spec["theory"], spec["det"]
    E, _ = calc(th, scat, det, optics, want_holo=False)
    lens = build_theory(th)
    thetas = np.asarray(lens._theta_pts).reshape(-1)
    twts = np.asarray(lens._theta_wts).reshape(-1)
    phis = np.asarray(lens._phi_pts).reshape(-1)
    pwts = np.asarray(lens._phi_wts).reshape(-1)
    sc = build_scatterer(scat)
    with warnings.catch_warnings():
        warnings.simplefilter("ignore")
        S = calc_scat_matrix(detector_points(theta=thetas, phi=np.zeros_like(thetas)), sc, medium_index=optics["mi"],
                             illum_wavelen=optics["wl"], theory=Mie(False, False))
    Sv = np.conj(np.asarray(S.values))  # Lens conjugates the wrapped theory's matrices
    k = 2 * np.pi / (optics["wl"] / optics["mi"])
    c = scat["center"]
    x = k * (np.array(det["x"]) - c[0])
    y = k * (np.array(det["y"]) - c[1])
    kz = k * (c[2] - float(det["z"]))
    krho = np.sqrt(x ** 2 + y ** 2)
    phip = np.arctan2(y, x) % (2 * np.pi)
    gam = float(np.arctan2(optics["pol"][1], optics["pol"][0]))
    K = -1.0 * np.exp(1j * kz)
    ph = np.exp(-1j * k * c[2])
    scale = float(np.abs(E).max())
    out = []
    for i in range(len(x)):
        nodes = []
        for it in range(len(thetas)):
            st, ct = math.sin(thetas[it]), math.cos(thetas[it])
            for jp in range(len(phis)):
                P = (np.exp(1j * krho[i] * st * math.cos(phis[jp] - phip[i])) * np.exp(1j * kz * (1 - ct)) *
                     (math.sqrt(ct) * st * pwts[jp] * twts[it]) * (.5 / np.pi))
                nodes.append("(%s, (%s, %s), (%s, %s, %s, %s))" % (
                    clit(P), qlit(math.cos(phis[jp] - gam)), qlit(math.sin(phis[jp] - gam)),
                    clit(Sv[it][1][1]), clit(Sv[it][0][0]), clit(Sv[it][0][1]), clit(Sv[it][1][0])))
        e = "cvclose %s %s (cv_mul QOr %s (lens_assemble QOr %s %s %s %s)) %s" % (
            qlit(CORR_TOL), qlit(scale), clit(ph), listlit(nodes), qlit(math.cos(gam)), qlit(math.sin(gam)), clit(K),
            cvlit(E[i]))
        out.append((e, dict(kind="corr-lens", spec=spec, point=i, impl=[[z.real, z.imag] for z in E[i]])))
    return out


def stage_corr_lens(ctx):
    rng = ctx.subrng("corr-lens")
    exprs, metas = [], []
    for kcase in range(ctx.n(10, 120)):
        optics = gen_optics(rng, "lens")
        z = rng.choice([1, -1]) * u(rng, 0.5, 6.0)
        scat = gen_sphere(rng, z, optics["mi"])
        if kcase % 3 == 2:
            th = dict(kind="lens_uneq", lens_angle=u(rng, 0.3, 1.0), ntheta=rng.choice([2, 3]), nphi=rng.choice([4, 5]))
        else:
            n = rng.choice([3, 5, 5])  # odd: a 4-node ring is blind to the sign of pol_angle in cos^2(phi' -+ pol_angle)
            th = dict(kind="lens_grid", lens_angle=u(rng, 0.3, 1.0), ntheta=n, nphi=n)
        det = gen_points(rng, scat["center"], 0.05, 3.0, 2)
        spec = dict(theory=th, scat=scat, det=det, optics=optics)
        for e, m in lens_corr_exprs(spec):
            exprs.append(e)
            metas.append(m)
        ctx.count("corr-lens:%dx%d" % (th["ntheta"], th["nphi"]))
        ctx.nontriv(("corr-lens", kcase))
    finish_corr(ctx, "C05lens", exprs, metas, "corr:lens_assemble",
                "Lens(Mie) field differs from the model pupil sum (phi' - pol_angle recombination, lr->xyz, phase)",
                keyfn=lambda m: (UNEQ_KEY + ":corr") if m["spec"]["theory"]["kind"] == "lens_uneq" else "corr:lens_assemble")


# ------------------------------------------------------------------------------------------------
# correspondence: centroid

def stage_corr_centroid(ctx):
    import numpy as np
    rng = ctx.subrng("corr-centroid")
    exprs, metas = [], []
    for kcase in range(ctx.n(30, 300)):
        scat = gen_cluster(rng, u(rng, 5, 15), 1.33, nmax=5)
        cs = [m["center"] for m in scat["members"]]
        c = np.asarray(build_scatterer(scat).center, dtype=float)
        e = ("(let '(a, b, d) := centroid QO %s in qclose (1 # 1000000000000) a %s && qclose (1 # 1000000000000) b %s "
             "&& qclose (1 # 1000000000000) d %s)" % (
                 listlit(["(%s, %s, %s)" % tuple(qlit(v) for v in p) for p in cs]), qlit(c[0]), qlit(c[1]), qlit(c[2])))
        exprs.append(e)
        metas.append(dict(kind="corr-centroid", centers=cs, impl=[float(v) for v in c]))
        ctx.count("corr-centroid:n=%d" % len(cs))
    finish_corr(ctx, "C05cen", exprs, metas, "corr:centroid", "Spheres.center differs from the model centroid")


def finish_corr(ctx, tag, exprs, metas, key, what, keyfn=None):
    mism, errors, _ = run_mismatch_cases(tag, REQ, exprs, chunk=40)
    ctx.corr_cases += len(exprs)
    for e in errors:
        ctx.violation("corr-eval-error", "model evaluation failed: " + e[:300], dict(kind="coq-error", log=e), nofail=True)
    for i in mism:
        k = keyfn(metas[i]) if keyfn else key
        w = what if k == key else ("Lens with quad_npts_theta != quad_npts_phi: scattering matrices are assigned to the wrong "
                                   "polar nodes (model pupil sum and calc_field disagree)")
        ctx.disagree(k, w, dict(expr=exprs[i][:2000], **metas[i]))


# ------------------------------------------------------------------------------------------------

def _src_items():
    from harness.lib import pysrc
    return [dict(file="holopy/scattering/imageformation.py", qualname="ImageFormation._transform_to_desired_coordinates (cartesian)",
                 name="coord_handoff_src",
                 fn=lambda repo: pysrc.translate_assigned_list(
                     repo, "holopy/scattering/imageformation.py", "ImageFormation._transform_to_desired_coordinates",
                     "coord_handoff_src", "original_coordinate_values", 3,
                     {"f.x.values": "x", "f.y.values": "y", "f.z.values": "z", "origin[0]": "ox", "origin[1]": "oy", "origin[2]": "oz"},
                     inputs=["wavevec"]))]


def stage_srctie(ctx):
    from harness.lib import srctie
    ok = srctie.run(ctx, "C05", "From HV Require Import C01.Model C05.Model C05.Lemmas C05.Props.\n", _src_items())
    ctx.count("srctie:%s" % ("ok" if ok else "broken"))


def run(ctx):
    ctx.rule = ("exploration: theory (Mie near/far/radial-far, layered sphere, Mie superposition of 2-4 spheres, Multisphere "
                "2-3 spheres, T-matrix cylinder/spheroid tilted, MieLens, AberratedMieLens, Lens(Mie) 60 azimuthal nodes, "
                "Lens(Mie) 7-16 nodes with grid-multiple angles) x operation (arbitrary shift on point detectors, whole-pixel "
                "shift on grids, rotation by a in (0,2pi) [T-matrix: pi only, polarisation fixed (1,0)], mirror y, mirror x, "
                "two-axis symmetry of a centred sphere on odd grids); polarisation angles >= 5 deg off the axes; lens theories "
                "above and below focus; non-trivial = the transformed result differs from the untransformed one by > 1e-3 "
                "relative (so equality is not 0 = 0).  correspondence: per detector point, non-trivial when I2 matters")
    ctx.clauses_proved = [
        "offsets handed to a theory depend on detector-minus-centre differences only; in-plane shift leaves every field and "
        "hologram value of ANY theory unchanged (C01 image-formation model)",
        "rotation / mirror of centre and detector commute with the hand-off; r, theta, rho, z unchanged, azimuth advanced by a",
        "Mie/multisphere assembly: E(phi+a, Rz(a)pol) = Rz(a)E(phi,pol) for all S1..S4, prefactor, radial amplitude, theta, pol",
        "MieLens assembly: E(phi+a, gamma+a) = Rz(a)E(phi,gamma) for all I0, I2; polynomial form = cos/sin 2(phi-gamma); mod 2pi immaterial",
        "mirror covariance of both assemblies (general polarisation; S3,S4 -> -S3,-S4), oddness in the polarisation",
        "sphere with x- or y-polarisation: field parities and hologram even in both axes (Mie and MieLens)",
        "T-matrix postfactor cancels incfield for polarisation (1,0)",
        "Lens: pupil integrals invariant under any re-ordering / cyclic re-indexing of nodes; for a = 2 pi m / n the discrete "
        "integrals are exactly invariant and the field rotates by a (any 2pi-periodic S, any prefactor)",
        "centroid commutes with rotations, shifts, mirrors, permutations; SCSMFO cluster coordinates shift-invariant, "
        "rotation-covariant, centred",
        "Q instance of mie_assemble / mielens_assemble = R instance"]
    ctx.clauses_explored = [
        "covariance of the solver kernels themselves (Mie series, SCSMFO amn coefficients under rotation of the cluster, "
        "ampld T-matrix under rotation/mirror of the particle, MieLens pupil integrals depending on rho only): explored on the "
        "implementation with the stated tolerances",
        "Lens(Mie) for rotation angles that are not multiples of 2pi/n: equality up to quadrature aliasing (explored, nphi=60, "
        "k rho sin(lens_angle) < 22)",
        "Multisphere/T-matrix: iterative / truncated solvers, 1e-5"]
    ctx.trusted += [
        "oracle: amplitude scattering matrix S1..S4 (asm_mie_far via calc_scat_matrix), radial amplitude (radial_field_mie), "
        "Mie coefficients - enter mie_assemble as arguments",
        "oracle: numpy sqrt/arctan2/cos/sin/exp leaf values; prefactor i/kr exp(ikr); exp(-i k z_c)",
        "oracle: MieLens pupil integrals I0(rho), I2(rho) (quadrature / Chebyshev interpolation) - identified from two "
        "evaluations of calc_field, hypothesis: they depend on rho, z, sphere, lens only",
        "oracle: Lens quadrature nodes and weights (leggauss, linspace), prefactor exponentials",
        "oracle: SCSMFO amncalc, asmfr; ampld (T-matrix) - explored only"]
    ctx.clauses_proved.append(
        "source tie: the Cartesian hand-off of ImageFormation._transform_to_desired_coordinates (k (x - x0), k (y - y0), k (z0 - z)), "
        "translated from the current source text on every run, is proved equal to the model's position; shift invariance, rotation "
        "and mirror covariance of the offsets restated for the translated source")
    ctx.trusted.append("translator harness/lib/pysrc.py (the list assigned to original_coordinate_values in the Cartesian branch; "
                       "f.x.values etc. and origin[i] opaque reals)")
    guarded(ctx, "prove", ctx.prove)
    guarded(ctx, "source-tie", stage_srctie, ctx)
    boot.boot()
    guarded(ctx, "corr-mie", stage_corr_mie, ctx)
    guarded(ctx, "corr-mielens", stage_corr_mielens, ctx)
    guarded(ctx, "corr-lens", stage_corr_lens, ctx)
    guarded(ctx, "corr-centroid", stage_corr_centroid, ctx)
    guarded(ctx, "explore", stage_explore, ctx)


def replay(ctx, data):
    """re-run the stored failing case on the current tree"""
    d = data["data"]
    kind = d.get("kind")
    if kind == "tie":
        ctx.prove()
        stage_srctie(ctx)
        return
    boot.boot()
    if kind == "explore":
        spec = d["spec"]
        ctx.maxerr = {}
        if spec["theory"]["kind"] == "tmatrix":
            ok, res = run_in_child(eval_points_case, spec)
            if not ok:
                ctx.violation(data["key"], str(res), d, nofail=True)
                return
        else:
            res = EVAL[spec["mode"]](spec)
        if res is None:
            return
        print("replay: %s %s -> field err %.3g holo err %.3g (tol %.0e)" % (
            spec["theory"]["kind"], spec["op"], res["err_field"], res["err_holo"], TOL[spec["theory"]["kind"]]))
        judge(ctx, spec, res)
    elif kind in ("corr-mie", "corr-mielens", "corr-lens"):
        fn = {"corr-mie": mie_corr_exprs, "corr-mielens": lambda s: mielens_corr_exprs(s)[0], "corr-lens": lens_corr_exprs}[kind]
        out = fn(d["spec"])
        exprs = [e for e, _ in out]
        metas = [m for _, m in out]
        finish_corr(ctx, "C05replay", exprs, metas, data["key"], data["what"])
        print("replay: %d point(s) re-evaluated, disagreements: %d" % (len(exprs), ctx.corr_disagree))
    else:
        print("replay: re-running the whole check with the recorded seed")
        ctx.seed = data.get("seed", ctx.seed)
        run(ctx)
